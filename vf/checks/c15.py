"""C15 - shelving and unshelving restore exactly the shelved changes.

A committed base tree (long text files, directories, symlinks, exec bits) gets a generated program of pending
changes; a random subset of ShelfCreator.iter_shelvable() items (and, per text file, a per-region line choice
T_keep) is shelved through the API, the interactive Shelver (scripted prompts) or cmd_shelve; the observed tree
is compared with the state the statement prescribes (basis side of every selected item, working side of every
other one); the shelf is unshelved onto the untouched result and the tree must equal the pre-shelve tree; shelf
ids are checked against a tiny live-set model after every manager operation.

Histories and targets: the tree has one commit (target = basis tree), or two commits and the shelve is made against the basis tree, or two
commits and the shelve is made against the OLDER revision (ShelfCreator(tree, revision_tree(base-1)), Shelver(tree, that tree), shelve -r 1):
"the changes" are then those between that revision and the working tree, the model's basis side is that revision, and the shelf must
record it as its base.  In some cases ten or more (thorough: rarely a hundred) shelves are piled up before the judged rounds, so that ids
of different decimal widths are alive together.
"""
import contextlib
import io
import os

from vf import gen, observe
from vf.checks import _c15_gen as G
from vf.checks import _c15_model as M

ID = "C15"
LEVEL = "exploration"
TECHNIQUE = ("state-model monitor on real ShelfCreator/ShelfManager/Unshelver/Shelver/cmd_shelve executions: post-shelve tree vs "
             "by-construction model (basis side of selected items, T_keep for line choices), round trip vs pre-shelve snapshot, shelf-id live-set model")
LEVEL_TEXT = ("generated pending-change programs on bzr working trees; random selections of shelvable items incl. per-region line choice; "
              "API, scripted interactive Shelver and command paths; every shelve judged against the statement's own model, every unshelve against "
              "the recorded pre-shelve disk + versioning + iter_changes; shelf ids judged after every manager operation")
RULE = ("case = base tree (3-7 files of 8-30 lines, dirs, symlinks, exec bits) [+ 1-5 ops committed as a second revision in 40% of the cases; in 28% the shelve "
        "target is then the older revision] [+ 10-13 piled-up shelves in 9%] + 2-9 (quick) / 2-16 (thorough) pending ops (multi-hunk edits, renames, moves, "
        "adds, removes, kind/exec/symlink-target changes, replace/swap layouts) + selection of iter_shelvable items; one evaluation = one shelve+unshelve "
        "round judged; non-trivial = at least one item selected and at least one left (or a line-level mix); distinct = item kinds x selection x outcome class")
CASES = {"quick": 480, "thorough": 9000}
BUDGET_S = {"quick": 22, "thorough": 640}
# floors sized for a heavily loaded shared machine (one OS file-lock call was measured at 0.2 s there, 16 worker start-ups at 30+ s)
MIN_EVALS = {"quick": 30, "thorough": 800}
FLOORS = {"quick": {"oracle_post_shelve": 25, "oracle_roundtrip": 20, "oracle_shelf_ids": 200, "oracle_lines_mix": 2,
                    "oracle_roundtrip_older_target": 3, "oracle_shelf_ids_mixed_width": 8, "oracle_fault_conservation": 3},
          "thorough": {"oracle_post_shelve": 700, "oracle_roundtrip": 500, "oracle_shelf_ids": 4000, "oracle_lines_mix": 50,
                       "oracle_ui_hunks": 30, "oracle_cmd_shelve": 30, "oracle_shelf_content": 30,
                       "oracle_roundtrip_older_target": 100, "oracle_shelf_ids_mixed_width": 500, "oracle_fault_conservation": 100}}
ASSUMPTIONS = [
    "fault dimension (30% of the cases, private copy of the tree): ENOSPC at the k-th write (k mostly 0-3) of the shelf file inside ShelfManager.shelve_changes; only the conservation of the pending changes (tree or readable shelf) is judged, a truncated shelf file left behind is counted",
    "selections are subsets of what iter_shelvable() offers; an executable-bit change of a file present on both sides is never offered and is judged only through 'shelve everything leaves the basis'",
    "ids that were versioned-but-missing on disk before shelving are not judged (the statement does not say what restoring them means)",
    "selections whose result (basis + unselected) is not a well-formed tree may be refused; they are counted, not judged",
    "unversioned files below a directory that the selection moves or removes are not judged after the shelve (they are judged after the round trip)",
    "git working trees refuse shelving (ShelvingUnsupported): counted, not judged",
    "target trees are the basis tree or the one older mainline revision of a two-revision branch; trees of other branches are not used as targets",
]

MESSAGES = [None, "msg", "wip: half done", "unicodé ✓", "two\nlines", ""]
TOKEN = {"add file": "add", "delete file": "delete", "rename": "rename", "change kind": "content",
         "modify target": "target", "modify text": "content"}


def split_lines(data):
    parts = data.split(b"\n")
    lines = [x + b"\n" for x in parts[:-1]]
    if parts[-1]:
        lines.append(parts[-1])
    return lines


def _open(p):
    from breezy.workingtree import WorkingTree

    return WorkingTree.open(p)


# The tree the current case shelves against ("target tree"): None = the working tree's basis tree (plain `shelve`), a revision id =
# that older revision of the branch (`shelve -r REV`).  Set once per case (a worker runs its cases one after the other); every
# observation of "the changes of the tree" and every ShelfCreator of the case uses it.
CUR = {"target": None}


def target_of(wt):
    """The case's target tree (call with the tree locked)."""
    if CUR["target"] is None:
        return wt.basis_tree()
    return wt.branch.repository.revision_tree(CUR["target"])


class Snap:
    """Fresh objects, one lock cycle (OS file locks are the dominant cost on a loaded machine)."""

    def __init__(self, p, with_basis=False):
        wt = _open(p)
        with wt.lock_read():
            self.root, self.work = M.observe_tree(wt, True)
            self.disk = observe.snap_disk(p)
            target = target_of(wt)
            self.changes = M.observe_changes(wt, target)
            self.conflicts = [repr(c) for c in wt.conflicts()]
            if with_basis:  # state of the target tree (named basis throughout: it is the basis tree unless the case shelves against an older revision)
                self.basis = M.observe_tree(target, False)[1]
        self.paths, self.problems = M.paths_of(self.work, self.root)


# ------------------------------------------------------------------ shelf id model

class Shelves:
    """Live-set model of the ShelfManager, checked after every manager operation."""

    def __init__(self, ctx, p, rev=b"base-1"):
        self.ctx, self.p, self.live = ctx, p, {}
        self.rev = rev  # revision of the target tree every shelf of this case is made against: what the shelf must record as its base

    def mgr(self, wt=None):
        return (wt or _open(self.p)).get_shelf_manager()  # fresh object every time; takes no lock

    def created(self, sid, msg):
        c = self.ctx
        c.count("oracle_shelf_ids")
        if sid in self.live:
            # the shelf that had this id has just been overwritten: nothing after this can be judged
            c.fail("ids:new-shelf-reuses-live-id", "new shelf got id %r while %r are live" % (sid, sorted(self.live)), stop=True)
        elif self.live and sid <= max(self.live):
            c.fail("ids:new-id-not-above-live-ids", "new shelf got id %r while %r are live" % (sid, sorted(self.live)))
        self.live[sid] = msg
        self.verify("after-create")

    def new_id_after(self, before, msg, expect_new=True):
        """For the UI / command paths (no return value): the id that appeared."""
        now = self.mgr().active_shelves()
        new = [i for i in now if i not in before]
        if not expect_new:
            self.ctx.count("oracle_shelf_ids")
            self.ctx.check(not new and now == sorted(self.live), "ids:shelf-created-though-nothing-shelved", "before %r now %r" % (before, now))
            return None
        if len(new) != 1:
            self.ctx.fail("ids:not-exactly-one-new-shelf", "before %r now %r" % (before, now), stop=True)
        self.created(new[0], msg)
        return new[0]

    def verify(self, where):
        from breezy import shelf

        c = self.ctx
        m = self.mgr()
        c.count("oracle_shelf_ids")
        act = m.active_shelves()
        exp = sorted(self.live)
        if len({len(str(i)) for i in exp}) > 1:
            c.count("oracle_shelf_ids_mixed_width")  # ids of different decimal widths are alive together (numeric order != name order)
        if len(exp) >= 10:
            c.count("oracle_shelf_ids_10plus")
        if len(exp) >= 100:
            c.count("oracle_shelf_ids_100plus")
        if act != exp:
            c.fail("ids:active-shelves-differ-from-live-set", "%s: active %r, created-and-not-deleted %r" % (where, act, exp))
        if any(b <= a for a, b in zip(act, act[1:])):
            c.fail("ids:active-shelves-not-strictly-increasing", "%r" % (act,))
        last = m.last_shelf()
        c.check(last == (max(act) if act else None), "ids:last-shelf-inconsistent", "%s: last_shelf %r active %r" % (where, last, act))
        for sid, msg in self.live.items():
            try:
                md = m.get_metadata(sid)
                with m.read_shelf(sid) as f:
                    f.read(1)
            except shelf.NoSuchShelfId:
                c.fail("ids:live-shelf-vanished", "%s: shelf %r not readable, live %r" % (where, sid, exp))
                continue
            if md.get(b"message") != msg:
                c.fail("ids:shelf-message-changed", "%s: shelf %r message %r, stored with %r" % (where, sid, md.get(b"message"), msg))
            c.check(md.get(b"revision_id") == self.rev, "ids:metadata-revision", "shelf %r records base revision %r, its changes were computed against %r" % (
                sid, md.get(b"revision_id"), self.rev))

    def gone(self, sid, where):
        from breezy import shelf

        c = self.ctx
        self.live.pop(sid, None)
        m = self.mgr()
        c.count("oracle_shelf_ids")
        try:
            m.read_shelf(sid).close()
            c.fail("ids:deleted-shelf-still-readable", "%s: shelf %r readable after delete" % (where, sid))
        except shelf.NoSuchShelfId:
            pass
        self.verify(where)

    def delete(self, sid):
        self.mgr().delete_shelf(sid)
        self.ctx.hist("idop:delete")
        self.gone(sid, "after-delete")

    def traffic(self, rng, n, protect=(), fill_to=0):
        """n manager operations: shelves with nothing selected (legal: an empty shelf) and deletions (also of middle shelves).

        fill_to: first pile up shelves (few deletions) until that many are alive at once.
        """
        from breezy import shelf

        if not n and not fill_to:
            return
        wt = _open(self.p)
        with wt.lock_tree_write():
            left = n
            while left > 0 or len(self.live) < fill_to:
                filling = len(self.live) < fill_to
                if filling:
                    self.ctx.hist("idop:pile-up")
                else:
                    left -= 1
                cand = [i for i in self.live if i not in protect]
                if cand and rng.random() < (0.12 if filling else 0.4):
                    sid = rng.choice(cand)
                    self.ctx.hist("idop:delete-%s" % ("last" if sid == max(self.live) else "middle-or-first"))
                    wt.get_shelf_manager().delete_shelf(sid)
                    self.gone(sid, "after-delete")
                    continue
                msg = rng.choice(MESSAGES)
                creator = shelf.ShelfCreator(wt, target_of(wt))
                try:
                    list(creator.iter_shelvable())
                    sid = wt.get_shelf_manager().shelve_changes(creator, msg)
                finally:
                    creator.finalize()
                self.ctx.hist("idop:empty-shelf")
                self.created(sid, msg)


# ------------------------------------------------------------------ selection + shelving paths

def required_tokens(basis, work, root):
    """Per fid the item tokens the statement's change list implies (exec-only changes: none)."""
    out = {}
    for fid in set(basis) | set(work):
        if fid == root:
            continue
        b, w = basis.get(fid), work.get(fid)
        if b is None:
            out[fid] = {"add file"}
        elif w is None or w.kind is None:
            out[fid] = {"delete file"}
        else:
            t = set()
            if (b.parent, b.name) != (w.parent, w.name):
                t.add("rename")
            if b.kind != w.kind:
                t.add("change kind")
            elif b.kind == "symlink" and b.content != w.content:
                t.add("modify target")
            elif b.kind == "file" and b.content != w.content:
                t.add("modify text")
            if t:
                out[fid] = t
    return out


def item_fid(item):
    return M._dec(item[1])


def check_items(ctx, items, pre, basis):
    """iter_shelvable offers every change of the tree (exec-only changes are judged elsewhere)."""
    ctx.count("oracle_items_offered")
    req = required_tokens(basis, pre.work, pre.root)
    got = {}
    for it in items:
        got.setdefault(item_fid(it), set()).add(it[0])
        ctx.hist("item:" + it[0])
    for fid, toks in req.items():
        for t in toks - got.get(fid, set()):
            ctx.fail("iter_shelvable:change-not-offered:" + t.replace(" ", "-"), "fid %s: %s not offered, got %r" % (fid, t, sorted(got.get(fid, ()))))
    for fid, toks in got.items():
        for t in toks - req.get(fid, set()):
            if t == "modify target":  # offered for every symlink that shows up in iter_changes; a no-op when targets are equal
                ctx.hist("item:spurious-modify-target")
                continue
            ctx.fail("iter_shelvable:offers-nonexistent-change:" + t.replace(" ", "-"), "fid %s: %s offered, model says %r" % (fid, t, sorted(req.get(fid, ()))))
    return req


def choose_items(rng, items):
    r = rng.random()
    if r < 0.14 or not items:
        return list(items), "all"
    if r < 0.24:
        return [rng.choice(items)], "single"
    if r < 0.30:
        i = rng.randrange(len(items))
        return items[:i] + items[i + 1:], "all-but-one"
    p = rng.choice([0.3, 0.5, 0.7])
    return [it for it in items if rng.random() < p], "subset"


def shelve_api(ctx, rng, p, pre, basis, shelves, msg, force_all=False):
    """Shelve through ShelfCreator + ShelfManager.  Returns (sel, selmode, sid, exc, stats)."""
    from breezy import shelf

    sel = M.Sel()
    wt = _open(p)
    stats = {"mixed_files": 0, "regions": 0, "shelf_lines": {}}
    sid, exc = None, None
    with wt.lock_tree_write():
        creator = shelf.ShelfCreator(wt, target_of(wt))
        try:
            items = list(creator.iter_shelvable())
            check_items(ctx, items, pre, basis)
            chosen, selmode = (list(items), "all") if force_all else choose_items(rng, items)
            for it in chosen:
                fid = item_fid(it)
                kind = it[0]
                ctx.hist("selected:" + kind)
                if kind == "modify text" and selmode != "all" and b"\x00" not in (pre.work[fid].content + basis[fid].content) and rng.random() < 0.7:
                    bl, wl = split_lines(basis[fid].content), split_lines(pre.work[fid].content)
                    matcher = "patience" if rng.random() < 0.8 else "difflib"
                    ops = M.regions(bl, wl, matcher)
                    n = sum(1 for o in ops if o[0] != "equal")
                    pw = rng.choice([0.0, 0.3, 0.5, 0.7])
                    choice = [rng.random() < pw for _ in range(n)]
                    keep = M.mix(bl, wl, ops, choice)
                    creator.shelve_lines(it[1], keep)
                    sel.add(fid, "lines", b"".join(keep))
                    if matcher == "patience":
                        # what the shelf must hold for this file: the basis plus exactly the regions that were taken out of the tree
                        stats["shelf_lines"][fid] = b"".join(M.mix(bl, wl, ops, [not c for c in choice]))
                    stats["regions"] += n
                    ctx.hist("regions:%s" % (n if n < 6 else "6+"))
                    ctx.hist("lines:" + ("all-basis" if not any(choice) else "all-work" if all(choice) else "mixed:" + matcher))
                    if any(choice) and not all(choice):
                        stats["mixed_files"] += 1
                    continue
                if rng.random() < 0.5:
                    creator.shelve_change(it)
                else:
                    {"rename": creator.shelve_rename, "delete file": creator.shelve_deletion, "add file": creator.shelve_creation,
                     "change kind": creator.shelve_content_change, "modify text": creator.shelve_content_change,
                     "modify target": creator.shelve_modify_target}[kind](it[1])
                sel.add(fid, TOKEN[kind])
            try:
                sid = wt.get_shelf_manager().shelve_changes(creator, msg)
            except Exception as e:  # classified by the caller against the model
                exc = e
        finally:
            creator.finalize()
    stats["items"] = [(it[0], item_fid(it)) for it in items]
    stats["n_selected"] = len(chosen)
    return sel, selmode, sid, exc, stats


def _install_recorder(rec):
    """Subclass ShelfCreator so that the items iterated and the methods called by Shelver are visible."""
    from breezy import shelf

    orig = shelf.ShelfCreator

    class RecordingCreator(orig):
        def iter_shelvable(self):
            for it in orig.iter_shelvable(self):
                rec["items"].append(it)
                rec["current"] = it
                yield it

        def shelve_lines(self, file_id, new_lines):
            new_lines = list(new_lines)
            rec["calls"].append(("lines", M._dec(file_id), b"".join(new_lines)))
            return orig.shelve_lines(self, file_id, new_lines)

        def shelve_content_change(self, file_id):
            rec["calls"].append(("content", M._dec(file_id), None))
            return orig.shelve_content_change(self, file_id)

    shelf.ShelfCreator = RecordingCreator
    return orig


def shelve_ui(ctx, rng, p, pre, basis, msg):
    """Interactive Shelver with scripted answers.  Returns (sel, selmode, shelved?, exc, stats)."""
    from breezy import errors, shelf, shelf_ui

    rec = {"items": [], "calls": [], "current": None}
    decisions = []  # (item, kind-of-prompt, answer)
    hunks = {}
    p_yes = rng.choice([0.3, 0.5, 0.7, 1.0])
    p_finish = 0.03
    p_quit = 0.02
    final_no = rng.random() < 0.05
    destroy = rng.random() < 0.08

    class Scripted(shelf_ui.Shelver):
        def get_parsed_patch(self, file_id, invert=False):
            parsed = shelf_ui.Shelver.get_parsed_patch(self, file_id, invert)
            from breezy import patches

            hs = []
            for h in parsed.hunks:
                old = [l.contents for l in h.lines if isinstance(l, (patches.ContextLine, patches.RemoveLine))]
                new = [l.contents for l in h.lines if isinstance(l, (patches.ContextLine, patches.InsertLine))]
                hs.append((h.orig_pos, h.orig_range, old, new))
            hunks[M._dec(file_id)] = hs
            return parsed

        def prompt(self, message, choices, default):
            vocab = self.reporter.vocab
            chars = "ynfq" if "edit manually" not in choices else "ynefq"
            if message == vocab["hunk"]:
                what = "hunk"
            elif message == vocab["binary"]:
                what = "binary"
            elif message.startswith("Shelve ") and message.endswith("change(s)?"):
                decisions.append((None, "final", "n" if final_no else "y"))
                return chars.index("n" if final_no else "y")
            else:
                what = "item"
            r = rng.random()
            ans = "q" if r < p_quit else "f" if r < p_quit + p_finish else "y" if rng.random() < p_yes else "n"
            if rng.random() < 0.02:
                decisions.append((rec["current"], what, "eof"))
                return None
            decisions.append((rec["current"], what, ans))
            return chars.index(ans)

    orig = _install_recorder(rec)
    exc = None
    wt = _open(p)
    try:
        with wt.lock_tree_write():
            shelver = Scripted(wt, target_of(wt), diff_writer=io.BytesIO(), auto=False, auto_apply=rng.random() < 0.4,
                               message=msg, destroy=destroy)  # takes its own tree-write lock, released by finalize()
        try:
            shelver.run()
        except errors.UserAbort:
            exc = "quit"
        except Exception as e:  # classified by the caller against the model
            exc = e
        finally:
            shelver.finalize()
    finally:
        shelf.ShelfCreator = orig
    # --- intended selection from the scripted answers
    sel = M.Sel()
    auto = False
    by_item = {}
    for it, what, ans in decisions:
        if what != "final":
            by_item.setdefault(id(it), []).append((what, ans))
    n_changes = 0
    mixed = 0
    for it in rec["items"]:
        fid = item_fid(it)
        answers = by_item.get(id(it), [])
        if it[0] == "modify text":
            hs = hunks.get(fid)
            if hs is None:  # binary file: one yes/no
                yes = auto
                for what, ans in answers:
                    if ans in ("y", "f"):
                        yes = True
                    if ans == "f":
                        auto = True
                if yes:
                    sel.add(fid, "content")
                    n_changes += 1
                continue
            shelved = []
            ai = 0
            for _h in hs:
                if auto:
                    shelved.append(True)
                    continue
                ans = answers[ai][1] if ai < len(answers) else "n"
                ai += 1
                shelved.append(ans in ("y", "f"))
                if ans == "f":
                    auto = True
                if ans == "q":
                    break
            if len(shelved) < len(hs):
                break  # quit in the middle
            if any(shelved):
                keep = M.hunk_mix(split_lines(basis[fid].content), hs, [not s for s in shelved])
                sel.add(fid, "lines", b"".join(keep))
                n_changes += sum(shelved)
                ctx.count("oracle_ui_hunks")
                ctx.hist("ui-hunks:%s" % (len(hs) if len(hs) < 5 else "5+"))
                if not all(shelved):
                    mixed += 1
        else:
            yes = auto
            for what, ans in answers:
                if ans in ("y", "f"):
                    yes = True
                if ans == "f":
                    auto = True
            if yes:
                sel.add(fid, TOKEN[it[0]])
                n_changes += 1
        if any(a == "q" for _w, a in answers):
            break
    quit_ = exc == "quit"
    said_no = any(what == "final" and ans == "n" for _i, what, ans in decisions)  # only asked without auto_apply / 'finish'
    nothing = quit_ or n_changes == 0 or said_no
    outcome = "quit" if quit_ else "no-changes" if n_changes == 0 else "final-no" if nothing else "destroy" if destroy else "shelved"
    stats = {"items": [(it[0], item_fid(it)) for it in rec["items"]], "n_selected": len(sel.tok), "mixed_files": mixed,
             "decisions": [(w, a) for _i, w, a in decisions][:40], "outcome": outcome, "calls": [(c[0], c[1]) for c in rec["calls"]]}
    if isinstance(exc, Exception):
        return sel, "ui", exc, stats
    if nothing:
        sel = M.Sel()
    return sel, "ui", outcome, stats


def related(path, spec):
    return any(path == s or path.startswith(s + "/") or s.startswith(path + "/") for s in spec)


def shelve_cmd(ctx, rng, p, pre, basis, msg, basis_paths):
    """cmd_shelve --all [-m] [-d dir | cwd] [files].  Returns (sel, selmode, outcome, stats)."""
    from breezy import builtins, shelf

    rec = {"items": [], "calls": [], "current": None}
    argv = ["--all"]
    if msg is not None:
        argv += ["-m", msg] if rng.random() < 0.5 else ["--message=" + msg]
    if CUR["target"] is not None:  # shelve the changes since an older revision
        argv += rng.choice([["-r", "1"], ["-r1"], ["-r", "revid:" + CUR["target"].decode()], ["--revision=1"]])
    elif rng.random() < 0.15:  # the default target, spelled out
        argv += ["-r", "-1"]
    spec = []
    req = required_tokens(basis, pre.work, pre.root)
    if rng.random() < 0.45 and req:
        cands = set()
        for fid in req:
            for q in (pre.paths.get(fid), basis_paths.get(fid)):
                if q:
                    cands.add(q)
                    if "/" in q and rng.random() < 0.3:
                        cands.add(q.rpartition("/")[0])
        # only paths that are versioned in the working tree or the basis can be named
        spec = sorted(rng.sample(sorted(cands), min(len(cands), rng.randint(1, 2))))
    destroy = rng.random() < 0.08
    if destroy:
        argv.append("--destroy")
    use_d = rng.random() < 0.6
    cwd = os.getcwd()
    if use_d:
        argv += ["-d", p] if rng.random() < 0.5 else ["--directory", p]
        argv += spec
    else:
        os.chdir(p)
        argv += spec
    orig = _install_recorder(rec)
    exc = None
    try:
        with contextlib.redirect_stdout(io.StringIO()):
            try:
                builtins.cmd_shelve().run_argv_aliases(list(argv))
            except Exception as e:
                exc = e
    finally:
        shelf.ShelfCreator = orig
        os.chdir(cwd)
    sel = M.Sel()
    for it in rec["items"]:
        sel.add(item_fid(it), TOKEN[it[0]])
    stats = {"argv": [a if a != p else "<tree>" for a in argv], "spec": spec, "items": [(it[0], item_fid(it)) for it in rec["items"]],
             "n_selected": len(rec["items"]), "mixed_files": 0, "calls": [(c[0], c[1]) for c in rec["calls"]]}
    seen = set()
    for it in list(rec["items"]):
        if (it[0], it[1]) in seen:
            # iter_changes(specific_files) yields one change twice for overlapping file arguments; harmless for renames,
            # fatal (DuplicateKey) for anything that creates content
            ctx.hist("cmd:file-args:same-change-offered-twice")
            if exc is not None:
                ctx.fail("cmd-shelve:file-args:same-change-offered-twice:raises", "%s of %s offered twice for file arguments %r: %s" % (
                    it[0], item_fid(it), spec, type(exc).__name__), {"argv": stats["argv"]})
                return sel, "cmd", "offered-twice", stats
            rec["items"].remove(it)
            continue
        seen.add((it[0], it[1]))
    stats["items"] = [(it[0], item_fid(it)) for it in rec["items"]]
    stats["n_selected"] = len(rec["items"])
    in_iter_changes = False
    if exc is not None:
        import traceback

        names = [fs.name for fs in traceback.extract_tb(exc.__traceback__)]
        in_iter_changes = "iter_shelvable" in names and names[-1] not in ("iter_shelvable",) and "shelve_change" not in names and "handle_modify_text" not in names
    if exc is not None and spec and (not rec["items"] or in_iter_changes):
        # iter_changes(specific_files=...) itself failed before anything was offered (e.g. a named path below an unversioned
        # file that replaced a removed directory: lstat -> ENOTDIR -> AssertionError in the dirstate walker): not shelving
        ctx.hist("cmd:file-args:iter_changes-raised:%s" % type(exc).__name__)
        return sel, "cmd", "no-changes", stats
    if exc is not None:
        return sel, "cmd", exc, stats
    ctx.count("oracle_cmd_shelve")
    # option plumbing: with file arguments only related changes are shelved, and all changes below them are
    got = {(it[0], item_fid(it)) for it in rec["items"]}
    if spec:
        ctx.hist("cmd:file-args")
        # a named path stands for the entry found there in either tree, hence also for that entry's path in the other tree
        closure = set(spec)
        grew = True
        while grew:  # transitively: iter_changes(specific_files) works on paths of both trees
            grew = False
            for fid2 in set(pre.paths) | set(basis_paths):
                qs2 = [q for q in (pre.paths.get(fid2), basis_paths.get(fid2)) if q]
                if any(q == s_ or q.startswith(s_ + "/") for q in qs2 for s_ in closure) and not closure.issuperset(qs2):
                    closure.update(qs2)
                    grew = True
        # when a directory above a named path is itself changed (missing, removed, renamed ...) iter_changes widens the set in ways
        # neither the statement nor the command help describes: not judged then
        got_paths = {q for _k, fid2 in got for q in (pre.paths.get(fid2), basis_paths.get(fid2)) if q}
        widened = any(c.startswith(q + "/") for c in closure for q in got_paths)
        if widened:
            ctx.hist("cmd:file-args:changed-ancestor-not-judged")
        for kind, fid in ([] if widened else got):
            qs = [q for q in (pre.paths.get(fid), basis_paths.get(fid)) if q]
            if not any(related(q, closure) for q in qs):
                ctx.fail("cmd-shelve:file-args:unrelated-change-shelved", "%s of %s (%r) shelved for file arguments %r" % (kind, fid, qs, spec), {"argv": stats["argv"]})
        for fid, toks in req.items():
            qs = [q for q in (pre.paths.get(fid), basis_paths.get(fid)) if q]
            if qs and all(any(q == s or q.startswith(s + "/") for s in spec) for q in qs):
                for t in toks:
                    if (t, fid) not in got:
                        ctx.fail("cmd-shelve:file-args:change-below-argument-not-shelved", "%s of %s (%r) not shelved for %r" % (t, fid, qs, spec), {"argv": stats["argv"]})
    else:
        for fid, toks in req.items():
            for t in toks:
                if (t, fid) not in got:
                    ctx.fail("cmd-shelve:all:change-not-shelved", "%s of %s not shelved by --all" % (t, fid), {"argv": stats["argv"]})
    outcome = "no-changes" if not rec["items"] else "destroy" if destroy else "shelved"
    return sel, ("cmd-all" if not spec else "cmd-files"), outcome, stats


# ------------------------------------------------------------------ judging

def complement(sel, items):
    """Selection of exactly the items that were NOT selected (tokens only; used for well-formedness of basis + selected)."""
    c = M.Sel()
    for kind, fid in items:
        t = TOKEN[kind]
        mine = sel.of(fid)
        if t in mine or (t == "content" and "lines" in mine):
            continue
        c.add(fid, t)
    return c


class Round:
    """One shelve (+ later unshelve) with everything needed to judge it."""


def judge_post_shelve(ctx, p, pre, basis, basis_paths, sel, selmode, stats):
    """Compare the tree after the shelve with the statement's model.  Returns (Round|None)."""
    exp, info = M.expected_after_shelve(basis, pre.work, sel, pre.disk, basis_paths, pre.paths)
    exp_paths, problems = M.paths_of(exp, pre.root)
    exp_disk, unknown = M.expected_disk(exp, exp_paths, pre.disk, pre.work, pre.paths, info)
    # collisions between expected versioned paths and unversioned objects on disk
    for fid, q in exp_paths.items():
        if q in unknown and exp[fid].kind is not None:
            problems.append(("collides-with-unversioned", fid))
    # unversioned objects travel with a directory that the selection moves: translate, then look for collisions there too
    moves = sorted(((pre.paths[f], exp_paths[f]) for f, w in pre.work.items()
                    if w.kind == "directory" and f in pre.paths and f in exp_paths and exp_paths[f] != pre.paths[f]), key=lambda m: -len(m[0]))
    taken = {q: f for f, q in exp_paths.items() if exp[f].kind is not None}
    for q in unknown:
        for old_dir, new_dir in moves:
            if q.startswith(old_dir + "/"):
                if new_dir + q[len(old_dir):] in taken:
                    problems.append(("collides-with-unversioned-in-moved-directory", taken[new_dir + q[len(old_dir):]]))
                break
    for q in unknown:
        par = q.rpartition("/")[0]
        while par:
            if par in exp_disk and exp_disk[par][0] != "directory":
                problems.append(("unversioned-under-non-directory", q))
            par = par.rpartition("/")[0]
    for fid, w in pre.work.items():
        # a directory that the selection removes (or turns into something else) while unversioned objects live below it:
        # known limitation (upstream bug 611739, expectedFailure in the repo's own suite); refusable, not judged
        if w.kind == "directory" and fid in pre.paths and (fid not in exp or exp[fid].kind != "directory"):
            if any(q.startswith(pre.paths[fid] + "/") for q in unknown):
                problems.append(("unversioned-under-removed-directory", fid))
    rd = Round()
    rd.pre, rd.sel, rd.info, rd.selmode, rd.stats = pre, sel, info, selmode, stats
    rd.exp, rd.problems = exp, problems
    # dependent selection: basis + selected changes alone is not a well-formed tree
    every = set(stats["items"])  # offered items + every change of the tree that was not offered (file arguments)
    for fid, toks in required_tokens(basis, pre.work, pre.root).items():
        every.update((t, fid) for t in toks)
    comp = complement(sel, sorted(every))
    cstate, _ci = M.expected_after_shelve(basis, pre.work, comp, {}, basis_paths, pre.paths)
    rd.dependent = bool(M.paths_of(cstate, pre.root)[1])
    # a selected deletion whose place (parent id, name) is taken, in the working tree, by another entry whose add / rename is selected too:
    # the shelf's preview tree then has two entries with one final name below one parent (a deleted one and a live one)
    rd.replaced = set()
    for x in sel.tok:
        if "delete" in sel.of(x) and x in basis:
            place = (basis[x].parent, basis[x].name)
            for y, w in pre.work.items():
                if y != x and (w.parent, w.name) == place and ({"add", "rename"} & set(sel.of(y))):
                    rd.replaced.update((x, y))
    return rd


def label_key(rd, fid, aspect):
    """The selected item of this file id that is responsible for the aspect (keeps mechanism keys few and stable)."""
    toks = rd.sel.of(fid)
    order = ("rename", "add", "delete") if aspect == "place" else ("add", "delete", "content", "target", "lines")
    for t in order:
        if t in toks:
            return t
    return "unselected"


def compare_post(ctx, p, rd, basis):
    """The deciding comparison after a successful shelve of a well-formed selection."""
    pre, sel, info, exp = rd.pre, rd.sel, rd.info, rd.exp
    ctx.count("oracle_post_shelve")
    keys = {}

    def fail(key, msg):
        keys.setdefault(key, []).append(msg)

    try:
        act = Snap(p)
    except Exception as e:  # the working tree cannot even be read any more
        if info["reused"]:
            fail("post-shelve:deleted-path-taken-by-renamed-entry:tree-unreadable", repr(e)[:300])
        else:
            fail("post-shelve:tree-unreadable:%s" % type(e).__name__, repr(e)[:300])
        return keys
    rd.post = act

    occupied = {pre.paths.get(f) for f in ()}
    reused_paths = set()
    for f in info["reused"]:
        reused_paths.add(rd.basis_paths[f])
    occupants = {f for f, q in pre.paths.items() if q in reused_paths or any(q.startswith(r + "/") for r in reused_paths)}  # incl. what lives below
    diffs = M.diff_states(exp, act.work, pre.root, skip=info["silent"])
    bad = set()
    taken = set(info["reused"]) | occupants

    def touched_by_reuse(fid):
        """fid, or a directory above it in the basis or in the working tree, is a deleted entry whose path was taken or the taker."""
        for state in (basis, pre.work):
            x, n = fid, 0
            while x in state and n < 50:
                if x in taken:
                    return True
                x, n = state[x].parent, n + 1
            if x in taken:
                return True
        return False

    for fid, aspect, e, a in diffs:
        bad.add(fid)
        if taken and touched_by_reuse(fid):
            fail("post-shelve:deleted-path-taken-by-renamed-entry", "fid %s %s: expected %s got %s" % (fid, aspect, M.short(e), M.short(a)))
        else:
            fail("post-shelve:%s:%s" % (aspect, label_key(rd, fid, aspect)), "fid %s (%s) [%s]: expected %s got %s" % (fid, pre.paths.get(fid) or rd.basis_paths.get(fid), sel.label(fid), M.short(e), M.short(a)))
    # disk: unversioned objects untouched, versioned content really on disk
    exp_paths = M.paths_of(exp, pre.root)[0]
    exp_disk, unknown = M.expected_disk(exp, exp_paths, pre.disk, pre.work, pre.paths, info)
    moved = set()
    for fid, w in pre.work.items():
        if w.kind == "directory" and fid in pre.paths and exp_paths.get(fid) != pre.paths[fid]:
            moved.add(pre.paths[fid])
            if fid in exp_paths:
                moved.add(exp_paths[fid])
    under_moved = {q for q in unknown if any(q.startswith(m + "/") for m in moved)}
    if under_moved:
        ctx.hist("silent:unversioned-under-moved-dir")
    act_paths = act.paths
    versioned_now = set(act_paths.values())
    bad_paths = {act_paths.get(f) for f in bad} | {exp_paths.get(f) for f in bad} | {pre.paths.get(f) for f in bad}
    silent_paths = {q for f in info["silent"] for q in (pre.paths.get(f), exp_paths.get(f), act_paths.get(f)) if q}
    for q, e, a in M.diff_disk({k: v for k, v in exp_disk.items() if k not in under_moved}, act.disk):
        if q in bad_paths or q in silent_paths or any(q.startswith(s + "/") for s in silent_paths | {b for b in bad_paths if b}):
            continue
        if any(q.startswith(m + "/") for m in moved) and q not in exp_disk and q not in versioned_now:
            continue
        if q in unknown:
            fail("post-shelve:unversioned-object-touched", "%s: was %s now %s" % (q, M.short(e), M.short(a)))
        elif e is None and q not in versioned_now:
            fail("post-shelve:stray-file-left-on-disk", "%s: %s" % (q, M.short(a)))
        else:
            fail("post-shelve:disk-differs-from-tree-view", "%s: expected %s on disk %s" % (q, M.short(e), M.short(a)))
    if not diffs:
        ctx.count("oracle_post_changes")
        want = M.derive_changes(basis, act.work, pre.root)
        got = {f: v[:2] for f, v in act.changes.items() if f != pre.root and f not in info["silent"] and (v[0] != v[1] or v[2])}
        want = {f: v for f, v in want.items() if f not in info["silent"]}
        if want != got:
            d = [(f, "iter_changes=%r" % (got.get(f),), "state=%r" % (want.get(f),)) for f in sorted(set(want) | set(got)) if want.get(f) != got.get(f)]
            fail("post-shelve:iter_changes-disagrees-with-tree", M.short(d[:3], 600))
    if act.conflicts:
        fail("post-shelve:conflicts-recorded", M.short(act.conflicts, 300))
    if rd.selmode in ("all", "cmd-all") and not diffs:
        # shelving everything must leave the basis tree
        ctx.count("oracle_shelve_all")
        for fid, aspect, e, a in M.diff_states(basis, act.work, pre.root, skip=info["silent"] | set(info["kept"])):
            if aspect == "exec":
                fail("shelve-all:exec-change-left", "fid %s (%s): basis exec %s, tree exec %s after shelving every offered change" % (fid, act_paths.get(fid), e, a))
            else:
                fail("shelve-all:%s-left" % aspect, "fid %s: basis %s tree %s" % (fid, M.short(e), M.short(a)))
    return keys


def compare_roundtrip(ctx, p, rd, conflicts_reported, exc):
    pre, sel, info = rd.pre, rd.sel, rd.info
    act = Snap(p)
    ctx.count("oracle_roundtrip")
    if CUR["target"] is not None:
        ctx.count("oracle_roundtrip_older_target")
    keys = {}

    def fail(key, msg):
        keys.setdefault(key, []).append(msg)

    reused_paths = {rd.basis_paths[f] for f in info["reused"]} | {rd.basis_paths[f] for f in rd.replaced if f in rd.basis_paths and "delete" in sel.of(f)}
    # (also when the deletion that freed the path is pending but was not itself selected: the entry that took the path is
    # shelved on its own - same mechanism, seen in subset selections; thorough seed 3 case 3682)
    reused_paths |= {q for f, q in rd.basis_paths.items() if f not in pre.paths and q in set(pre.paths.values())}
    reused_fids = set(info["reused"]) | {f for f, q in pre.paths.items() if q in reused_paths} | rd.replaced

    def feature(fid=None):
        """The known mechanism class a difference belongs to (the most specific one that applies)."""
        if rd.dependent:
            return "dependent-selection"
        if fid is not None and fid in reused_fids:
            return "deleted-path-taken-by-renamed-entry"
        if fid is None and (info["reused"] or rd.replaced):
            return "deleted-path-taken-by-renamed-entry"
        if info["kept"] and (fid is None or fid in info["kept"]):
            return "unversioned-kept-object"
        return None

    if exc is not None:
        import traceback

        f = feature()
        tb = "".join(traceback.format_exception(type(exc), exc, exc.__traceback__))[-1800:]
        # known mechanism classes get a fixed key (the exception class varies with the layout); anything else names the class
        key = ("roundtrip:%s:unshelve-raises" % f) if f else "roundtrip:unshelve-raises:%s" % type(exc).__name__
        fail(key, repr(exc)[:300] + " | " + tb)
        return keys  # nothing was (completely) applied: differences of the tree are a consequence, not a second finding
    silent = set(info["silent"])
    diffs = M.diff_states(pre.work, act.work, pre.root, skip=silent)
    bad = set()
    for fid, aspect, e, a in diffs:
        bad.add(fid)
        f = feature(fid)
        if f:
            fail("roundtrip:%s:not-restored" % f, "fid %s (%s) [%s] %s: before shelve %s after unshelve %s" % (fid, pre.paths.get(fid), sel.label(fid), aspect, M.short(e), M.short(a)))
        else:
            fail("roundtrip:%s:%s" % (aspect, label_key(rd, fid, aspect)), "fid %s (%s) [%s]: before shelve %s after unshelve %s" % (fid, pre.paths.get(fid), sel.label(fid), M.short(e), M.short(a)))
    bad_paths = {q for f in bad | silent for q in (pre.paths.get(f), act.paths.get(f)) if q}
    kept_paths = set(info["kept"].values())
    for q, e, a in M.diff_disk(pre.disk, act.disk):
        if q in bad_paths or any(q.startswith(b + "/") for b in bad_paths):
            continue
        if q in kept_paths or any(q.startswith(k + ".") for k in kept_paths):
            fail("roundtrip:unversioned-kept-object:not-restored", "%s: before %s after %s" % (q, M.short(e), M.short(a)))
        elif rd.dependent:
            fail("roundtrip:dependent-selection:not-restored", "%s: before %s after %s" % (q, M.short(e), M.short(a)))
        elif q in reused_paths or any(q.startswith(k + ".") for k in reused_paths):
            fail("roundtrip:deleted-path-taken-by-renamed-entry:not-restored", "%s: before %s after %s" % (q, M.short(e), M.short(a)))
        else:
            base_q = q.rsplit(".", 1)[0] if q.rsplit(".", 1)[-1] in ("BASE", "THIS", "OTHER") else None
            lines_paths = {pre.paths.get(f) for f in pre.paths if "lines" in sel.of(f)}
            if base_q is not None and base_q in lines_paths:
                # conflict helper files of a file of which only some hunks were shelved
                fail("roundtrip:partly-selected-hunks:conflict-helper-files", "%s: before %s after %s" % (q, M.short(e), M.short(a)))
            else:
                fail("roundtrip:disk-differs", "%s: before %s after %s" % (q, M.short(e), M.short(a)))
    if conflicts_reported or act.conflicts:
        text = repr(conflicts_reported) + repr(act.conflicts)
        named = [x for x in sorted(set(pre.work) | set(rd.basis_paths) | set(info["kept"])) if ("'%s'" % x) in text]
        labels = {feature(x) for x in named} or {feature()}
        for cand in ("unversioned-kept-object", "dependent-selection", "deleted-path-taken-by-renamed-entry", None):
            if cand in labels:
                f = cand
                break
        if f is None:
            lines_paths = {pre.paths.get(x) for x in pre.paths if "lines" in sel.of(x)}
            cpaths = [getattr(c, "path", None) for c in (list(conflicts_reported or []) + list(act.conflicts_objs if hasattr(act, "conflicts_objs") else []))]
            if named and all(pre.paths.get(x, x) in lines_paths or x in lines_paths for x in named):
                f = "partly-selected-hunks"
        f = (f + ":") if f else ""
        fail("roundtrip:%sconflicts-reported" % f, "do_merge -> %r, tree conflicts %s" % (conflicts_reported, M.short(act.conflicts, 300)))
    if not diffs and not keys:
        ctx.count("oracle_roundtrip_changes")
        a = {f: v for f, v in act.changes.items() if f not in silent}
        b = {f: v for f, v in pre.changes.items() if f not in silent}
        if a != b:
            d = [(f, b.get(f), a.get(f)) for f in sorted(set(a) | set(b)) if a.get(f) != b.get(f)]
            fail("roundtrip:iter_changes-differ", M.short(d[:3], 600))
    return keys


def emit(ctx, keys, detail):
    for k, msgs in keys.items():
        ctx.fail(k, "; ".join(msgs[:3]), detail)


def unshelve(ctx, rng, p, sid, shelves, via, rd=None):
    """Apply shelf sid; returns (conflicts_reported, exc).  Deletes the shelf."""
    from breezy import builtins

    if via == "cmd":
        argv = []
        last = max(shelves.live) if shelves.live else None
        if sid != last or rng.random() < 0.6:
            argv.append(str(sid))
        use_d = rng.random() < 0.6
        cwd = os.getcwd()
        try:
            if use_d:
                argv += ["-d", p]
            else:
                os.chdir(p)
            # non-applying actions first: nothing may change
            if rng.random() < 0.35:
                act = rng.choice(["--dry-run", "--preview"])
                before = Snap(p)
                try:
                    with contextlib.redirect_stdout(io.StringIO()):
                        builtins.cmd_unshelve().run_argv_aliases(argv + [act])
                except Exception as e:
                    ctx.hist("unshelve-action:%s:raised:%s" % (act, type(e).__name__))
                    if act == "--dry-run":
                        # computes the same merge as the real unshelve: judged as "unshelve raises" (and it may leave the tree locked)
                        return None, e
                    # --preview: e.g. diff of a file<->directory kind change raises IsADirectoryError (also in plain `diff`): not this property
                after = Snap(p)
                ctx.count("oracle_unshelve_noapply")
                ctx.hist("unshelve-action:" + act)
                if before.disk != after.disk or {f: e.tup() for f, e in before.work.items()} != {f: e.tup() for f, e in after.work.items()}:
                    ctx.fail("cmd-unshelve:%s-changes-tree" % act.strip("-"), "tree changed by a non-applying action")
                shelves.verify("after-" + act)
            keep = rng.random() < 0.3
            exc = None
            with contextlib.redirect_stdout(io.StringIO()):
                try:
                    builtins.cmd_unshelve().run_argv_aliases(argv + (["--keep"] if keep else rng.choice([[], ["--apply"]])))
                except Exception as e:
                    exc = e
            ctx.hist("unshelve-action:" + ("--keep" if keep else "apply"))
        finally:
            os.chdir(cwd)
        if exc is not None:
            return None, exc
        if keep:
            shelves.verify("after-keep")
            with contextlib.redirect_stdout(io.StringIO()):
                builtins.cmd_unshelve().run_argv_aliases([str(sid), "-d", p, "--delete-only"])
        shelves.gone(sid, "after-unshelve-cmd")
        return 0, None
    wt = _open(p)
    n, exc = None, None
    with wt.lock_tree_write():
        mgr = wt.get_shelf_manager()
        try:
            un = mgr.get_unshelver(sid)
        except Exception as e:
            return None, e
        try:
            merger = un.make_merger()
            for fid, want in (rd.stats.get("shelf_lines", {}) if rd is not None else {}).items():
                if fid in rd.replaced:
                    # reading a replaced path from the shelf's preview tree is the known PreviewTree._path2trans_id ambiguity
                    ctx.hist("shelf-content:not-judged:path-shared-with-deleted-entry")
                    continue
                ctx.count("oracle_shelf_content")
                try:
                    got = merger.other_tree.get_file_text(merger.other_tree.id2path(fid.encode()))
                except Exception as e:
                    got = repr(e)
                if got != want:
                    ctx.fail("shelf-content:lines:not-exactly-the-selected-regions", "fid %s: shelf holds %s, selected regions on the basis give %s" % (
                        fid, M.short(got, 400), M.short(want, 400)))
            n = merger.do_merge()
        except Exception as e:
            exc = e
        finally:
            un.finalize()
    if exc is None:
        shelves.delete(sid)
    return n, exc


class InjectedWriteFault(OSError):
    """ENOSPC raised by the harness while the shelf file is being written."""


class _FaultFile:
    """The file object of ShelfManager.new_shelf(): the k-th write() stores a prefix of its data, then raises."""

    def __init__(self, real, k, state):
        self._real, self._k, self._state = real, k, state

    def write(self, data):
        st = self._state
        if st["writes"] == self._k:
            st["fired"] = True
            st["writes"] += 1
            try:
                self._real.write(data[:len(data) // 2])
            except Exception:
                pass
            import errno

            raise InjectedWriteFault(errno.ENOSPC, "No space left on device (injected by the harness)")
        st["writes"] += 1
        return self._real.write(data)

    def close(self):
        return self._real.close()

    def __enter__(self):
        return self

    def __exit__(self, *a):
        self.close()
        return False

    def __getattr__(self, name):
        return getattr(self._real, name)


def fault_round(ctx, rng, p, pre):
    """Fault dimension: the shelf file runs out of space at its k-th write while ShelfManager.shelve_changes stores a selection.

    Runs on a private copy of the tree directory and is judged through fresh objects.  Oracle (conservation): after the failed
    shelve every pending change is still in the working tree (disk, versioning, iter_changes as before), or a readable shelf holds
    what is missing and unshelving it gives the pre-shelve tree back.
    """
    import shutil

    from breezy import shelf

    pf = os.path.join(ctx.tmp("fault"), "t")
    shutil.copytree(p, pf, symlinks=True)
    k = rng.choice([0, 1, 1, 2, 2, 3, rng.randint(0, 12)])
    state = {"writes": 0, "fired": False}
    orig_new_shelf = shelf.ShelfManager.new_shelf

    def new_shelf(self):
        sid, fh = orig_new_shelf(self)
        return sid, _FaultFile(fh, k, state)

    whole = rng.random() < 0.5
    exc = None
    nsel = 0
    shelf.ShelfManager.new_shelf = new_shelf
    try:
        wt = _open(pf)
        with wt.lock_tree_write():
            creator = shelf.ShelfCreator(wt, target_of(wt))
            try:
                for it in list(creator.iter_shelvable()):
                    if whole or rng.random() < 0.6:
                        creator.shelve_change(it)
                        nsel += 1
                if not nsel:
                    ctx.hist("fault:nothing-selected")
                    return
                try:
                    wt.get_shelf_manager().shelve_changes(creator, "faulted")
                except (KeyboardInterrupt, SystemExit):
                    raise
                except BaseException as e:
                    exc = e
            finally:
                try:
                    creator.finalize()
                except Exception:
                    ctx.hist("fault:finalize-raised")
        del wt
    except InjectedWriteFault as e:  # fired outside shelve_changes (cannot happen today); treated alike
        exc = e
    except Exception as e:  # the selection itself is refused while it is being built (known classes): not this dimension
        ctx.hist("fault:selection-raised:%s" % type(e).__name__)
        return
    finally:
        shelf.ShelfManager.new_shelf = orig_new_shelf
    ctx.hist("fault:write-position:%s" % (k if k < 4 else "4+"))
    if not state["fired"]:
        ctx.hist("fault:not-reached:%s" % ("shelved" if exc is None else type(exc).__name__))
        return
    ctx.count("fault_injected")
    if not isinstance(exc, InjectedWriteFault):
        # the fault fired but shelve_changes swallowed it or raised something else: still judged by conservation below
        ctx.hist("fault:surfaced-as:%s" % (type(exc).__name__ if exc is not None else "nothing"))
    # ---- judge with fresh objects
    ctx.count("oracle_fault_conservation")

    def same(a):
        return (a.disk == pre.disk and {f: e.tup() for f, e in a.work.items()} == {f: e.tup() for f, e in pre.work.items()}
                and a.changes == pre.changes)

    try:
        after = Snap(pf)
    except Exception as e:
        ctx.fail("shelve:fault-while-writing-shelf:tree-unreadable", "after ENOSPC at shelf write %d: %r" % (k, e))
        return
    mgr = _open(pf).get_shelf_manager()
    new_ids = [i for i in mgr.active_shelves() if i not in pre_shelf_ids(p)]
    if same(after):
        ctx.hist("fault:outcome:tree-keeps-every-change")
        if new_ids:
            ctx.hist("fault:truncated-shelf-file-left-behind")  # not judged: the statement is about the changes, which are safe
        return
    # the tree lost changes: they must be recoverable from a readable shelf
    recovered = False
    why = []
    for sid in reversed(new_ids):
        try:
            wt = _open(pf)
            with wt.lock_tree_write():
                un = wt.get_shelf_manager().get_unshelver(sid)
                try:
                    un.make_merger().do_merge()
                finally:
                    un.finalize()
            del wt
        except (KeyboardInterrupt, SystemExit):
            raise
        except BaseException as e:
            why.append("shelf %d unreadable: %s" % (sid, type(e).__name__))
            continue
        try:
            if same(Snap(pf)):
                recovered = True
                break
            why.append("shelf %d applied but the tree differs from the pre-shelve tree" % sid)
        except Exception as e:
            why.append("tree unreadable after unshelving %d: %s" % (sid, type(e).__name__))
    if recovered:
        ctx.hist("fault:outcome:changes-recovered-from-shelf")
        return
    lost = [q for q, _e, _a in M.diff_disk(pre.disk, after.disk)][:6]
    ctx.fail("shelve:fault-while-writing-shelf:changes-in-neither-tree-nor-readable-shelf",
             "ENOSPC at write %d of the shelf file (%d items selected): working tree no longer has the pending changes (differs at %r) and %s" % (
                 k, nsel, lost, "; ".join(why) or "no new shelf exists"), {"fault_write_index": k, "selected_items": nsel, "whole": whole})


def pre_shelf_ids(p):
    """Shelf ids of the original directory (the private copy starts with the same ones)."""
    return set(_open(p).get_shelf_manager().active_shelves())


def case_git(ctx):
    """Git working trees: shelving is refused (ShelvingUnsupported) - counted, and the refusal must leave the tree alone."""
    from breezy import builtins
    from breezy.workingtree import ShelvingUnsupported

    rng = ctx.rng
    d = ctx.tmp("git")
    p = os.path.join(d, "t")
    try:
        wt = gen.make_tree(p, "git")
        with open(os.path.join(p, "a"), "wb") as f:
            f.write(b"".join(G.long_lines(rng)))
        wt.add(["a"])
        wt.commit("base")
        with open(os.path.join(p, "a"), "ab") as f:
            f.write(b"more\n")
    except Exception as e:
        ctx.discard("git-workload:%s" % type(e).__name__)
    before = observe.snap_disk(p)
    try:
        if rng.random() < 0.5:
            _open(p).get_shelf_manager()
            outcome = "accepted"
        else:
            with contextlib.redirect_stdout(io.StringIO()):
                builtins.cmd_shelve().run_argv_aliases(["--all", "-d", p])
            outcome = "accepted"
    except ShelvingUnsupported:
        outcome = "refused:ShelvingUnsupported"
    ctx.hist("git:" + outcome)
    ctx.count("git_refusal_seen")
    if outcome.startswith("refused"):
        ctx.check(observe.snap_disk(p) == before, "git:refusal-changed-tree", "tree changed although shelving was refused")
    ctx.note(("git", outcome), nontrivial=False)


def case(ctx):
    rng = ctx.rng
    if rng.random() < 0.03:
        return case_git(ctx)
    names = gen.Names(ctx.tier)
    d = ctx.tmp("wt")
    p = os.path.join(d, "t")
    log = []
    ctx.info["ops"] = log
    fmt = "2a" if rng.random() < 0.9 else rng.choice(["pack-0.92", "1.9-rich-root"])
    # history and target tree: one commit (the target is the basis tree); two commits, shelving against the basis tree (base-2); two commits,
    # shelving against the OLDER revision (shelve -r 1): the changes are then those between base-1 and the working tree
    r = rng.random()
    history = "one-commit" if r < 0.60 else "two-commits:target-basis" if r < 0.72 else "two-commits:target-older"
    CUR["target"] = b"base-1" if history == "two-commits:target-older" else None
    try:
        wt = gen.make_tree(p, fmt)
        with wt.lock_write():  # one lock cycle for the whole construction
            G.build_base(rng, wt, names)
            if history != "one-commit":
                G.pending(rng, wt, names, rng.randint(1, 5), log, idprefix="m")
                wt.commit("second", rev_id=b"base-2")
                log.append({"commit": "base-2"})
            nops = rng.randint(2, 9) if ctx.tier == "quick" else rng.randint(2, 16)
            G.pending(rng, wt, names, nops, log)
        del wt
    except (KeyboardInterrupt, SystemExit):
        raise
    except BaseException as e:
        ctx.discard("workload-construction:%s" % type(e).__name__)
    pre = Snap(p, with_basis=True)
    basis = pre.basis
    basis_paths = M.paths_of(basis, pre.root)[0]
    if not required_tokens(basis, pre.work, pre.root):
        ctx.discard("no-pending-changes")
    ctx.hist("format:" + fmt)
    ctx.hist("history:" + history)
    shelves = Shelves(ctx, p, b"base-2" if history == "two-commits:target-basis" else b"base-1")
    shelves.verify("initial")
    # sometimes ten or more shelves are alive at once (ids of different decimal widths), rarely (thorough) a hundred
    fill_to = 0
    if rng.random() < 0.09:
        fill_to = rng.randint(100, 102) if ctx.tier != "quick" and rng.random() < 0.03 else rng.randint(10, 13)
        ctx.hist("shelves-piled-up:%s" % ("100+" if fill_to >= 100 else "10+"))
    shelves.traffic(rng, rng.choice([0, 0, 1, 2, 3]), fill_to=fill_to)

    if rng.random() < 0.3:
        fault_round(ctx, rng, p, pre)

    rounds = []
    nrounds = 2 if rng.random() < 0.25 else 1
    for ri in range(nrounds):
        if ri:
            pre = Snap(p)
            if not required_tokens(basis, pre.work, pre.root):
                break
        r = rng.random()
        mode = "api" if r < 0.62 or ri else "ui" if r < 0.84 else "cmd"
        msg = rng.choice(MESSAGES)
        ctx.hist("path:" + mode)
        before_ids = list(shelves.live)
        exc = None
        if mode == "api":
            sel, selmode, sid, exc, stats = shelve_api(ctx, rng, p, pre, basis, shelves, msg)
            outcome = "shelved" if exc is None else "raised"
        elif mode == "ui":
            sel, selmode, outcome, stats = shelve_ui(ctx, rng, p, pre, basis, msg)
            sid = None
            if isinstance(outcome, Exception):
                exc, outcome = outcome, "raised"
        else:
            sel, selmode, outcome, stats = shelve_cmd(ctx, rng, p, pre, basis, msg, basis_paths)
            sid = None
            if isinstance(outcome, Exception):
                exc, outcome = outcome, "raised"
        ctx.info["round%d" % ri] = {"mode": mode, "selmode": selmode, "message": msg, "stats": {k: v for k, v in stats.items() if k not in ("items", "shelf_lines")},
                                    "items": stats["items"], "shelf_lines": {f: t.decode("latin-1") for f, t in stats.get("shelf_lines", {}).items()}, "selected": {f: sorted(t) for f, t in sel.tok.items()},
                                    "lines": {f: t.decode("latin-1") for f, t in sel.lines.items()}}
        rd = judge_post_shelve(ctx, p, pre, basis, basis_paths, sel, selmode, stats)
        rd.basis_paths = basis_paths
        rd.mode = mode
        ctx.hist("outcome:" + outcome)
        if exc is not None:
            # the shelve raised: fine for selections whose result is not a tree, a finding otherwise
            left = [i for i in shelves.mgr().active_shelves() if i not in shelves.live]
            if left:
                ctx.hist("shelve-raised:shelf-file-left-behind")
                for i in left:  # not judged (the statement is silent); remove so that the id model stays in step
                    shelves.mgr().delete_shelf(i)
            if rd.problems:
                ctx.hist("refused-malformed:%s" % type(exc).__name__)
                after = Snap(p)
                ctx.hist("refused-malformed:tree-%s" % ("untouched" if after.disk == pre.disk else "changed"))
                ctx.note(("refused", sorted(x[0] for x in rd.problems)), nontrivial=False)
                if after.disk != pre.disk:
                    rounds = []
                break
            if info_reused(rd):
                ctx.fail("shelve:deleted-path-taken-by-renamed-entry:raises", repr(exc)[:300])
                rounds = []
                break
            if rd.dependent:
                ctx.fail("shelve:dependent-selection:raises", repr(exc)[:300])
                rounds = []
                break
            if rd.info["kept"]:
                ctx.fail("shelve:unversioned-kept-object:raises", repr(exc)[:300])
                rounds = []
                break
            raise exc
        if outcome == "offered-twice":
            ctx.note((mode, outcome), nontrivial=False)
            return
        if outcome in ("quit", "no-changes", "final-no"):
            # nothing may have happened
            ctx.count("oracle_nothing_shelved")
            shelves.new_id_after(before_ids, msg, expect_new=False)
            after = Snap(p)
            if after.disk != pre.disk or {f: e.tup() for f, e in after.work.items()} != {f: e.tup() for f, e in pre.work.items()}:
                ctx.fail("shelve:%s:tree-changed" % outcome, "tree changed although nothing was shelved (%s)" % outcome)
            ctx.note((mode, outcome), nontrivial=False)
            break
        if rd.problems:
            ctx.hist("silent:malformed-selection-accepted")
            if mode != "api" and outcome == "shelved":
                shelves.new_id_after(before_ids, msg)
            elif sid is not None:
                shelves.created(sid, msg)
            ctx.note(("malformed-accepted", sorted(x[0] for x in rd.problems)), nontrivial=False)
            rounds = []  # whatever the code made of a selection that has no well-formed result: earlier rounds cannot be judged on top of it
            break
        if outcome == "destroy":
            shelves.new_id_after(before_ids, msg, expect_new=False)
        elif mode == "api":
            shelves.created(sid, msg)
        else:
            sid = shelves.new_id_after(before_ids, msg)
        rd.sid = sid
        keys = compare_post(ctx, p, rd, basis)
        if sel.lines and any(t not in (basis[f].content, pre.work[f].content) for f, t in sel.lines.items()):
            ctx.count("oracle_lines_mix")
        detail = {"round": ri, "mode": mode, "selmode": selmode}
        emit(ctx, keys, detail)
        rd.post_keys = keys
        kinds = sorted({k for k, _f in stats["items"]})
        nsel = stats["n_selected"]
        rd.sig = (mode, selmode, kinds, sorted(sorted(t) for t in sel.tok.values()), sorted(keys))
        rd.nontrivial = bool(sel.tok) and (nsel < len(stats["items"]) or stats.get("mixed_files", 0) > 0 or len(stats["items"]) > 1)
        ctx.distinct("item-kind-sets", kinds)
        ctx.distinct("selection-shapes", (selmode, sorted(sel.label(f) for f in sel.tok)))
        if outcome == "destroy":
            ctx.note(rd.sig + ("destroy",), nontrivial=rd.nontrivial)
            break
        if keys:
            # the tree is not what the statement prescribes: the round trip is not judged on top of that
            ctx.note(rd.sig + ("post-shelve-failed",), nontrivial=rd.nontrivial)
            rounds = []
            break
        rounds.append(rd)
        # shelf-id traffic between the rounds
        shelves.traffic(rng, rng.choice([0, 0, 1, 2, 3]), protect=[r_.sid for r_ in rounds])

    # unshelve in reverse order, each onto the untouched result of its own shelve
    for rd in reversed(rounds):
        via = "cmd" if rng.random() < 0.25 else "api"
        ctx.hist("unshelve-via:" + via)
        n, exc = unshelve(ctx, rng, p, rd.sid, shelves, via, rd)
        if any(f in rd.info["silent"] for f in rd.sel.tok):
            # an entry that was versioned but missing on disk was part of the selection: the statement does not say what
            # restoring "missing" means (the shelf records it as a removal), so this round trip is counted, not judged
            ctx.hist("silent:missing-entry-selected:roundtrip-%s" % ("raised" if exc is not None else "done"))
            ctx.note(rd.sig + ("missing-selected",), nontrivial=False)
            break
        keys = compare_roundtrip(ctx, p, rd, n, exc)
        emit(ctx, keys, {"mode": rd.mode, "selmode": rd.selmode, "via": via, "dependent": rd.dependent})
        ctx.hist("roundtrip:" + ("ok" if not keys else "failed"))
        if rd.dependent:
            ctx.hist("feature:dependent-selection")
        if rd.info["kept"]:
            ctx.hist("feature:unversioned-kept-object")
        ctx.note(rd.sig + (sorted(keys),), nontrivial=rd.nontrivial,
                 sample={"ops": log[:12], "mode": rd.mode, "selection_mode": rd.selmode, "items": rd.stats["items"][:10],
                         "selected": {f: sorted(t) for f, t in rd.sel.tok.items()}, "line_mixed_files": rd.stats.get("mixed_files", 0),
                         "post_shelve_keys": sorted(rd.post_keys), "roundtrip_keys": sorted(keys)})
        if keys:
            break
    # final shelf-id traffic: everything that is still live must still be readable, then goes
    for sid in sorted(shelves.live, reverse=rng.random() < 0.5):
        if any(sid == r_.sid for r_ in rounds):
            continue
        shelves.delete(sid)


def info_reused(rd):
    return bool(rd.info["reused"])
