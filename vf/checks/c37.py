"""C37 - conditional git ref updates honour the expected old value.

Sequential half (this file): every (ref state, access path, expected-old, op)
combination is built as a real git directory by writing the files directly,
then the REAL breezy.git.transportgit.TransportRefsContainer performs one
conditional operation on it.  The outcome (return value + what is on disk
afterwards, read with an observer that does not use the code under test) is
judged by

  * a statement oracle (success <=> current value after following symrefs ==
    expected, or expected is None; failure leaves everything unchanged;
    add_if_new never overwrites; a successful removal really removes the ref,
    loose file *and* packed entry), and
  * a differential oracle: dulwich's own DiskRefsContainer performs the same
    operation on a byte-identical copy of the directory.

Stale-cache half (`execute(ctx, combo, change)`): the container under test (and
the dulwich reference on the copy) is opened and has read packed-refs and the
ref; THEN a rival -- a second container on the same directory, or raw
`git update-ref` / `git pack-refs`-style file operations -- deletes, moves,
repacks or creates the ref; then the conditional operation runs.  No
preemption is involved: the expected value must be compared with the disk, not
with what the container remembers.  Same statement + dulwich oracles, keys end
in `:stale-cache`.

Push half (`push_case(ctx)`): real `Branch.push(lossy=True)` from a bzr branch
into a local git repository (new and existing branch refs).  A monitor on the
container boundary records the snapshot `InterToLocalGitRepository.fetch_refs`
takes and every ref write it makes: a ref absent from the snapshot must be
written with add_if_new (or expected = 40 zeros), a ref in the snapshot with
set_if_equals(expected = snapshot value); expected None is an unconditional
write.  A rival creates / moves / deletes the same ref once, right after the
snapshot, after fetch_revs, or just before the first ref write, and its value
must survive the push (`push:*` keys).

Schedule half: `schedule_case(ctx)` races 2-3 updaters (own containers on a vf+
transport) under vf.instr.Scheduler and judges the outcome against a
one-register CAS model; `forced_window_case(ctx)` is the one deterministic
interleaving (B's whole CAS inside A's compare->write window).  Both report
C37:concurrent-cas:* with AND without the sequential repair, because the repair
does not close that window -- see /verif/fixes/C37-*.md.  VERIF_C37_SCHEDULE=0
runs the sequential half only.
"""
import itertools
import os
import shutil

ID = "C37"
LEVEL = "exploration"
TECHNIQUE = ("post-condition oracle on the real TransportRefsContainer over generated on-disk ref states, "
             "cross-checked against dulwich DiskRefsContainer on a copy of the same git dir")
LEVEL_TEXT = ("every combination of ref storage (absent/loose/packed/loose+packed) x access path (direct, symref via "
              "HEAD or a ref, two-level symref, dangling, loop) x expected-old class x op x container cache state is "
              "executed (several times, with random names, values, bystanders and packed-refs header variants); "
              "sequential executions only")
RULE = ("[sequential] case = (op, storage of the final ref, access path, expected-old class, container warm/fresh) with random ref names "
        "(nested, %-quoted, non-ascii), values, bystander refs and packed-refs header; the full product is enumerated "
        "every run; non-trivial = expected-old given or the ref exists or is reached through a symref; distinct = "
        "distinct (combination, observed outcome); [stale-cache] the 444 (op, storage, access, rival change, expected-old "
        "class) combinations, each executed with a warm container and a rival change before the operation; [push] real "
        "pushes with one rival action (new ref / moved ref / deleted ref x 3 points); [schedule] sampled interleavings "
        "of 2-3 updaters, distinct = distinct decision lists")
CASES = {"quick": 64, "thorough": 256}
BUDGET_S = {"quick": 45, "thorough": 600}
MIN_EVALS = {"quick": 1500, "thorough": 20000}
FLOORS = {"oracle_statement": 1500, "oracle_dulwich": 1500, "mismatch_must_fail": 300,
          "match_must_succeed": 300, "add_if_new_existing": 50, "remove_success_really_removed": 100}
FLOORS.update({"stale_cache_judged": 300, "stale_cache_remove_if_equals": 100, "stale_cache_add_if_new": 30,
               "push_ref_write_judged": 150, "push_rival_judged": 60})
if os.environ.get("VERIF_C37_SCHEDULE", "1") != "0":
    FLOORS["schedule_judged"] = 100
EXHAUSTIVE = {"quick": False, "thorough": False}
ASSUMPTIONS = [
    "two-updater half: 2-3 updaters, 1-3 operations each, schedules sampled (random / PCT / targeted at the ref files), "
    "preemption only at transport operations; judged against a one-register CAS model with unique new values",
    "the on-disk state is written and read back by the harness with plain file I/O and dulwich's packed-refs parser, "
    "not through the code under test",
    "expected-old == 40 zeros on an absent ref, and remove_if_equals on a symbolic ref with expected == the *resolved* "
    "value, are not decided by the statement; there only 'reported failure => nothing changed' and agreement with "
    "dulwich are required",
    "stale-cache half: the rival acts between two operations of the container under test, never inside one",
    "push half: one pusher (bzr -> local git, lossy), one rival action at one of three points between the pusher's "
    "snapshot and its ref writes; overwrite=False",
]
REPS = {"quick": 3, "thorough": 60}
SCHED_REPS = {"quick": 3, "thorough": 16}
# The two-updater half.  It reports C37:concurrent-cas:* on the unchanged tree AND with the sequential repair applied
# (the compare -> write window is not closed, see /verif/fixes/C37-*.md); VERIF_C37_SCHEDULE=0 runs the sequential half only.
SCHEDULE_HALF = os.environ.get("VERIF_C37_SCHEDULE", "1") != "0"

ZERO = b"0" * 40
SYMREF = b"ref: "

STORAGES = ("absent", "loose", "packed", "loose+packed", "loose=packed")
ACCESS = ("direct", "head", "symref", "symref2", "loop")
OLDS = ("none", "equal", "different", "zero", "packed-shadowed", "symref-text")
OPS = ("set_if_equals", "remove_if_equals", "add_if_new")
WARM = ("fresh", "warm")

NAME_POOL = [
    b"refs/heads/master", b"refs/heads/main", b"refs/heads/feature/x", b"refs/heads/feature/deep/er",
    b"refs/tags/v1.0", b"refs/tags/rel/2", b"refs/remotes/origin/main", b"refs/heads/a%b",
    b"refs/heads/x#y", b"refs/heads/+plus", b"refs/heads/a@b", b"refs/heads/\xc3\xbc", b"refs/heads/%41",
    b"refs/notes/commits", b"refs/heads/q=1&r", b"refs/heads/semi;colon",
]


def combos():
    out = []
    for op, storage, access, warm in itertools.product(OPS, STORAGES, ACCESS, WARM):
        if access == "loop" and storage != "absent":
            continue
        olds = OLDS if op != "add_if_new" else ("n/a",)
        for old in olds:
            if old == "packed-shadowed" and storage != "loose+packed":
                continue
            if old == "symref-text" and access == "direct":
                continue
            if old == "equal" and (storage == "absent" or access == "loop"):
                continue
            out.append((op, storage, access, old, warm))
    return out


COMBOS = combos()


def stale_combos():
    """(combo, rival change): the container is warm, then the ref changes on disk, then the operation runs."""
    out = []
    for op in OPS:
        for storage in ("packed", "loose", "loose+packed", "absent"):
            changes = ("create-packed", "create-loose") if storage == "absent" else \
                ("delete", "move-loose", "move-repack", "repack-same")
            for access in ("direct", "symref", "head"):
                for change in changes:
                    olds = ("stale", "equal", "none", "zero", "different") if op != "add_if_new" else ("n/a",)
                    for old in olds:
                        if old == "equal" and change == "delete":
                            continue
                        out.append(((op, storage, access, old, "warm"), change))
    return out


STALE_COMBOS = stale_combos()
STALE_REPS = {"quick": 1, "thorough": 12}
PUSH_REPS = {"quick": 2, "thorough": 10}


# ----------------------------------------------------------------- helpers

def _sha(rng):
    return ("%040x" % rng.getrandbits(160)).encode("ascii")


def _conflict(a, b):
    return a == b or a.startswith(b + b"/") or b.startswith(a + b"/")


def _pick_names(rng, n):
    names = []
    pool = list(NAME_POOL)
    rng.shuffle(pool)
    for cand in pool:
        if all(not _conflict(cand, x) for x in names):
            names.append(cand)
            if len(names) == n:
                return names
    raise AssertionError("name pool too small")


def build_state(rng, storage, access):
    """Return (state, name, target): state = {"refs": {name: {"loose":..,"packed":..,"peeled":..}}, "header": bool,
    "layout": ...}; name = the ref the operation is applied to; target = the final ref of the chain (or None)."""
    nby = rng.randrange(0, 4)
    names = _pick_names(rng, 3 + nby)
    T, S, S2 = names[0], names[1], names[2]
    refs = {}
    a, b = _sha(rng), _sha(rng)
    if storage == "loose":
        refs[T] = {"loose": a}
    elif storage == "packed":
        refs[T] = {"packed": a}
    elif storage == "loose+packed":
        refs[T] = {"loose": a, "packed": b}
    elif storage == "loose=packed":
        refs[T] = {"loose": a, "packed": a}
    layout = "bare"
    if access == "direct":
        name = T
    elif access == "head":
        name = b"HEAD"
        refs[b"HEAD"] = {"loose": SYMREF + T}
        if rng.random() < 0.4:
            layout = "linked"
    elif access == "symref":
        name = S
        refs[S] = {"loose": SYMREF + T}
        if rng.random() < 0.3:  # a stale packed entry shadowed by the loose symref
            refs[S]["packed"] = _sha(rng)
    elif access == "symref2":
        name = S2
        refs[S2] = {"loose": SYMREF + S}
        refs[S] = {"loose": SYMREF + T}
    elif access == "loop":
        name = S
        if rng.random() < 0.3:
            refs[S] = {"loose": SYMREF + S}
        else:
            refs[S] = {"loose": SYMREF + S2}
            refs[S2] = {"loose": SYMREF + S}
        T = None
    if b"HEAD" not in refs:
        # a git dir always has HEAD; point it somewhere harmless
        refs[b"HEAD"] = {"loose": SYMREF + names[-1]} if rng.random() < 0.5 else {"loose": _sha(rng)}
    header = rng.random() < 0.6
    for bn in names[3:]:
        kind = rng.choice(("loose", "packed", "both", "peeled"))
        if kind == "loose":
            refs[bn] = {"loose": _sha(rng)}
        elif kind == "packed":
            refs[bn] = {"packed": _sha(rng)}
        elif kind == "both":
            refs[bn] = {"loose": _sha(rng), "packed": _sha(rng)}
        else:
            refs[bn] = {"packed": _sha(rng)}
            if header:
                refs[bn]["peeled"] = _sha(rng)
    return {"refs": refs, "header": header, "layout": layout}, name, T


def _refpath(root, wt, name):
    base = wt if name == b"HEAD" else root
    return os.path.join(base.encode(), name)


def write_state(root, state):
    """Materialise state under root (a fresh directory).  Returns (gitdir, worktree_dir)."""
    from dulwich.repo import Repo

    gitdir = os.path.join(root, "g")
    Repo.init_bare(gitdir, mkdir=True)
    wt = gitdir
    if state["layout"] == "linked":
        wt = os.path.join(gitdir, "worktrees", "w1")
        os.makedirs(wt)
        with open(os.path.join(wt, "commondir"), "wb") as f:
            f.write(b"../..\n")
        with open(os.path.join(wt, "gitdir"), "wb") as f:
            f.write(b"/nonexistent/w1/.git\n")
        # the main HEAD stays what init_bare wrote
    packed = []
    for name, st in sorted(state["refs"].items()):
        if st.get("loose") is not None:
            p = _refpath(gitdir, wt, name)
            os.makedirs(os.path.dirname(p), exist_ok=True)
            with open(p, "wb") as f:
                f.write(st["loose"] + b"\n")
        if st.get("packed") is not None:
            packed.append((name, st["packed"], st.get("peeled")))
    if packed:
        with open(os.path.join(gitdir, "packed-refs"), "wb") as f:
            if state["header"]:
                f.write(b"# pack-refs with: peeled fully-peeled sorted \n")
            for name, sha, peeled in packed:
                f.write(sha + b" " + name + b"\n")
                if peeled is not None:
                    f.write(b"^" + peeled + b"\n")
    return gitdir, wt


def snapshot(gitdir, wt):
    """{name: (loose bytes|None, packed sha|None, peeled|None)} read with plain file I/O; plus stray lock files."""
    from dulwich.refs import read_packed_refs, read_packed_refs_with_peeled

    snap = {}
    locks = []

    def loose(name, path):
        try:
            with open(path, "rb") as f:
                return f.read().rstrip(b"\r\n")
        except (FileNotFoundError, IsADirectoryError):
            return None

    gd = gitdir.encode()
    v = loose(b"HEAD", os.path.join(wt.encode(), b"HEAD"))
    if v is not None:
        snap[b"HEAD"] = [v, None, None]
    if os.path.exists(os.path.join(wt.encode(), b"HEAD.lock")):
        locks.append(b"HEAD.lock")
    for dirpath, _dirs, files in os.walk(os.path.join(gd, b"refs")):
        for fn in files:
            full = os.path.join(dirpath, fn)
            name = os.path.relpath(full, gd)
            if fn.endswith(b".lock"):
                locks.append(name)
                continue
            snap[name] = [loose(name, full), None, None]
    pp = os.path.join(gitdir, "packed-refs")
    if os.path.exists(pp):
        with open(pp, "rb") as f:
            first = f.readline()
            if first.startswith(b"# pack-refs") and b" peeled" in first:
                for sha, name, peeled in read_packed_refs_with_peeled(f):
                    e = snap.setdefault(name, [None, None, None])
                    e[1], e[2] = sha, peeled
            else:
                f.seek(0)
                for sha, name in read_packed_refs(f):
                    snap.setdefault(name, [None, None, None])[1] = sha
    if os.path.exists(os.path.join(gitdir, "packed-refs.lock")):
        locks.append(b"packed-refs.lock")
    return {k: tuple(v) for k, v in snap.items()}, sorted(locks)


def direct_value(snap, name):
    e = snap.get(name)
    if e is None:
        return None
    return e[0] if e[0] else e[1]


def resolve(snap, name):
    """(chain, value) following symrefs with the loose-over-packed rule; value None if dangling; 'LOOP' on a loop."""
    chain = [name]
    cur = name
    for _ in range(8):
        v = direct_value(snap, cur)
        if v is None:
            return chain, None
        if v.startswith(SYMREF):
            cur = v[len(SYMREF):]
            chain.append(cur)
            continue
        return chain, v
    return chain, "LOOP"


def values_view(snap):
    return {k: resolve(snap, k)[1] for k in snap}


def jb(x):
    if isinstance(x, bytes):
        return x.decode("utf-8", "replace")
    if isinstance(x, dict):
        return {jb(k): jb(v) for k, v in x.items()}
    if isinstance(x, (list, tuple)):
        return [jb(v) for v in x]
    return x


def open_breezy(gitdir, wt):
    from breezy.git.transportgit import TransportRefsContainer
    from breezy.transport import get_transport

    t = get_transport(gitdir)
    if wt != gitdir:
        return TransportRefsContainer(t, get_transport(wt))
    return TransportRefsContainer(t)


def open_dulwich(gitdir, wt):
    from dulwich.refs import DiskRefsContainer

    if wt != gitdir:
        return DiskRefsContainer(gitdir.encode(), worktree_path=wt.encode())
    return DiskRefsContainer(gitdir.encode())


def run_op(container, op, name, old, new):
    """Returns ("ret", bool) or ("exc", ExcClassName)."""
    try:
        if op == "set_if_equals":
            r = container.set_if_equals(name, old, new)
        elif op == "remove_if_equals":
            r = container.remove_if_equals(name, old)
        else:
            r = container.add_if_new(name, new)
    except Exception as e:  # classified by the caller
        return ("exc", type(e).__name__, e)
    return ("ret", bool(r), r)


def storage_key(storage):
    return "loose+packed" if storage == "loose=packed" else storage


# ----------------------------------------------------------------- one execution

class _Judge:
    """ctx.check / ctx.fail with a suffix on the mechanism key (":stale-cache" for the two-container half)."""

    def __init__(self, ctx, sfx):
        self.ctx, self.sfx = ctx, sfx

    def fail(self, key, msg, detail=None):
        self.ctx.fail(key + self.sfx, msg, detail)

    def check(self, cond, key, msg, detail=None):
        if not cond:
            self.fail(key, msg, detail)
        return cond


CHANGES = ("delete", "move-loose", "move-repack", "repack-same", "create-packed", "create-loose")


def write_packed(gitdir, entries, header=True):
    """`git pack-refs`-style rewrite of packed-refs by a rival: entries = {name: (sha, peeled|None)}."""
    tmp = os.path.join(gitdir, "packed-refs.new")
    with open(tmp, "wb") as f:
        if header:
            f.write(b"# pack-refs with: peeled fully-peeled sorted \n")
        for name in sorted(entries):
            sha, peeled = entries[name]
            f.write(sha + b" " + name + b"\n")
            if peeled is not None and header:
                f.write(b"^" + peeled + b"\n")
    os.replace(tmp, os.path.join(gitdir, "packed-refs"))


def rival_change(gitdir, wt, change, target, v2, rival):
    """Another process changes `target` behind the back of an already warm container.
    rival = a second container on the same directory (breezy on the real dir, dulwich on the copy) or None = raw
    file operations as `git update-ref` / `git pack-refs` would do them."""
    snap, _ = snapshot(gitdir, wt)
    packed = {k: (v[1], v[2]) for k, v in snap.items() if v[1]}
    loose_path = os.path.join(gitdir.encode(), target)
    cur = resolve(snap, target)[1]

    def rm_loose():
        try:
            os.remove(loose_path)
        except FileNotFoundError:
            pass

    def put_loose(v):
        os.makedirs(os.path.dirname(loose_path), exist_ok=True)
        with open(loose_path, "wb") as f:
            f.write(v + b"\n")

    if change == "delete":
        if rival is not None:
            rival.remove_if_equals(target, None)
        else:
            rm_loose()
            if target in packed:
                del packed[target]
                write_packed(gitdir, packed)
    elif change in ("move-loose", "create-loose"):
        if rival is not None:
            rival.set_if_equals(target, None, v2)
        else:
            put_loose(v2)
    elif change in ("move-repack", "create-packed"):
        packed[target] = (v2, None)
        write_packed(gitdir, packed)
        rm_loose()
    elif change == "repack-same":
        packed[target] = (cur, None)
        write_packed(gitdir, packed)
        rm_loose()
    else:
        raise AssertionError(change)


def storage_of(snap, name):
    e = snap.get(name)
    if e is None or not (e[0] or e[1]):
        return "absent"
    if e[0] and e[1]:
        return "loose+packed"
    return "loose" if e[0] else "packed"


def execute(ctx, combo, change=None):
    """One conditional operation on one generated state.  With `change`, the container under test (and the
    dulwich reference) is opened and warmed FIRST, then a rival changes the ref on disk, then the operation runs:
    the expected-old value must be compared with what is on disk now, not with what the container remembers."""
    op, storage, access, oldk, warm = combo
    rng = ctx.rng
    state, name, target = build_state(rng, storage, access)
    if change is not None:
        state["layout"] = "bare"
    root = ctx.tmp("c37")
    gitdir, wt = write_state(root, state)
    root2 = ctx.tmp("c37d")
    gitdir2 = os.path.join(root2, "g")
    shutil.copytree(gitdir, gitdir2, symlinks=True)
    wt2 = gitdir2 if wt == gitdir else os.path.join(gitdir2, os.path.relpath(wt, gitdir))
    sfx = ""
    stale_value = None
    c = dul = None
    if change is not None:
        sfx = ":stale-cache"
        snap0, _ = snapshot(gitdir, wt)
        stale_value = resolve(snap0, name)[1]
        c, dul = open_breezy(gitdir, wt), open_dulwich(gitdir2, wt2)
        for cont in (c, dul):  # both have read packed-refs and the ref before the rival acts
            cont.allkeys()
            try:
                cont[name]
            except KeyError:
                pass
        v2 = _sha(rng)
        via_container = change in ("delete", "move-loose", "create-loose") and rng.random() < 0.5
        rival_change(gitdir, wt, change, target, v2, open_breezy(gitdir, wt) if via_container else None)
        rival_change(gitdir2, wt2, change, target, v2, open_dulwich(gitdir2, wt2) if via_container else None)
        ctx.hist("stale:change:%s:%s" % (change, "container" if via_container else "raw"))
        s1, s2 = snapshot(gitdir, wt)[0], snapshot(gitdir2, wt2)[0]
        if values_view(s1) != values_view(s2):
            ctx.discard("stale: rival change gave different states in the two directories")
    before, locks0 = snapshot(gitdir, wt)
    chain, cur = resolve(before, name)
    dcur = direct_value(before, name)
    is_sym = dcur is not None and dcur.startswith(SYMREF)
    new = _sha(rng)
    if oldk in ("none", "n/a"):
        old = None
    elif oldk == "equal":
        old = cur
    elif oldk == "different":
        old = _sha(rng)
    elif oldk == "zero":
        old = ZERO
    elif oldk == "packed-shadowed":
        old = state["refs"][target]["packed"]
    elif oldk == "symref-text":
        old = dcur
    elif oldk == "stale":
        old = stale_value if stale_value is not None else ZERO
    detail = {"op": op, "storage": storage, "access": access, "expected_old_class": oldk, "container": warm,
              "name": jb(name), "chain": jb(chain), "current": jb(cur), "expected_old": jb(old), "new": jb(new),
              "layout": state["layout"], "state": jb(state["refs"]), "packed_header": state["header"]}
    if change is not None:
        detail.update(rival_change=change, value_when_container_was_opened=jb(stale_value),
                      on_disk_now=jb({k: v for k, v in before.items() if k in chain}))
        storage = storage_of(before, chain[-1])

    # reference run: dulwich on a byte-identical copy
    if dul is None:
        dul = open_dulwich(gitdir2, wt2)
        if warm == "warm":
            dul.allkeys()
    dres = run_op(dul, op, name, old, new)
    dafter, _ = snapshot(gitdir2, wt2)

    # real run
    if c is None:
        c = open_breezy(gitdir, wt)
        if warm == "warm":
            c.allkeys()
    res = run_op(c, op, name, old, new)
    after, locks = snapshot(gitdir, wt)
    J = _Judge(ctx, sfx)
    ctx.hist("op:" + op)
    ctx.hist("outcome:%s:%s" % (op, res[1]))
    detail["returned"] = repr(res[2])[:200]
    detail["dulwich_returned"] = repr(dres[2])[:200]
    detail["after"] = jb({k: v for k, v in after.items() if before.get(k) != v})
    detail["removed"] = jb([k for k in before if k not in after])

    sk = storage_key(storage)
    via = "" if access == "direct" else ":via-symref"
    vb, va = values_view(before), values_view(after)
    real = chain[-1]
    nfail0 = sum(ctx.acc["fail_counts"].values())
    decided = False

    def moved(exempt):
        """refs whose resolved value changed although their chain does not pass through `exempt`."""
        return sorted(k for k in set(vb) | set(va)
                      if vb.get(k) != va.get(k) and exempt not in resolve(before, k)[0])

    # ---- statement oracle
    ctx.count("oracle_statement")
    if change is not None:
        ctx.count("stale_cache_judged")
        ctx.count("stale_cache_%s" % op)
    if res[0] == "exc":
        if dres[0] == "exc" and dres[1] == res[1]:
            ctx.hist("refusal-both:%s:%s" % (op, res[1]))
            J.check(after == before, "%s:raised-but-changed" % op, "operation raised %s but the refs changed" % res[1], detail)
        else:
            J.fail("%s:unexpected-exception:%s" % (op, res[1]), "breezy raised %r, dulwich %s" % (res[2], dres[:2]), detail)
        outcome = "exc:" + res[1]
    else:
        ok = res[1]
        outcome = "true" if ok else "false"
        if not ok:
            J.check(after == before, "%s:failed-but-changed" % op,
                      "returned False but the ref files changed", detail)
        if access == "loop":
            ctx.hist("silent:loop")
        elif op == "set_if_equals":
            must_ok = old is None or (cur is not None and old == cur)
            must_fail = old is not None and old != cur and not (cur is None and old == ZERO)
            decided = must_ok or must_fail
            if must_fail:
                ctx.count("mismatch_must_fail")
                J.check(not ok, "set_if_equals:expected-mismatch:%s%s" % (sk, via),
                          "current %r != expected %r but set_if_equals returned True" % (cur, old), detail)
                if ok:
                    J.check(after == before, "set_if_equals:expected-mismatch-overwrote:%s%s" % (sk, via),
                              "current %r != expected %r and the ref was overwritten" % (cur, old), detail)
            elif must_ok:
                ctx.count("match_must_succeed")
                J.check(ok, "set_if_equals:refused-although-equal:%s%s" % (sk, via),
                          "current %r == expected %r (or None) but returned False" % (cur, old), detail)
            else:
                ctx.hist("silent:zero-on-absent")
            if ok:
                J.check(resolve(after, name)[1] == new, "set_if_equals:success-but-value-not-set:%s%s" % (sk, via),
                          "returned True but %r now resolves to %r, wanted %r" % (name, resolve(after, name)[1], new), detail)
                changed = moved(real)
                J.check(not changed, "set_if_equals:bystander-changed", "other refs changed: %r" % changed, detail)
        elif op == "remove_if_equals":
            must_ok = old is None or old == dcur
            must_fail = (old is not None and old != dcur and old != cur and not (dcur is None and old == ZERO))
            decided = must_ok or must_fail
            if must_fail:
                ctx.count("mismatch_must_fail")
                J.check(not ok, "remove_if_equals:expected-mismatch:%s" % (sk if not is_sym else "symbolic"),
                          "current %r != expected %r but remove_if_equals returned True" % (dcur, old), detail)
            elif must_ok:
                ctx.count("match_must_succeed")
                J.check(ok, "remove_if_equals:refused-although-equal:%s" % (sk if not is_sym else "symbolic"),
                          "current %r == expected %r (or None) but returned False" % (dcur, old), detail)
            else:
                ctx.hist("silent:remove:%s" % ("symref-resolved-value" if is_sym else "zero-on-absent"))
            if ok and (must_ok or not must_fail):
                ctx.count("remove_success_really_removed")
                e = after.get(name)
                if e is not None:
                    left = "+".join(x for x, v in (("loose", e[0]), ("packed", e[1])) if v)
                    J.fail("remove_if_equals:success-but-still-present:%s:%s" % (left, warm),
                             "returned True but %r still has %s value %r" % (name, left, e), detail)
                changed = moved(name)
                J.check(not changed, "remove_if_equals:bystander-changed", "other refs changed: %r" % changed, detail)
                kept = {k: v for k, v in before.items() if k != name}
                J.check(all(after.get(k) == v for k, v in kept.items()), "remove_if_equals:bystander-storage-changed",
                          "loose/packed/peeled records of other refs changed", detail)
        else:  # add_if_new
            decided = True
            if cur is not None:
                ctx.count("add_if_new_existing")
                J.check(not ok, "add_if_new:overwrote-existing:%s%s" % (sk, via),
                          "ref resolves to %r but add_if_new returned True" % (cur,), detail)
            else:
                ctx.count("add_if_new_absent")
                J.check(ok, "add_if_new:refused-although-absent%s" % via, "ref is absent but add_if_new returned False", detail)
            if ok:
                J.check(resolve(after, name)[1] == new, "add_if_new:success-but-value-not-set%s" % via,
                          "returned True but %r resolves to %r" % (name, resolve(after, name)[1]), detail)
                changed = moved(real)
                J.check(not changed, "add_if_new:bystander-changed", "other refs changed: %r" % changed, detail)
    if locks != locks0:
        ctx.hist("stale-lock-file-left:%s" % op)

    # ---- differential oracle (dulwich DiskRefsContainer on the copy)
    # Where the statement decided the case, a disagreement with a breezy run that satisfied the
    # statement is dulwich's deviation (counted, not failed).  Where the statement is silent the
    # reference implementation of the same RefsContainer contract decides.
    ctx.count("oracle_dulwich")
    stmt_failed = sum(ctx.acc["fail_counts"].values()) != nfail0
    zone = "decided" if decided else ("loop" if access == "loop" else "statement-silent")
    if res[0] == "ret" and dres[0] == "ret":
        same = res[1] == dres[1]
        diff = []
        if same:
            dv = values_view(dafter)
            diff = sorted(k for k in set(va) | set(dv) if va.get(k) != dv.get(k))
            if diff:
                detail["dulwich_values"] = jb({k: dv.get(k) for k in diff})
                detail["breezy_values"] = jb({k: va.get(k) for k in diff})
        if same and not diff:
            ctx.count("dulwich_agrees")
        elif stmt_failed:
            ctx.hist("dulwich-differs-and-statement-failed:%s" % op)
        elif decided:
            ctx.hist("dulwich-deviates-from-statement:%s:%s:%s" % (op, access, "return" if not same else "values"))
        elif not same:
            J.fail("differs-from-dulwich:%s:return-value:%s" % (op, zone),
                     "breezy returned %r, dulwich %r" % (res[1], dres[1]), detail)
        else:
            J.fail("differs-from-dulwich:%s:resulting-values:%s" % (op, zone),
                     "same return value but different resulting ref values for %r" % diff, detail)
    elif res[0] == "ret" and dres[0] == "exc":
        ctx.hist("dulwich-refused-only:%s:%s" % (op, dres[1]))
    ctx.distinct("outcome_class" if change is None else "stale_outcome_class", (combo, change, outcome))
    nontrivial = old is not None or storage != "absent" or access != "direct"
    ctx.note((combo, change, outcome), nontrivial=nontrivial,
             sample={k: detail[k] for k in ("op", "storage", "access", "expected_old_class", "container", "name",
                                            "current", "expected_old", "returned", "dulwich_returned")}
             if rng.random() < 0.01 else None)


# ----------------------------------------------------------------- two updaters (single forced interleaving)

def forced_window_case(ctx):
    """Two updaters CAS the same ref from the same expected value; B runs entirely inside A's
    compare->write window (forced at A's first put_bytes).  At most one may succeed.
    Deterministic demonstration of the window; the sampled version is schedule_case.
    """
    rng = ctx.rng
    storage = rng.choice(("loose", "packed", "loose+packed"))
    access = rng.choice(("direct", "symref", "head"))
    state, name, target = build_state(rng, storage, access)
    root = ctx.tmp("c37s")
    gitdir, wt = write_state(root, state)
    before, _ = snapshot(gitdir, wt)
    v0 = resolve(before, name)[1]
    va_, vb_ = _sha(rng), _sha(rng)
    a, b = open_breezy(gitdir, wt), open_breezy(gitdir, wt)
    results = {}
    fired = []

    class Preempt:
        """Proxy for A's transport: B's whole CAS runs just before A's first write."""

        def __init__(self, real):
            self._real = real

        def __getattr__(self, attr):
            return getattr(self._real, attr)

        def put_bytes(self, *args, **kw):
            if not fired:
                fired.append(1)
                results["b"] = b.set_if_equals(name, v0, vb_)
            return self._real.put_bytes(*args, **kw)

    same = a.worktree_transport is a.transport
    a.transport = Preempt(a.transport)
    a.worktree_transport = a.transport if same else Preempt(a.worktree_transport)
    results["a"] = a.set_if_equals(name, v0, va_)
    ctx.count("forced_window")
    after, _ = snapshot(gitdir, wt)
    final = resolve(after, name)[1]
    detail = {"name": jb(name), "initial": jb(v0), "a_new": jb(va_), "b_new": jb(vb_), "results": results,
              "final": jb(final), "window_reached": bool(fired)}
    if not fired:
        ctx.hist("schedule:window-not-reached")
    winners = [k for k in ("a", "b") if results.get(k)]
    ctx.check(len(winners) <= 1, "concurrent-cas:two-winners:set-set",
              "two updaters expecting %r both reported success; final value %r" % (v0, final), detail)
    if len(winners) == 1:
        ctx.check(final == (va_ if winners[0] == "a" else vb_), "concurrent-cas:winner-value-lost",
                  "the single winner's value is not the final value", detail)
    ctx.distinct("forced_window_outcome", (tuple(winners), final == va_, final == vb_))
    ctx.note(("forced-window", storage, access, tuple(winners)))


# ----------------------------------------------------------------- two updaters under the cooperative scheduler

SCENARIOS = ("set-set", "set-set", "add-add", "remove-set")


def runner_where(e):
    import traceback

    best = "harness"
    for fs in traceback.extract_tb(e.__traceback__):
        if "/breezy/" in fs.filename:
            best = "%s.%s" % (os.path.splitext(os.path.basename(fs.filename))[0], fs.name)
    return best


def schedule_case(ctx):
    """Two (sometimes three) updaters, each with its own container on a vf+ transport, race on one ref under
    vf.instr.Scheduler (control changes only at transport operations).  Every new value is unique, so the
    successful operations must form one chain v0 -> v1 -> ...: no value may be the expected value of two
    successful operations (one-register CAS model), and the final value must be the end of that chain.
    """
    from vf import instr

    from breezy.git.transportgit import TransportRefsContainer
    from breezy.transport import get_transport

    instr.install()
    rng = ctx.rng
    scenario = rng.choice(SCENARIOS)
    storage = "absent" if scenario == "add-add" else rng.choice(("loose", "packed", "loose+packed"))
    # remove_if_equals does not follow symrefs: race it on the ref itself
    access = "direct" if scenario == "remove-set" else rng.choice(("direct", "direct", "symref", "head"))
    state, name, target = build_state(rng, storage, access)
    state["layout"] = "bare"
    root = ctx.tmp("c37s")
    gitdir, wt = write_state(root, state)
    before, _ = snapshot(gitdir, wt)
    v0 = resolve(before, name)[1]
    world = instr.World(root)
    world.keep_log = False
    strategy = rng.choice(("random", "random", "pct", "targeted", "targeted"))
    tail = target.rsplit(b"/", 1)[-1].decode("utf-8", "replace")
    hot = (lambda e: e.path.endswith("packed-refs") or tail in e.path or e.path.endswith("HEAD")) if strategy == "targeted" else None
    sched = instr.Scheduler(world, rng, strategy="random" if strategy == "targeted" else strategy,
                            p=rng.choice((0.15, 0.3, 0.5)), hot=hot, max_steps=4000, d=3)
    names = ["A", "B", "C"][:2 if rng.random() < 0.7 else 3]
    ops = []  # (actor, kind, expected, new, result) appended when an operation returns

    def actor(me):
        def run():
            c = TransportRefsContainer(get_transport(world.url(gitdir)))
            rounds = 1 if scenario != "set-set" else rng.choice((1, 2, 3))
            for i in range(rounds):
                new = ("%s%039x" % ({"A": "a", "B": "b", "C": "c"}[me], len(ops) * 16 + i)).encode("ascii")
                if scenario == "add-add":
                    r = c.add_if_new(name, new)
                    ops.append((me, "add_if_new", None, new, bool(r)))
                elif scenario == "remove-set" and me == "A":
                    r = c.remove_if_equals(name, v0)
                    ops.append((me, "remove_if_equals", v0, None, bool(r)))
                else:
                    expected = v0 if i == 0 else c.follow(name)[1]
                    if expected is None:
                        break
                    r = c.set_if_equals(name, expected, new)
                    ops.append((me, "set_if_equals", expected, new, bool(r)))
        return run

    done = sched.run({n: actor(n) for n in names}, timeout=120)
    if not done:
        ctx.hist("schedule-budget-exhausted")
        ctx.discard("schedule did not finish (inconclusive for this schedule)")
    after, _ = snapshot(gitdir, wt)
    final = resolve(after, name)[1]
    ctx.count("schedule_judged")
    ctx.hist("schedule:%s:%s" % (scenario, strategy))
    detail = {"scenario": scenario, "storage": storage, "access": access, "name": jb(name), "initial": jb(v0),
              "ops": [[a, k, jb(e), jb(nw), r] for a, k, e, nw, r in ops], "final": jb(final),
              "strategy": strategy, "steps": sched.steps, "switches": sched.switches, "schedule": sched.schedule_hash()}
    for n, e in sorted(sched.errors.items()):
        # an updater must answer True/False; e.g. a reader that meets packed-refs while another updater rewrites it in place
        import traceback

        where = runner_where(e)
        detail["traceback"] = "".join(traceback.format_exception(type(e), e, e.__traceback__))[-1500:]
        ctx.fail("concurrent:updater-raised:%s@%s" % (type(e).__name__, where), "updater %s raised %r" % (n, e), detail)
    wins = [o for o in ops if o[4]]
    by_expected = {}
    for o in wins:
        by_expected.setdefault(o[2], []).append(o)
    dup = {e: v for e, v in by_expected.items() if len(v) > 1}
    ctx.check(not dup, "concurrent-cas:two-winners:%s" % scenario,
              "%d operations that expected the same value %r all reported success" % (
                  max((len(v) for v in dup.values()), default=0), next(iter(dup), None)), detail)
    if not dup and not sched.errors:
        # follow the chain of successful transitions from the initial value
        cur, hops = v0, 0
        while cur in by_expected and hops <= len(wins):
            cur = by_expected[cur][0][3]
            hops += 1
        ctx.check(hops == len(wins), "concurrent-cas:winner-not-in-chain:%s" % scenario,
                  "a successful operation expected a value the ref never held after the others", detail)
        if hops == len(wins):
            ctx.check(final == cur, "concurrent-cas:final-value-not-last-winner:%s" % scenario,
                      "final value %r, last successful transition leads to %r" % (final, cur), detail)
    ctx.distinct("schedule", sched.schedule_hash())
    ctx.distinct("schedule_outcome", (scenario, len(wins), bool(dup)))
    ctx.note(("schedule", scenario, storage, access, sched.schedule_hash()), nontrivial=sched.switches >= 1,
             sample=detail if rng.random() < 0.02 else None)


# ----------------------------------------------------------------- push level: fetch_refs must write refs conditionally

PUSH_REF_NAMES = ["master", "topic", "feature/x", "rel-1.0"]
RIVAL_POINTS = ("after-snapshot", "after-fetch_revs", "before-first-ref-write")


class PushMonitor:
    """Observes InterToLocalGitRepository.fetch_refs from outside: the snapshot of the target refs it takes, and
    every ref write it makes on the target's refs container; optionally lets a rival updater (its own container on
    the same directory) act once at a chosen point between snapshot and ref writes."""

    def __init__(self, gitdir):
        self.gitdir = gitdir
        self.in_fetch_refs = 0
        self.snapshot = None
        self.calls = []
        self.rival = None  # (point, callable) ; fired once
        self.rival_fired = False
        self._saved = []

    def _fire(self, point):
        if self.rival is not None and not self.rival_fired and self.rival[0] == point and self.in_fetch_refs:
            self.rival_fired = True
            self.rival[1]()

    def __enter__(self):
        from breezy.git import interrepo as IR
        from breezy.git.transportgit import TransportRefsContainer as TRC

        mon = self
        cls = IR.InterToLocalGitRepository

        def patch(owner, attr, make):
            orig = getattr(owner, attr)
            self._saved.append((owner, attr, orig))
            setattr(owner, attr, make(orig))

        def mk_fetch_refs(orig):
            def fetch_refs(self_, update_refs, lossy, overwrite=False):
                mon.in_fetch_refs += 1
                mon.overwrite = overwrite
                try:
                    return orig(self_, update_refs, lossy, overwrite=overwrite)
                finally:
                    mon.in_fetch_refs -= 1
            return fetch_refs

        def mk_snapshot(orig):
            def _get_target_either_refs(self_):
                r = orig(self_)
                if mon.in_fetch_refs:
                    mon.snapshot = dict(r)
                    mon._fire("after-snapshot")
                return r
            return _get_target_either_refs

        def mk_fetch_revs(orig):
            def fetch_revs(self_, *a, **k):
                r = orig(self_, *a, **k)
                mon._fire("after-fetch_revs")
                return r
            return fetch_revs

        def mk_write(kind):
            def make(orig):
                def w(self_, name, *a, **k):
                    mine = mon.in_fetch_refs and getattr(self_, "_vf_pusher", False)
                    if mine:
                        mon._fire("before-first-ref-write")
                    r = orig(self_, name, *a, **k)
                    if mine:
                        mon.calls.append((kind, name, a, r))
                    return r
                return w
            return make

        patch(cls, "fetch_refs", mk_fetch_refs)
        patch(cls, "_get_target_either_refs", mk_snapshot)
        patch(cls, "fetch_revs", mk_fetch_revs)
        for kind in ("set_if_equals", "add_if_new", "remove_if_equals", "set_symbolic_ref"):
            patch(TRC, kind, mk_write(kind))
        return self

    def __exit__(self, *exc):
        for owner, attr, orig in reversed(self._saved):
            setattr(owner, attr, orig)
        self._saved = []

    def reset(self, rival=None):
        self.snapshot, self.calls, self.rival, self.rival_fired = None, [], rival, False


def judge_push_writes(ctx, mon, what, detail):
    """Invariant at the container boundary: every ref fetch_refs writes is written conditionally on what its own
    snapshot said -- add_if_new (or expected == 40 zeros) for refs the snapshot did not have, set_if_equals with the
    snapshot value otherwise.  An expected value of None is an unconditional write."""
    snap = mon.snapshot or {}
    for kind, name, args, ret in mon.calls:
        ctx.count("push_ref_write_judged")
        d = dict(detail, call=[kind, jb(name), jb(list(args)), ret], snapshot=jb({k: v[0] for k, v in snap.items()}), push=what)
        if kind == "set_symbolic_ref":
            continue
        if getattr(mon, "overwrite", False):
            ctx.hist("push:overwrite-requested")
            continue
        had = snap.get(name, (None, None))[0]
        if kind == "add_if_new":
            ctx.check(had is None, "push:add_if_new-for-ref-in-snapshot",
                      "snapshot had %r = %r but the pusher used add_if_new" % (name, had), d)
        elif kind == "set_if_equals":
            old = args[0]
            if had is None:
                ctx.check(old == ZERO, "push:unconditional-write:ref-absent-from-snapshot" if old is None
                          else "push:expected-old-not-from-snapshot:ref-absent-from-snapshot",
                          "ref %r was not in the pusher's snapshot but it wrote it with set_if_equals(expected=%r)" % (name, old), d)
            else:
                ctx.check(old == had, "push:unconditional-write:ref-in-snapshot" if old is None
                          else "push:expected-old-not-from-snapshot:ref-in-snapshot",
                          "snapshot had %r = %r but the pusher wrote it with expected=%r" % (name, had, old), d)
        elif kind == "remove_if_equals":
            old = args[0]
            ctx.check(old is not None and old == had, "push:unconditional-delete",
                      "pusher deleted %r with expected=%r (snapshot %r)" % (name, old, had), d)


def push_case(ctx):
    from breezy.branchbuilder import BranchBuilder
    from breezy.controldir import format_registry
    from breezy.git.transportgit import TransportRefsContainer
    from breezy.transport import get_transport

    rng = ctx.rng
    root = ctx.tmp("c37push")
    nrev = rng.randint(3, 4)
    b = BranchBuilder(get_transport("memory:///").clone("src"), format="2a")
    b.start_series()
    try:
        b.build_snapshot([], [("add", ("", b"root-id", "directory", None)), ("add", ("a", b"a-id", "file", b"0\n"))], revision_id=b"r1")
        for i in range(2, nrev + 1):
            b.build_snapshot([b"r%d" % (i - 1)], [("modify", ("a", b"%d\n" % i))], revision_id=b"r%d" % i)
    finally:
        b.finish_series()
    src = b.get_branch()
    bare = rng.random() < 0.5
    dst = os.path.join(root, "git")
    os.mkdir(dst)
    cd = format_registry.make_controldir("git-bare" if bare else "git").initialize(dst)
    gitdir = dst if bare else os.path.join(dst, ".git")
    names = list(PUSH_REF_NAMES)
    rng.shuffle(names)
    R, S, N = names[0], names[1], names[2]

    def ref(n):
        return b"refs/heads/" + n.encode()

    def on_disk(n):
        snap, _ = snapshot(gitdir, gitdir)
        return resolve(snap, ref(n))[1]

    def push(mon, branch_name, revid, rival=None, new=True):
        mon.reset(rival)
        tb = cd.create_branch(name=branch_name) if new else cd.open_branch(name=branch_name)
        tb.repository._git.refs._vf_pusher = True
        try:
            tb.repository._git.refs._vf_pusher = True
            res = src.push(tb, lossy=True, stop_revision=revid)
            return ("ok", res)
        except Exception as e:
            return ("raised", e)

    base = {"bare": bare, "refs": [R, S, N]}
    with PushMonitor(gitdir) as mon:
        # quiet pushes: new ref R at r1, new ref S at r2 (gives two commit ids to play with)
        r = push(mon, R, b"r1")
        judge_push_writes(ctx, mon, "quiet:new-ref", base)
        g1 = on_disk(R)
        r2 = push(mon, S, b"r2")
        judge_push_writes(ctx, mon, "quiet:new-ref", base)
        g2 = on_disk(S)
        if r[0] != "ok" or r2[0] != "ok" or not g1 or not g2 or g1 == g2:
            ctx.discard("push setup failed: %r %r" % (r, r2))
        ctx.count("push_quiet")
        scenario = rng.choice(("new-ref", "new-ref", "existing-ref", "existing-ref-deleted"))
        point = rng.choice(RIVAL_POINTS)
        rivalc = TransportRefsContainer(get_transport(gitdir))
        last = b"r%d" % nrev
        acted = {}
        if scenario == "new-ref":
            name, rv = N, rng.choice((g1, g2))

            def act():
                acted["ret"] = rivalc.add_if_new(ref(N), rv)
            out = push(mon, N, last, rival=(point, act))
        elif scenario == "existing-ref":
            name, rv = R, g2

            def act():
                acted["ret"] = rivalc.set_if_equals(ref(R), g1, g2)
            out = push(mon, R, last, rival=(point, act), new=False)
        else:
            name, rv = R, None

            def act():
                acted["ret"] = rivalc.remove_if_equals(ref(R), g1)
            out = push(mon, R, last, rival=(point, act), new=False)
        now = on_disk(name)
        d = dict(base, scenario=scenario, rival_point=point, rival_fired=mon.rival_fired, rival_returned=acted.get("ret"),
                 ref=name, rival_value=jb(rv), value_after_push=jb(now), push_outcome=out[0] if out[0] == "ok" else repr(out[1])[:200],
                 snapshot=jb({k: v[0] for k, v in (mon.snapshot or {}).items()}),
                 writes=[[k, jb(nm), jb(list(a)), rt] for k, nm, a, rt in mon.calls])
        judge_push_writes(ctx, mon, "rival:" + scenario, d)
        ctx.hist("push:%s:%s:%s" % (scenario, point, out[0]))
        if not mon.rival_fired or not acted.get("ret"):
            ctx.hist("push:rival-did-not-act")
        else:
            ctx.count("push_rival_judged")
            # the pusher expected what its snapshot said; the ref holds the rival's value now => its conditional
            # update must be refused and the rival's value must survive
            ctx.check(now == rv, "push:rival-ref-overwritten:%s" % scenario,
                      "rival set %s to %r after the pusher's snapshot (%s); after the push it holds %r" % (name, rv, point, now), d)
        ctx.distinct("push_outcome", (scenario, point, out[0], now == rv))
        ctx.note(("push", scenario, point, bare, out[0]), nontrivial=mon.rival_fired,
                 sample=d if rng.random() < 0.05 else None)


def case(ctx):
    n = CASES[ctx.tier]
    reps = REPS[ctx.tier]
    mine = [c for i, c in enumerate(COMBOS) if i % n == ctx.index]
    for _ in range(reps):
        for combo in mine:
            execute(ctx, combo)
            ctx.cleanup()
    for _ in range(STALE_REPS[ctx.tier]):
        for combo, change in [c for i, c in enumerate(STALE_COMBOS) if i % n == ctx.index]:
            execute(ctx, combo, change)
            ctx.cleanup()
    for _ in range(PUSH_REPS[ctx.tier]):
        push_case(ctx)
        ctx.cleanup()
    if SCHEDULE_HALF:
        for _ in range(SCHED_REPS[ctx.tier]):
            schedule_case(ctx)
            ctx.cleanup()
        forced_window_case(ctx)
        ctx.cleanup()
