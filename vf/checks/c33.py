"""C33 - search recipes sent to the server describe exactly the intended revisions.

Every (graph, client cache) pair yields a recipe (start keys, stop keys, count)
through the REAL client code; the recipe is serialised with the real
RemoteRepository._serialise_search_recipe and replayed by the REAL server side
SmartServerRepositoryRequest.recreate_search_from_recipe against a real
repository that holds exactly that graph, with discard_excess False (the
server's own count check must pass) and True (the silent mode).  The replayed
key set minus `null:` must equal the set the client intended.

Recipe sources
  full      vf_search.search_result_from_parent_map(cache, missing)
  limited   vf_search.limited_search_result_from_parent_map(cache, missing, tips, depth)
            (intended set = what the client-side _run_search walked)
  e2e       a real RemoteRepository whose smart client is looped back in-process
            to the real request handlers: every Repository.get_parent_map RPC
            issued by real Graph operations is intercepted on the server side
            and paired with the client cache captured when the recipe was made
  search    SearchResult recipes of real searches: breadth-first searchers with
            random stops (get_state), NotInOtherForRevs.execute() between two
            real repositories (judged additionally against plain set algebra)
"""
import contextlib

ID = "C33"
LEVEL = "exploration"
TECHNIQUE = ("replay of real client recipes through the real server-side recreate_search_from_recipe on a real "
             "repository holding the generated graph; set/count oracle; in-process loopback of RemoteRepository "
             "get_parent_map RPCs pairs each server replay with the live client cache")
LEVEL_TEXT = ("generated DAGs (quick <= 14 nodes, thorough <= 30; merges, several roots, ghosts in leftmost and other "
              "parent positions) x client caches (BFS-shaped as the real client builds them, arbitrary subsets, and caches "
              "of a real looped-back RemoteRepository) x recipe form (full, depth-limited 0..4/100, SearchResult of real "
              "searches); both discard_excess modes of the real server replay")
RULE = ("one evaluation = one recipe replayed in both server modes and judged; distinct = distinct (graph shape, cache, "
        "missing set, tips, depth, recipe); non-trivial = recipe with count > 0 whose cache is not the whole graph or "
        "which involves ghosts / pruned null: / a depth limit")
CASES = {"quick": 96, "thorough": 2400}
BUDGET_S = {"quick": 45, "thorough": 700}
MIN_EVALS = {"quick": 800, "thorough": 20000}
FLOORS = {"replay_strict": 800, "replay_discard": 800, "full_recipe": 200, "limited_recipe": 200,
          "e2e_rpc_paired": 60, "limited_recipe_ghost_filled": 30, "null_pruned_adjustment": 40, "ghost_in_missing": 40, "search_result_recipe": 40}
EXHAUSTIVE = {"quick": False, "thorough": False}
ASSUMPTIONS = [
    "client and server see the same graph; the one exception explored is 'limited-ghost-filled': depth-limited recipes "
    "(the default client path) are also replayed on a server where the client's negative-cached ghosts have been filled in "
    "- they keep ghosts as stop keys, so the walk must not change. Whole-cache recipes drop ghosts from the stop list by "
    "design and are not replayed there",
    "client caches hold the true parents of the keys they contain; missing keys are true ghosts or null:",
    "tip keys of depth-limited recipes are keys the client has not cached (CachingParentsProvider never asks for cached "
    "keys); cached tips are generated too but only counted",
    "revision ids contain no whitespace",
    "the e2e half loops the smart client back in-process (real request handlers, no wire encoding; C29/C32 cover the wire)",
]
NULL = b"null:"


# ----------------------------------------------------------------- graphs

def gen_dag(rng, tier):
    nmax = 14 if tier == "quick" else 30
    n = rng.randint(2, nmax)
    ghosts = [b"ghost-%d" % i for i in range(rng.choice((0, 0, 1, 1, 2, 3)))]
    style = rng.choice(("mixed", "mixed", "chainy", "bushy"))
    nodes = []
    for i in range(n):
        rid = rng.choice((b"r%d", b"rev-%d", b"joe@example.com-2009-%d")) % i
        earlier = [x[0] for x in nodes]
        if not earlier or rng.random() < 0.07:
            parents = []
        else:
            k = {"mixed": (1, 1, 1, 2, 2, 3), "chainy": (1, 1, 1, 1, 2), "bushy": (1, 2, 2, 3, 3)}[style]
            k = min(rng.choice(k), len(earlier))
            parents = []
            while len(parents) < k:
                if rng.random() < 0.6:
                    c = earlier[max(0, len(earlier) - 1 - int(rng.expovariate(0.8)))]
                else:
                    c = rng.choice(earlier)
                if c not in parents:
                    parents.append(c)
        if ghosts and rng.random() < 0.18:
            g = rng.choice(ghosts)
            parents.insert(rng.randint(0, len(parents)), g)
        nodes.append((rid, parents))
    return {"nodes": nodes, "ghosts": ghosts}


def true_parent_map(dag):
    return {rid: (tuple(ps) if ps else (NULL,)) for rid, ps in dag["nodes"]}


class Env:
    pass


def build_repo(dag):
    """Real repository (memory transport) with exactly the graph of dag."""
    from breezy.branchbuilder import BranchBuilder
    from breezy.transport import get_transport

    root = get_transport("memory:///")
    t = root.clone("srv")
    b = BranchBuilder(t, format="2a")
    ROOT = ("add", ("", b"root-id", "directory", None))
    ghosts = set(dag["ghosts"])
    from breezy import errors as bzr_errors
    import vcsgraph.errors

    def force_pointer(revid):
        # _move_branch_pointer cannot number a revision whose left-hand ancestry ends in a ghost;
        # the revno is irrelevant for the revision graph, so set the tip directly.
        with b._branch.lock_write():
            b._branch.set_last_revision_info(1, revid)
        new_tree = b._branch.create_memorytree()
        new_tree.lock_write()
        b._tree.unlock()
        b._tree = new_tree

    b.start_series()
    try:
        for rid, parents in dag["nodes"]:
            if not parents:
                b.build_snapshot([], [ROOT], revision_id=rid)
            elif parents[0] in ghosts:
                b._move_branch_pointer(NULL)
                b.build_snapshot(list(parents), [ROOT], revision_id=rid, allow_leftmost_as_ghost=True)
            else:
                try:
                    b.build_snapshot(list(parents), [], revision_id=rid)
                except (bzr_errors.GhostRevisionsHaveNoRevno, vcsgraph.errors.GhostRevisionsHaveNoRevno):
                    force_pointer(parents[0])
                    b.build_snapshot(list(parents), [], revision_id=rid)
    finally:
        b.finish_series()
    env = Env()
    env.branch = b.get_branch()
    env.repo = env.branch.repository
    # BranchBuilder opens its own memory store from the URL; use the transport the branch really lives on
    env.transport = env.branch.controldir.root_transport
    env.root_transport = env.transport.clone("..")
    return env


def ancestors(tpm, heads):
    seen = set()
    todo = [h for h in heads if h in tpm]
    while todo:
        k = todo.pop()
        if k in seen:
            continue
        seen.add(k)
        todo.extend(p for p in tpm[k] if p in tpm)
    return seen


# ----------------------------------------------------------------- client caches

def cache_bfs(rng, tpm, ghosts):
    """Parent map a client accumulates by a breadth-first walk, step by step, the way
    CachingParentsProvider + _get_parent_map_rpc fill it (null: requested together with other keys
    is dropped from the answer and noted missing; requested alone it is cached with no parents)."""
    ids = list(tpm)
    frontier = set(rng.sample(ids, min(len(ids), rng.randint(1, 3))))
    if rng.random() < 0.15 and ghosts:
        frontier.add(rng.choice(ghosts))
    pm, missing = {}, set()
    for _ in range(rng.randint(1, 7)):
        if not frontier:
            break
        if NULL in frontier:
            if frontier == {NULL}:
                pm[NULL] = ()
            else:
                missing.add(NULL)
            frontier.discard(NULL)
        nxt = set()
        extra = rng.random() < 0.25  # the server pre-fetches one more level
        for k in frontier:
            if k in tpm:
                pm[k] = tpm[k]
                nxt.update(tpm[k])
            else:
                missing.add(k)
        if extra:
            more = set()
            for k in nxt:
                if k in tpm and k not in pm:
                    pm[k] = tpm[k]
                    more.update(tpm[k])
            nxt = (nxt | more)
        frontier = {k for k in nxt if k not in pm and k not in missing}
    return pm, missing


def cache_subset(rng, tpm, ghosts):
    p = rng.choice((0.2, 0.5, 0.8, 1.0))
    pm = {k: v for k, v in tpm.items() if rng.random() < p}
    if not pm:
        k = rng.choice(list(tpm))
        pm[k] = tpm[k]
    referenced = set()
    for v in pm.values():
        referenced.update(v)
    missing = {g for g in referenced if g in ghosts and rng.random() < 0.7}
    if NULL in referenced and rng.random() < 0.5:
        missing.add(NULL)
    if rng.random() < 0.1:
        missing.add(b"never-referenced-ghost")
    return pm, missing


def shape_class(pm, missing):
    referenced = set()
    for v in pm.values():
        referenced.update(v)
    return ("null-key" if NULL in pm else "", "null-missing" if NULL in missing else "",
            "null-ref" if NULL in referenced else "", "ghosts" if missing - {NULL} else "",
            "frontier" if (referenced - set(pm) - missing) else "closed")


# ----------------------------------------------------------------- judge

def jb(x):
    if isinstance(x, bytes):
        return x.decode("utf-8", "replace")
    if isinstance(x, dict):
        return {jb(k): jb(v) for k, v in sorted(x.items())}
    if isinstance(x, (list, tuple, set, frozenset)):
        return sorted(jb(v) for v in x) if isinstance(x, (set, frozenset)) else [jb(v) for v in x]
    return x


_ORIG = {}


def _orig_replay():
    from breezy.bzr.smart.repository import SmartServerRepositoryRequest

    return _ORIG.get("replay") or SmartServerRepositoryRequest.recreate_search_from_recipe


def replay(repo, body, discard):
    from breezy.bzr.smart.repository import SmartServerRepositoryRequest

    req = SmartServerRepositoryRequest(None, "/")
    res, err = _orig_replay()(req, repo, body.split(b"\n"), discard_excess=discard)
    if err is not None:
        return None, err.args
    return set(res.get_keys()), None


def judge(ctx, env, form, pm, missing, recipe, intended, info, server_seen=None):
    """Replay `recipe` on env.repo in both modes and compare with `intended` (a set of keys)."""
    from breezy.bzr.remote import RemoteRepository

    start, stop, count = recipe
    body = RemoteRepository._serialise_search_recipe(None, ("manual", start, stop, count))
    referenced = set()
    for v in pm.values():
        referenced.update(v)
    null_pruned = NULL in referenced and NULL in missing
    detail = dict(info)
    detail.update({"form": form, "cache": jb(pm), "missing": jb(set(missing)), "recipe": {"start": jb(set(start)),
                   "stop": jb(set(stop)), "count": count}, "intended": jb(set(intended)), "null_pruned": null_pruned})
    have = set(pm)
    loose, _ = replay(env.repo, body, True)
    ctx.count("replay_discard")
    strict, err = replay(env.repo, body, False)
    ctx.count("replay_strict")
    if null_pruned:
        ctx.count("null_pruned_adjustment")
    if missing - {NULL}:
        ctx.count("ghost_in_missing")
    detail["replayed"] = jb(loose)
    if err is not None:
        which = "fewer" if len(loose) < count else "more"
        ctx.fail("%s:server-count-check-fails:%s" % (form, which),
                 "server walked %d keys, client said %d -> %r" % (len(loose), count, err), detail)
    elif strict != loose:
        ctx.fail("%s:replay-depends-on-discard-mode" % form, "strict and discard replays differ", detail)
    got = loose - {NULL}
    want = set(intended) - {NULL}
    ctx.check(len(loose) == count, "%s:count-differs-from-replay" % form,
              "recipe count %d but the replay has %d keys (silently accepted with discard_excess)" % (count, len(loose)),
              detail)
    ctx.check(not (want - got), "%s:replay-misses-intended" % form,
              "intended keys not walked by the server: %r" % sorted(want - got), detail)
    ctx.check(not (got - want), "%s:replay-beyond-intended" % form,
              "server walked keys the client did not intend: %r" % sorted(got - want), detail)
    ctx.check(not (got - have), "%s:replay-includes-unseen" % form,
              "server considers seen what the client never had: %r" % sorted(got - have), detail)
    if server_seen is not None:
        ctx.check(server_seen == loose, "%s:live-server-replay-differs" % form,
                  "keys the live request handler computed differ from the direct replay", detail)
    nontrivial = count > 0 and (null_pruned or bool(missing - {NULL}) or form.startswith("limited")
                                or len(pm) < info.get("graph_size", 0))
    ctx.hist("form:" + form)
    ctx.distinct("cache_shape:" + ("e2e" if info.get("source") == "e2e" else "synthetic"), shape_class(pm, missing))
    ctx.note((form, jb(pm), jb(set(missing)), jb(info.get("tips")), info.get("depth"), jb(set(start)), jb(set(stop)), count),
             nontrivial=nontrivial,
             sample={"form": form, "cache_keys": jb(set(pm)), "missing": jb(set(missing)), "tips": jb(info.get("tips")),
                     "depth": info.get("depth"), "recipe": detail["recipe"], "replayed": detail["replayed"]}
             if ctx.rng.random() < 0.02 else None)


# ----------------------------------------------------------------- synthetic recipes

def run_limited(pm, missing, tips, depth, fn=None):
    """Call the real limited_search_result_from_parent_map, capturing what _run_search walked."""
    from breezy.bzr import vf_search

    fn = fn or vf_search.limited_search_result_from_parent_map

    captured = []
    orig = vf_search._run_search

    def spy(parent_map, heads, exclude_keys):
        s, found = orig(parent_map, heads, exclude_keys)
        captured.append(s)
        return s, found

    vf_search._run_search = spy
    try:
        recipe = fn(pm, missing, tips, depth)
    finally:
        vf_search._run_search = orig
    walked = set()
    if captured:
        walked = set(captured[-1].get_state()[2])
    return recipe, walked


def synthetic(ctx, env, tpm, ghosts, env2=None):
    from breezy.bzr import vf_search

    rng = ctx.rng
    gs = len(tpm)
    for _ in range(6 if ctx.tier == "quick" else 8):
        kind = rng.choice(("bfs", "bfs", "subset"))
        pm, missing = (cache_bfs if kind == "bfs" else cache_subset)(rng, tpm, ghosts)
        info = {"source": kind, "graph_size": gs}
        recipe = vf_search.search_result_from_parent_map(dict(pm), set(missing))
        ctx.count("full_recipe")
        judge(ctx, env, "full", pm, missing, recipe, set(pm), info)
        if env2 is not None and (missing - {NULL}):
            # whole-cache recipes drop ghosts from their stop list by design; once such a ghost has been filled in on the
            # server the walk runs on through it.  The server's count check is what keeps that from going unnoticed: it
            # may refuse the recipe, but it must never accept it while having walked keys the client did not intend
            # (they would be treated as already seen and left out of the answer).
            from breezy.bzr.remote import RemoteRepository

            body = RemoteRepository._serialise_search_recipe(None, ("manual",) + tuple(recipe))
            strict, err = replay(env2.repo, body, False)
            ctx.count("full_recipe_ghost_filled")
            if err is None:
                extra = (set(strict) - {NULL}) - (set(pm) - {NULL})
                ctx.check(not extra, "full-ghost-filled:accepted-although-walk-exceeds-intended",
                          "server accepted a whole-cache recipe (count %r) although it walked unintended keys %r" % (recipe[2], sorted(extra)[:4]),
                          dict(info, form="full-ghost-filled", cache=jb(pm), missing=jb(set(missing))))
            else:
                ctx.hist("full-ghost-filled:refused")
        referenced = set()
        for v in pm.values():
            referenced.update(v)
        frontier = sorted(referenced - set(pm) - missing - {NULL})  # the real caller never asks for null:
        for _ in range(2):
            tips = set()
            r = rng.random()
            if frontier and r < 0.8:
                tips.update(rng.sample(frontier, rng.randint(1, len(frontier))))
            if r > 0.6 or not tips:
                others = [k for k in tpm if k not in pm] + [b"unknown-key"]
                tips.add(rng.choice(others))
            cached_tip = False
            if rng.random() < 0.08 and pm:
                tips.add(rng.choice(sorted(pm)))
                cached_tip = True
            depth = rng.choice((0, 1, 1, 2, 2, 3, 4, 100))
            recipe, walked = run_limited(dict(pm), set(missing), set(tips), depth)
            linfo = dict(info, tips=sorted(tips), depth=depth)
            if cached_tip:
                # outside the input class of the real caller; observed, not judged
                ctx.hist("limited:cached-tip-skipped")
                continue
            ctx.count("limited_recipe")
            judge(ctx, env, "limited", pm, missing, recipe, walked, linfo)
            if env2 is not None and (missing - {NULL}):
                # the ghosts the client negative-cached have since been filled in on the server (another actor pushed
                # them): a depth-limited recipe keeps them as stop keys, so the server must still walk exactly `walked`
                ctx.count("limited_recipe_ghost_filled")
                judge(ctx, env2, "limited-ghost-filled", pm, missing, recipe, walked, linfo)


# ----------------------------------------------------------------- SearchResult recipes of real searches

def judge_search_result(ctx, env, result, origin, model_keys=None, info=None):
    from breezy.bzr.remote import RemoteRepository
    from breezy.bzr.smart.repository import SmartServerRepositoryRequest

    req = SmartServerRepositoryRequest(None, "/")
    body = RemoteRepository._serialise_search_result(None, result)
    keys = set(result.get_keys())
    detail = {"origin": origin, "network": jb(body), "result_keys": jb(keys)}
    detail.update(info or {})
    ctx.count("search_result_recipe")
    out = {}
    for discard in (False, True):
        res, err = req.recreate_search(env.repo, body, discard_excess=discard)
        if err is not None:
            ctx.fail("search:%s:server-rejects" % origin, "server answered %r" % (err.args,), detail)
            continue
        out[discard] = set(res.get_keys())
    for discard, got in out.items():
        detail["replayed"] = jb(got)
        ctx.check(got - {NULL} == keys - {NULL}, "search:%s:replay-differs" % origin,
                  "replay(discard=%s) missing %r extra %r" % (discard, sorted(keys - got), sorted(got - keys - {NULL})), detail)
    if model_keys is not None:
        ctx.check(keys - {NULL} == model_keys, "search:%s:result-differs-from-model" % origin,
                  "search found %r, set algebra says %r" % (sorted(keys), sorted(model_keys)), detail)
    ctx.hist("form:search:" + origin)
    ctx.note(("search", origin, jb(body)), nontrivial=bool(keys),
             sample={"origin": origin, "network": jb(body), "keys": jb(keys)} if ctx.rng.random() < 0.02 else None)


def searcher_recipes(ctx, env, tpm, ghosts):
    from breezy.bzr import vf_search

    rng = ctx.rng
    ids = list(tpm)
    with env.repo.lock_read():
        g = env.repo.get_graph()
        for _ in range(2):
            starts = set(rng.sample(ids, min(len(ids), rng.randint(1, 3))))
            if ghosts and rng.random() < 0.2:
                starts.add(rng.choice(ghosts))
            s = g._make_breadth_first_searcher(starts)
            stops = set()
            use_ghosts = rng.random() < 0.5
            for _step in range(rng.randint(1, 8)):
                try:
                    if use_ghosts:
                        present, gh = s.next_with_ghosts()
                        revs = set(present) | set(gh)
                    else:
                        revs = set(next(s))
                except StopIteration:
                    break
                st = {r for r in revs if rng.random() < 0.25}
                if st:
                    s.stop_searching_any(st)
                    stops |= st
            started, excludes, included = s.get_state()
            result = vf_search.SearchResult(set(started), set(excludes), len(included), included)
            judge_search_result(ctx, env, result, "searcher-state",
                                info={"starts": jb(starts), "stopped": jb(stops), "with_ghosts": use_ghosts})


def interrepo_recipes(ctx, env, tpm, ghosts):
    from breezy.bzr import vf_search
    from breezy.controldir import format_registry

    rng = ctx.rng
    ids = list(tpm)
    t = env.root_transport.clone("tgt%d" % rng.randrange(10 ** 9))
    t.ensure_base()
    try:
        target = format_registry.make_controldir("2a").initialize_on_transport(t).create_repository()
        have_heads = rng.sample(ids, rng.randint(0, min(2, len(ids))))
        for h in have_heads:
            target.fetch(env.repo, revision_id=h)
    except Exception as e:
        ctx.discard("interrepo-setup:%s" % type(e).__name__)
    with target.lock_read():
        have = set(target.all_revision_ids())
    for _ in range(2):
        required = rng.sample(ids, rng.randint(1, min(2, len(ids))))
        if_present = None
        if rng.random() < 0.5:
            if_present = [rng.choice(ids + list(ghosts) + [b"unknown-key"]) for _ in range(rng.randint(1, 2))]
        find_ghosts = rng.random() < 0.5
        limit = rng.choice((None, None, None, 1, 2, 5))
        s = vf_search.NotInOtherForRevs(target, env.repo, required, if_present_ids=if_present,
                                        find_ghosts=find_ghosts, limit=limit)
        result = s.execute()
        heads = set(required) | set(if_present or ())
        model = None
        if limit is None:
            model = ancestors(tpm, heads) - have
        kind = type(result).__name__
        ctx.hist("interrepo-result:" + kind)
        if not hasattr(result, "get_network_struct") or kind == "EmptySearchResult":
            if model is not None:
                ctx.check(not model, "search:interrepo:empty-result-but-revisions-missing",
                          "empty result, model says %r" % sorted(model),
                          {"required": jb(required), "if_present": jb(if_present), "have": jb(have)})
            continue
        judge_search_result(ctx, env, result, "interrepo", model_keys=model,
                            info={"required": jb(required), "if_present": jb(if_present), "find_ghosts": find_ghosts,
                                  "limit": limit, "target_has": jb(have)})


# ----------------------------------------------------------------- end to end: looped-back RemoteRepository

class _Body:
    def __init__(self, data):
        self._data = data

    def read_body_bytes(self, count=-1):
        return self._data

    def cancel_read_body(self):
        pass


def make_loopback(env):
    from breezy.bzr.remote import RemoteBzrDir, RemoteBzrDirFormat, RemoteRepository
    from breezy.bzr.smart import medium, request
    from breezy.bzr.smart.client import _SmartClient
    from dromedary import errors as transport_errors

    class LoopMedium(medium.SmartClientMedium):
        def disconnect(self):
            pass

    class LoopbackClient(_SmartClient):
        """Dispatches calls straight to the real server request handlers."""

        def __init__(self, backing):
            _SmartClient.__init__(self, LoopMedium("loop:///"))
            self.backing = backing
            self.calls = []

        def remote_path_from_transport(self, transport):
            return b"/"

        def _dispatch(self, method, args, body):
            self.calls.append(method)
            cls = request.request_handlers.get(method)
            req = cls(self.backing, "/")
            resp = req.execute(*args)
            if resp is None:
                resp = req.do_body(body if body is not None else b"")
            if not resp.is_successful():
                raise transport_errors.ErrorFromSmartServer(resp.args)
            return resp

        def call_with_body_bytes_expecting_body(self, method, args, body):
            resp = self._dispatch(method, args, body)
            return resp.args, _Body(resp.body)

        def call(self, method, *args):
            return self._dispatch(method, args, None).args

        def call_expecting_body(self, method, *args):
            resp = self._dispatch(method, args, None)
            return resp.args, _Body(resp.body)

    client = LoopbackClient(env.transport)
    bzrdir = RemoteBzrDir(env.transport, RemoteBzrDirFormat(), _client=False)
    repo = RemoteRepository(bzrdir, None, _client=client)
    return repo, client


@contextlib.contextmanager
def e2e_instruments(ctx, env, tpm, depth, no_extra, log):
    """Arm the client-side capture and the server-side judge for one session."""
    from breezy.bzr import remote, vf_search
    from breezy.bzr.smart import repository as srv

    o_full = vf_search.search_result_from_parent_map
    o_lim = vf_search.limited_search_result_from_parent_map
    o_replay = srv.SmartServerRepositoryRequest.recreate_search_from_recipe
    o_depth = remote._DEFAULT_SEARCH_DEPTH
    o_extra = srv.SmartServerRepositoryGetParentMap.no_extra_results
    pending = []

    def full(parent_map, missing_keys):
        r = o_full(parent_map, missing_keys)
        pending.append({"form": "full", "pm": dict(parent_map or {}), "missing": set(missing_keys),
                        "recipe": (set(r[0]), set(r[1]), r[2]), "intended": set(parent_map or {}), "tips": None,
                        "depth": None})
        return r

    def limited(parent_map, missing_keys, tip_keys, depth):
        recipe, walked = run_limited(parent_map, missing_keys, tip_keys, depth, fn=o_lim)
        pending.append({"form": "limited", "pm": dict(parent_map or {}), "missing": set(missing_keys),
                        "recipe": (set(recipe[0]), set(recipe[1]), recipe[2]), "intended": walked,
                        "tips": sorted(tip_keys), "depth": depth})
        return recipe

    def replay_wrapper(self, repository, lines, discard_excess=False):
        res, err = o_replay(self, repository, lines, discard_excess=discard_excess)
        ctx.hist("e2e:server-called-with-discard_excess=%s" % discard_excess)
        cap = pending.pop() if pending else None
        del pending[:]
        if cap is None:
            ctx.hist("e2e:replay-without-client-capture")
            return res, err
        log.append(cap["form"])
        ctx.count("e2e_rpc_paired")
        info = {"source": "e2e", "graph_size": len(tpm), "tips": cap["tips"], "depth": cap["depth"],
                "default_search_depth": depth, "no_extra_results": no_extra,
                "live_error": None if err is None else jb(list(err.args))}
        if err is not None:
            ctx.fail("%s:live-server-rejected-recipe" % cap["form"],
                     "the request handler answered %r to a recipe built by the real client" % (err.args,),
                     dict(info, cache=jb(cap["pm"]), missing=jb(cap["missing"]), recipe=jb(list(cap["recipe"]))))
        seen = None if res is None else set(res.get_keys())
        judge(ctx, env, cap["form"], cap["pm"], cap["missing"], cap["recipe"], cap["intended"], info, server_seen=seen)
        return res, err

    _ORIG["replay"] = o_replay
    vf_search.search_result_from_parent_map = full
    vf_search.limited_search_result_from_parent_map = limited
    srv.SmartServerRepositoryRequest.recreate_search_from_recipe = replay_wrapper
    remote._DEFAULT_SEARCH_DEPTH = depth
    srv.SmartServerRepositoryGetParentMap.no_extra_results = no_extra
    try:
        yield
    finally:
        vf_search.search_result_from_parent_map = o_full
        vf_search.limited_search_result_from_parent_map = o_lim
        srv.SmartServerRepositoryRequest.recreate_search_from_recipe = o_replay
        remote._DEFAULT_SEARCH_DEPTH = o_depth
        srv.SmartServerRepositoryGetParentMap.no_extra_results = o_extra
        _ORIG.pop("replay", None)


def model_heads(tpm, keys):
    keys = set(keys)
    out = set()
    for k in keys:
        others = keys - {k}
        if not any(k in (ancestors(tpm, [o]) - {o}) for o in others if o in tpm):
            out.add(k)
    return out


def e2e_session(ctx, env, tpm, ghosts):
    rng = ctx.rng
    ids = list(tpm)
    depth = rng.choice((0, 0, 1, 2, 3, 100, 100))
    no_extra = rng.random() < 0.75
    log = []
    with e2e_instruments(ctx, env, tpm, depth, no_extra, log):
        repo, client = make_loopback(env)
        repo.lock_read()
        try:
            g = repo.get_graph()
            for _ in range(rng.randint(3, 7)):
                op = rng.choice(("get_parent_map", "get_parent_map", "walk", "walk", "heads", "iter_ancestry",
                                 "find_unique_ancestors", "find_difference", "is_ancestor"))
                ctx.hist("e2e-op:" + op)
                d = {"op": op, "default_search_depth": depth, "no_extra_results": no_extra}
                try:
                    if op == "get_parent_map":
                        pool = ids + list(ghosts) + [NULL, b"unknown-key"]
                        keys = set(rng.sample(pool, rng.randint(1, min(4, len(pool)))))
                        got = g.get_parent_map(keys)
                        want = {k: tpm[k] for k in keys if k in tpm}
                        got = {k: v for k, v in got.items() if k != NULL}  # null: is not C33's business
                        d.update(keys=jb(keys), got=jb(got), want=jb(want))
                        ctx.count("e2e_get_parent_map_checked")
                        ctx.check({k: tuple(v) for k, v in got.items()} == want, "e2e:get_parent_map-differs-from-graph",
                                  "client got %r, graph says %r" % (got, want), d)
                    elif op == "walk":
                        s = g._make_breadth_first_searcher(set(rng.sample(ids, min(len(ids), rng.randint(1, 2)))))
                        for _step in range(rng.randint(1, 6)):
                            try:
                                revs = next(s)
                            except StopIteration:
                                break
                            st = {r for r in revs if rng.random() < 0.2}
                            if st:
                                s.stop_searching_any(st)
                    elif op == "heads":
                        keys = set(rng.sample(ids, min(len(ids), rng.randint(2, 4))))
                        got = set(g.heads(keys))
                        want = model_heads(tpm, keys)
                        d.update(keys=jb(keys), got=jb(got), want=jb(want))
                        ctx.count("e2e_heads_checked")
                        ctx.check(got == want, "e2e:heads-differs-from-graph", "heads %r, model %r" % (got, want), d)
                    elif op == "iter_ancestry":
                        tips = rng.sample(ids, min(len(ids), rng.randint(1, 2)))
                        got = {k for k, v in g.iter_ancestry(tips) if v is not None and k != NULL}
                        want = ancestors(tpm, tips)
                        d.update(tips=jb(tips), got=jb(got), want=jb(want))
                        ctx.count("e2e_ancestry_checked")
                        ctx.check(got == want, "e2e:ancestry-differs-from-graph", "ancestry differs", d)
                    elif op == "find_unique_ancestors":
                        a = rng.choice(ids)
                        others = rng.sample(ids, min(len(ids), rng.randint(1, 2)))
                        got = set(g.find_unique_ancestors(a, others)) - set(ghosts) - {NULL}
                        want = ancestors(tpm, [a]) - ancestors(tpm, others)
                        d.update(unique=jb(a), common=jb(others), got=jb(got), want=jb(want))
                        ctx.count("e2e_unique_checked")
                        ctx.check(got == want, "e2e:unique-ancestors-differs-from-graph", "unique ancestors differ", d)
                    elif op == "find_difference":
                        a, b = rng.choice(ids), rng.choice(ids)
                        l, r = g.find_difference(a, b)
                        aa, ab = ancestors(tpm, [a]), ancestors(tpm, [b])
                        d.update(a=jb(a), b=jb(b), got=[jb(set(l)), jb(set(r))], want=[jb(aa - ab), jb(ab - aa)])
                        ctx.count("e2e_difference_checked")
                        gh = set(ghosts) | {NULL}
                        ctx.check(set(l) - gh == aa - ab and set(r) - gh == ab - aa,
                                  "e2e:find_difference-differs-from-graph", "difference differs", d)
                    else:
                        a, b = rng.choice(ids), rng.choice(ids)
                        got = g.is_ancestor(a, b)
                        ctx.count("e2e_is_ancestor_checked")
                        ctx.check(got == (a in ancestors(tpm, [b])), "e2e:is_ancestor-differs-from-graph",
                                  "is_ancestor(%r, %r) = %r" % (a, b, got), dict(d, a=jb(a), b=jb(b)))
                except Exception as e:
                    import traceback

                    ctx.fail("e2e:operation-raised:%s:%s" % (op, type(e).__name__), repr(e)[:300],
                             dict(d, traceback=traceback.format_exc()[-1500:]))
                    break
        finally:
            repo.unlock()
    ctx.hist("e2e:rpcs-per-session:%d" % min(len(log), 9))
    ctx.distinct("e2e_session", (depth, no_extra, tuple(log)))


# ----------------------------------------------------------------- case

def case(ctx):
    rng = ctx.rng
    dag = gen_dag(rng, ctx.tier)
    tpm = true_parent_map(dag)
    ghosts = list(dag["ghosts"])
    try:
        env = build_repo(dag)
        with env.repo.lock_read():
            real = env.repo.get_graph().get_parent_map(list(tpm) + ghosts)
    except Exception as e:
        ctx.discard("graph-construction:%s" % type(e).__name__)
    if {k: tuple(v) for k, v in real.items()} != tpm:
        ctx.discard("graph-construction:repository-graph-differs-from-model")
    ctx.hist("graph:nodes:%02d" % (len(tpm) // 5 * 5))
    ctx.hist("graph:ghosts:%d" % len(ghosts))
    ctx.distinct("graph_shape", jb(tpm))
    env2 = None
    if ghosts and rng.random() < 0.6:
        # same graph with every ghost filled in (each gets an ancestor of its own the client has never heard of)
        filled = []
        for g in ghosts:
            filled.append((b"anc-of-" + g, []))
            filled.append((g, [b"anc-of-" + g]))
        try:
            env2 = build_repo({"nodes": filled + list(dag["nodes"]), "ghosts": []})
        except Exception as e:
            ctx.hist("ghost-filled-repo:construction-failed:%s" % type(e).__name__)
            env2 = None
    synthetic(ctx, env, tpm, ghosts, env2)
    searcher_recipes(ctx, env, tpm, ghosts)
    e2e_session(ctx, env, tpm, ghosts)
    if ctx.index % 3 == 0:
        interrepo_recipes(ctx, env, tpm, ghosts)
