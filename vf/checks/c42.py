"""C42 - exports contain exactly the exported tree.

Generated revision trees with hostile names are exported with the real
breezy.export.export() in every format / root / subdir / option combination;
the produced directory or archive is re-read with the standard library only
(os, tarfile, zipfile) and compared entry by entry with the revision tree read
through the public Tree API.
"""
import io
import os
import tarfile
import time
import zipfile

from vf import gen, observe

ID = "C42"
LEVEL = "exploration"
TECHNIQUE = ("differential oracle: real export() output re-read with stdlib tarfile/zipfile/os.walk and compared with the "
             "revision tree (public Tree API) restricted to the sub-tree, re-rooted, minus exactly tree.is_special_path entries")
LEVEL_TEXT = ("every export executed on generated 2a revision trees (names with spaces, unicode, leading '-', > 100 chars, .bzr* special "
              "paths, empty dirs, symlinks, exec bits, prefix-sibling directories) in formats dir/tar/tgz/tbz2/txz/tlzma/zip, roots None/''/name/"
              "nested, subdir None/dir/dir+slash/file/symlink/special, per_file_timestamps, content-filtered (eol=crlf rule on *.txt) was "
              "compared completely (names, kinds, bytes, link targets, exec bits; documented per-file mtimes)")
RULE = ("case = one generated history of 1-3 commits, one revision chosen, 14 (quick) / 40 (thorough) export configurations sampled so that "
        "every format occurs; one evaluation = one export re-read and compared; non-trivial = expected sub-tree has >= 2 entries; "
        "distinct = (format, root class, subdir class, flags, expected-entries hash)")
CASES = {"quick": 96, "thorough": 2400}
BUDGET_S = {"quick": 40, "thorough": 600}
MIN_EVALS = {"quick": 600, "thorough": 20000}
FLOORS = {"cmp_dir": 80, "cmp_tar": 300, "cmp_zip": 80, "subdir_dir": 80, "subdir_file": 40, "special_excluded": 100,
          "symlink_compared": 100, "exec_compared": 100, "longname_compared": 30, "filtered_compared": 30, "mtime_checked": 200,
          "root_default": 80, "root_empty": 80, "emptydir_compared": 50}
SHARDS = {"quick": 8}  # every worker pays the same start-up (imports are compiled per process); fewer, longer shards
EXHAUSTIVE = {"quick": False, "thorough": False}
ASSUMPTIONS = [
    "expected entries are read through the public Tree API of the exported RevisionTree (iter_entries_by_dir, get_file_text, "
    "is_executable, get_symlink_target); that the revision tree equals what was committed is C01's subject",
    "special paths are whatever is_special_path of the tree object handed to export() says (ContentFilterTree answers False for "
    "everything, so filtered exports keep .bzr* paths; counted in the histogram, not judged)",
    "zip: symlinks are expected as '<name>.lnk' members holding the target (what the zip exporter writes); trees where such a name "
    "collides with another member are not judged; directories are members ending in '/'",
    "dir format: root is documented to have no effect; exec bit read as owner-x under the process umask",
    "timestamps are judged only for files under per_file_timestamps (documented: mtime of the revision that last changed the file, "
    "looked up with Tree.get_file_revision); zip times at 2 s DOS resolution in TZ=UTC",
    "filtered exports: expected bytes of *.txt files are a 3-line model of the eol=crlf output converter (C45 owns the filter itself)",
]

LONGF = "L" * 118 + ".c"
LONGD = "D" * 104
FILES = ["f1", "f2", "g.txt", "a.txt", "h.c", "README", "sp ace", "été", "-lead", "--opt=v", ".bzrignore", ".bzrfoo",
         ".hidden", "x~", LONGF, "naïve file.txt"]
DIRS = ["d1", "d1x", "sub", ".bzrdir", "d 3", "-d", LONGD, "üml"]
ROOTS = ["r", "my root", "-r", "würzel", "nested/inner", "a.b"]
STEMS = ["exp", "my export", "-x", "exp.v1", "éxp"]
EXT = {"tar": [".tar"], "tgz": [".tar.gz", ".tgz"], "tbz2": [".tar.bz2", ".tbz2"], "txz": [".tar.xz"], "tlzma": [".tar.lzma"],
       "zip": [".zip"], "dir": [""]}
ALL_EXT = sorted({e for v in EXT.values() for e in v if e}, key=len, reverse=True)
FORMATS = ["dir", "tar", "tgz", "tbz2", "txz", "zip"]
RULES = "[name *.txt]\neol = crlf\n"


class _Names:
    def __init__(self, rng, tier):
        self.files = list(FILES)
        self.dirs = list(DIRS)
        self.maxdepth = 3


WEIGHTS = {"mkfile": 8, "mkdir": 5, "symlink": 3, "add": 12, "edit": 4, "chmod": 4, "rename": 4,
           "remove": 1, "unversion": 1, "delete_disk": 0, "kindchange": 1}


def worker_init(tier):
    from breezy import bedding, rules

    os.makedirs(bedding.config_dir(), exist_ok=True)
    with open(rules.rules_path(), "w") as f:
        f.write(RULES)
    rules.reset_rules()


def _where(e):
    from vf import runner

    return runner._where(e.__traceback__)


def _plant(rng, wt):
    """Make sure the interesting features are present often (model-free: written to disk, then smart_add)."""
    b = wt.basedir

    def put(rel, data=b"planted\n", mode=None):
        p = os.path.join(b, rel)
        if os.path.lexists(p):
            return
        d = os.path.dirname(p)
        if not os.path.isdir(d) or os.path.islink(d):
            return
        with open(p, "wb") as f:
            f.write(data)
        if mode:
            os.chmod(p, mode)

    def mkdir(rel):
        p = os.path.join(b, rel)
        if not os.path.lexists(p) and os.path.isdir(os.path.dirname(p)) and not os.path.islink(os.path.dirname(p)):
            os.mkdir(p)

    def link(rel, tgt):
        p = os.path.join(b, rel)
        if not os.path.lexists(p) and os.path.isdir(os.path.dirname(p)) and not os.path.islink(os.path.dirname(p)):
            os.symlink(tgt, p)

    r = rng.random
    if r() < 0.7:
        mkdir("d1")
        put("d1/f1", b"in d1\n")
        if r() < 0.7:
            mkdir("d1x")
            put("d1x/g.txt", b"sibling\nwith\nlines\n")
        if r() < 0.5:
            put("d1.txt", b"prefix sibling file\n")
        if r() < 0.5:
            mkdir("d1/sub")
            put("d1/sub/a.txt", b"deep\r\nmixed\nx", 0o755 if r() < 0.5 else None)
        if r() < 0.5:
            put("d1/.bzrignore", b"*.o\n")
        if r() < 0.5:
            link("d1/lnk", rng.choice(["f1", "../f1", "nowhere", "sub"]))
    if r() < 0.6:
        put(".bzrignore", b"*.tmp\n")
    if r() < 0.5:
        mkdir(".bzrdir")
        put(".bzrdir/inside", b"special child\n")
    if r() < 0.4:
        put(".bzrfoo", b"special file\n")
    if r() < 0.6:
        mkdir(rng.choice(["empty", "d1/empty dir", "sub/e"]))
    if r() < 0.6:
        link(rng.choice(["lnk", "sp link", "lïnk"]), rng.choice(["f1", "d1", "nowhere", "d1/f1", "été"]))
    if r() < 0.6:
        put(rng.choice(["run.sh", "x bin", "-exec"]), b"#!/bin/sh\n", 0o755)
    if r() < 0.5:
        put(LONGF, b"long name\n", 0o755 if r() < 0.3 else None)
    if r() < 0.3:
        mkdir(LONGD)
        put(LONGD + "/" + LONGF, b"very long path\n")
    if r() < 0.3:
        put("lnk.lnk", b"looks like a zip link\n")
    wt.smart_add([b])


def _build(ctx, rng):
    root = ctx.tmp("c42")
    wt = gen.make_tree(os.path.join(root, "t"), "2a")
    h = gen.Hist(root, "2a")
    h.trees["b0"] = wt.basedir
    names = _Names(rng, ctx.tier)
    nrev = rng.randint(1, 3)
    from breezy import errors

    for i in range(nrev):
        gen.random_delta(rng, wt, names, rng.randint(3, 9), WEIGHTS, h.log)
        if i == 0 or rng.random() < 0.5:
            _plant(rng, wt)
        try:
            gen.commit(h, "b0", wt, rng)
        except errors.PointlessCommit:
            pass
    return wt, h


def _expected(tree, snap, subdir, filtered):
    """final_path -> (kind, content, exec), tree paths, number of special entries excluded.

    Written from the documented semantics, not from export._export_iter_entries:
    the sub-tree strictly below a directory subdir, or the single entry named by
    a non-directory subdir (under its own name), minus special paths.
    """
    out, tpath, nspecial = {}, {}, 0
    sub = None
    if subdir not in (None, ""):
        sub = subdir.rstrip("/")
    for p, (kind, content, ex) in snap.items():
        if sub is None:
            fp = p
        elif p == sub:
            if kind == "directory":
                continue
            fp = p.rpartition("/")[2]
        elif p.startswith(sub + "/"):
            fp = p[len(sub) + 1:]
        else:
            continue
        if tree.is_special_path(p):
            nspecial += 1
            continue
        if filtered and kind == "file" and p.rpartition("/")[2].endswith(".txt") and b"\x00" not in content:
            content = content.replace(b"\r\n", b"\x00").replace(b"\n", b"\r\n").replace(b"\x00", b"\r\n")
        out[fp] = (kind, content, ex)
        tpath[fp] = p
    return out, tpath, nspecial


def _root_name(dest):
    base = os.path.basename(dest)
    for e in ALL_EXT:
        if base.endswith(e):
            return base[:-len(e)]
    return base


def _join(root, p):
    return (root.rstrip("/") + "/" + p) if root else p


def _read_tar(path, fmt):
    mode = {"tar": "r:", "tgz": "r:gz", "tbz2": "r:bz2", "txz": "r:xz"}.get(fmt)
    if fmt == "tlzma":
        import lzma

        with open(path, "rb") as f:
            raw = lzma.LZMADecompressor(format=lzma.FORMAT_ALONE).decompress(f.read())
        tf = tarfile.open(fileobj=io.BytesIO(raw), mode="r:")
    else:
        tf = tarfile.open(path, mode)
    got, mt, dups, odd = {}, {}, [], []
    with tf:
        for m in tf.getmembers():
            name = m.name
            if m.isreg():
                v = ("file", tf.extractfile(m).read(), bool(m.mode & 0o100))
            elif m.isdir():
                v = ("directory", None, False)
            elif m.issym():
                v = ("symlink", m.linkname, False)
            else:
                odd.append((name, repr(m.type)))
                continue
            if name in got:
                dups.append(name)
            got[name] = v
            mt[name] = m.mtime
    return got, mt, dups, odd


def _read_zip(path):
    got, mt, dups, odd = {}, {}, [], []
    with zipfile.ZipFile(path) as z:
        bad = z.testzip()
        if bad is not None:
            odd.append((bad, "crc"))
        for i in z.infolist():
            name = i.filename
            if name in got:
                dups.append(name)
            if name.endswith("/"):
                if z.read(i) != b"":
                    odd.append((name, "directory member with data"))
                got[name] = ("directory", None, False)
            else:
                got[name] = ("file", z.read(i), bool((i.external_attr >> 16) & 0o100))
            mt[name] = i.date_time
    return got, mt, dups, odd


def _zip_expect(exp):
    """What the zip exporter documents: dirs as 'name/', symlinks as 'name.lnk' holding the target."""
    out, back = {}, {}
    for p, (kind, content, ex) in exp.items():
        if kind == "directory":
            k, v = p + "/", ("directory", None, False)
        elif kind == "symlink":
            k, v = p + ".lnk", ("file", content.encode("utf-8"), False)
        else:
            k, v = p, (kind, content, ex)
        if k in out:
            return None, None
        out[k] = v
        back[k] = p
    return out, back


def _short(p):
    return p if len(p) < 60 else p[:25] + "..." + p[-25:]


def _compare(ctx, fam, exp, got, detail):
    """exp/got: name -> (kind, content, exec).  Returns True if equal."""
    ok = True
    missing = sorted(set(exp) - set(got))
    extra = sorted(set(got) - set(exp))
    if missing:
        ok = False
        ctx.fail("%s:missing" % fam, "expected entries absent from the export: %r" % [_short(m) for m in missing[:6]],
                 dict(detail, missing=missing[:20], got=sorted(got)[:40]))
    if extra:
        ok = False
        ctx.fail("%s:extra" % fam, "export contains entries that are not in the exported (sub-)tree: %r" % [_short(m) for m in extra[:6]],
                 dict(detail, extra=extra[:20], expected=sorted(exp)[:40]))
    execlost = []
    for p in sorted(set(exp) & set(got)):
        e, g = exp[p], got[p]
        if e[0] != g[0]:
            ok = False
            ctx.fail("%s:kind" % fam, "%r exported as %s, tree has %s" % (_short(p), g[0], e[0]), dict(detail, path=p))
            continue
        if e[0] == "symlink":
            ctx.count("symlink_compared")
            if e[1] != g[1]:
                ok = False
                ctx.fail("%s:linktarget" % fam, "%r -> %r, tree has %r" % (_short(p), g[1], e[1]), dict(detail, path=p))
        elif e[0] == "file":
            if e[1] != g[1]:
                ok = False
                ctx.fail("%s:content" % fam, "%r has %r, tree has %r" % (_short(p), g[1][:60], e[1][:60]), dict(detail, path=p))
            if e[2]:
                ctx.count("exec_compared")
            if e[2] != g[2]:
                ok = False
                if e[2] and not g[2]:
                    execlost.append(p)
                else:
                    ctx.fail("%s:exec-bit-gained" % fam, "%r exported executable, tree says not" % _short(p), dict(detail, path=p))
        elif e[0] == "directory":
            pass
        if len(p.rpartition("/")[2]) > 100:
            ctx.count("longname_compared")
    if execlost:
        ctx.fail("%s:exec-bit-lost" % fam, "executable files exported without x bit: %r" % [_short(m) for m in execlost[:6]],
                 dict(detail, paths=execlost[:20]))
    return ok


def _classify_subdir(snap, subdir):
    if subdir in (None, ""):
        return "none"
    s = subdir.rstrip("/")
    k = snap.get(s, (None,))[0]
    return {"directory": "dir", "file": "file", "symlink": "symlink"}.get(k, "other") + ("+slash" if subdir.endswith("/") else "")


def _one_export(ctx, rng, rt, snap, repo, outdir, n, fmt, root, subdir, pft, filtered, guess):
    from breezy.export import export

    fam = "dir" if fmt == "dir" else "zip" if fmt == "zip" else "tar"
    stem = rng.choice(STEMS)
    ext = rng.choice(EXT[fmt]) if (guess or rng.random() < 0.7) else ""
    if fmt == "dir" and guess:
        stem = stem.replace(".", "_")
    dest = os.path.join(outdir, "%d" % n, stem + ext)
    os.mkdir(os.path.dirname(dest))
    tree = rt
    if filtered:
        from breezy.filter_tree import ContentFilterTree

        tree = ContentFilterTree(rt, rt._content_filter_stack)
    exp, tpath, nspecial = _expected(tree, snap, subdir, filtered)
    subclass = _classify_subdir(snap, subdir)
    rootclass = "none" if root is None else "empty" if root == "" else "nested" if "/" in root else "name"
    detail = {"format": fmt, "guess_format": guess, "dest": os.path.basename(dest), "root": root, "subdir": subdir,
              "per_file_timestamps": pft, "filtered": filtered, "tree_paths": sorted(snap)[:60]}
    has_link = any(v[0] == "symlink" for v in exp.values())
    try:
        export(tree, dest, None if guess else fmt, root, subdir, per_file_timestamps=pft)
    except NotImplementedError as e:
        w = _where(e)
        meth = w.rpartition(".")[2]
        if filtered and w.startswith("tree."):
            # the abstract breezy.tree.Tree method was reached because ContentFilterTree does not forward it
            ctx.fail("filtered:ContentFilterTree.%s-not-implemented" % meth,
                     "export of a content-filtered tree raises NotImplementedError: ContentFilterTree does not forward %s() "
                     "(has_symlink=%s per_file_timestamps=%s format=%s)" % (meth, has_link, pft, fmt), detail)
        else:
            ctx.fail("%s:raised:NotImplementedError@%s" % (fam, w), repr(e)[:300], detail)
        ctx.note(("raised", fmt, rootclass, subclass, pft, filtered), nontrivial=False)
        return
    except Exception as e:
        ctx.fail("%s:raised:%s@%s" % (fam, type(e).__name__, _where(e)), repr(e)[:300], detail)
        ctx.note(("raised", fmt, rootclass, subclass, pft, filtered), nontrivial=False)
        return
    ctx.hist("format:%s" % fmt)
    ctx.hist("root:%s" % rootclass)
    ctx.hist("subdir:%s" % subclass)
    eff_root = _root_name(dest) if root is None else root
    if root is None:
        ctx.count("root_default")
    elif root == "":
        ctx.count("root_empty")
    if fam == "dir":
        got = {p: v for p, v in observe.snap_disk(dest, skip=()).items()}
        other = [p for p, v in got.items() if v[0] == "other"]
        if other:
            ctx.fail("dir:odd-file-type", "%r" % other[:5], detail)
        ctx.count("cmp_dir")
        want = exp
        back = {p: p for p in exp}
        ok = _compare(ctx, "dir", want, got, detail)
        mt = None
        if pft:
            mt = {}
            for p, v in got.items():
                if v[0] == "file":
                    mt[p] = os.lstat(os.path.join(dest, p)).st_mtime
    elif fam == "tar":
        try:
            got, mt, dups, odd = _read_tar(dest, fmt)
        except Exception as e:
            ctx.fail("tar:unreadable:%s" % type(e).__name__, "stdlib cannot read the %s export back: %r" % (fmt, e), detail)
            return
        ctx.count("cmp_tar")
        ctx.count("cmp_%s" % fmt)
        if dups:
            ctx.fail("tar:duplicate-member", "%r" % dups[:5], detail)
        if odd:
            ctx.fail("tar:odd-member-type", "%r" % odd[:5], detail)
        want = {_join(eff_root, p): v for p, v in exp.items()}
        back = {_join(eff_root, p): p for p in exp}
        ok = _compare(ctx, "tar", want, got, detail)
    else:
        zexp, zback = _zip_expect(exp)
        if zexp is None:
            ctx.hist("zip:lnk-name-collision-not-judged")
            return
        try:
            got, mt, dups, odd = _read_zip(dest)
        except Exception as e:
            ctx.fail("zip:unreadable:%s" % type(e).__name__, "stdlib cannot read the zip export back: %r" % (e,), detail)
            return
        ctx.count("cmp_zip")
        if dups:
            ctx.fail("zip:duplicate-member", "%r" % dups[:5], detail)
        if odd:
            ctx.fail("zip:odd-member", "%r" % odd[:5], detail)
        want = {_join(eff_root, p): v for p, v in zexp.items()}
        back = {_join(eff_root, p): zback[p] for p in zexp}
        ok = _compare(ctx, "zip", want, got, detail)
    # observability
    if nspecial:
        ctx.count("special_excluded", nspecial)
    if filtered:
        ctx.count("filtered_compared")
        if any(rt.is_special_path(tp) for tp in tpath.values()):
            ctx.hist("filtered:special-paths-kept (ContentFilterTree.is_special_path is False)")
    if subclass.startswith("dir"):
        ctx.count("subdir_dir")
    elif subclass.startswith(("file", "symlink")):
        ctx.count("subdir_file")
    if any(v[0] == "directory" and not any(q.startswith(p + "/") for q in exp) for p, v in exp.items()):
        ctx.count("emptydir_compared")
    if any(ord(c) > 127 for p in exp for c in p):
        ctx.count("unicode_compared")
    # documented per-file timestamps (files only)
    if pft and mt is not None and ok:
        for name, p in back.items():
            if exp[p][0] != "file" or name not in mt:
                continue
            tp = tpath[p]
            want_ts = repo.get_revision(rt.get_file_revision(tp)).timestamp
            ctx.count("mtime_checked")
            if fam == "zip":
                lt = time.gmtime(want_ts)[:6]
                w = lt[:5] + (lt[5] // 2 * 2,)
                good = tuple(mt[name]) == w
            else:
                good = mt[name] == want_ts
            if not good:
                ctx.fail("%s:per-file-timestamp" % fam, "%r has mtime %r, last-changed revision has %r" % (_short(name), mt[name], want_ts),
                         dict(detail, path=tp))
                break
    import hashlib

    hh = hashlib.sha1(repr(sorted((k, v[0], v[2]) for k, v in exp.items())).encode()).hexdigest()[:12]
    ctx.note((fmt, rootclass, subclass, pft, filtered, guess, hh), nontrivial=len(exp) >= 2,
             sample={"format": fmt, "root": root, "effective_root": eff_root if fam != "dir" else None, "subdir": subdir,
                     "per_file_timestamps": pft, "filtered": filtered, "entries_expected": len(exp), "entries_in_tree": len(snap),
                     "special_excluded": nspecial, "first_members": sorted(got)[:6], "equal": ok} if rng.random() < 0.02 else None)


def _pick_subdir(rng, snap):
    dirs = [p for p, v in snap.items() if v[0] == "directory"]
    files = [p for p, v in snap.items() if v[0] == "file"]
    links = [p for p, v in snap.items() if v[0] == "symlink"]
    r = rng.random()
    if r < 0.30 or not snap:
        return rng.choice([None, None, ""])
    if r < 0.65 and dirs:
        # prefer directories that have a prefix sibling or children
        pref = [d for d in dirs if any(q != d and q.startswith(d) and not q.startswith(d + "/") for q in snap)]
        d = rng.choice(pref) if pref and rng.random() < 0.5 else rng.choice(dirs)
        return d + ("/" if rng.random() < 0.25 else "")
    if r < 0.9 and files:
        return rng.choice(files)
    if links:
        return rng.choice(links)
    return rng.choice(sorted(snap))


def case(ctx):
    rng = ctx.rng
    try:
        wt, h = _build(ctx, rng)
    except Exception as e:
        ctx.discard("build:%s" % type(e).__name__)
        return
    if not h.order:
        ctx.discard("no-commit")
    revid = rng.choice(h.order) if rng.random() < 0.4 else h.order[-1]
    repo = wt.branch.repository
    rt = repo.revision_tree(revid)
    snap = observe.strip_ids(observe.snap_tree(rt))
    if not snap:
        ctx.discard("empty-tree")
    ctx.info = {"log": h.log[-60:], "revision": revid.decode()}
    outdir = ctx.tmp("c42out")
    nconf = 14 if ctx.tier == "quick" else 40
    fmts = list(FORMATS)
    if ctx.tier == "thorough" or rng.random() < 0.3:
        fmts.append("tlzma")
    rng.shuffle(fmts)
    with rt.lock_read():
        for n in range(nconf):
            fmt = fmts[n % len(fmts)] if n < len(fmts) else rng.choice(fmts)
            root = rng.choice([None, None, "", "", rng.choice(ROOTS), rng.choice(ROOTS)])
            subdir = _pick_subdir(rng, snap)
            pft = rng.random() < 0.3
            filtered = rng.random() < 0.2
            if filtered and rng.random() < 0.6:
                pft = False
            guess = rng.random() < 0.25 and fmt != "tlzma"
            _one_export(ctx, rng, rt, snap, repo, outdir, n, fmt, root, subdir, pft, filtered, guess)
