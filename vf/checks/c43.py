"""C43 - incremental uploads keep the remote directory equal to the uploaded tree.

Generated linear histories (adds, deletes, renames, swaps, kind changes,
.bzrignore-upload patterns) are uploaded revision by revision with the real
upload plugin (cmd_upload -> BzrUploader.upload_tree / upload_full_tree) to a
local directory transport; after every upload the remote directory is read
back from disk and compared with the uploaded revision's tree.
"""
import hashlib
import io
import os

from vf import gen, observe
from vf.checks._c43_delta import Delta

ID = "C43"
LEVEL = "exploration"
TECHNIQUE = ("state oracle after every real upload: snap_disk(remote) == revision tree (public Tree API) minus upload-ignored paths, "
             "marker content == revision id; every difference / exception classified by the tree-delta class of the path it concerns")
LEVEL_TEXT = ("every upload executed on generated linear histories (adds, edits, chmod, deletes, renames, swaps, directory renames, "
              "file/dir/symlink kind changes, remove+re-add, .bzrignore-upload edits) - first upload full, then incremental to the next "
              "revision, after skipping k revisions, backwards with --overwrite (refused without), and --full over an existing remote - "
              "was followed by a complete comparison of the remote directory with the uploaded revision")
RULE = ("case = one linear history of 5-8 (quick) / 8-14 (thorough) commits with 1-5 tree ops each, and an upload plan visiting revisions; "
        "one evaluation = one upload judged; non-trivial = the delta uploaded contains a rename, removal or kind change (or is a full upload "
        "of >= 3 entries); distinct = (mode, sorted delta classes, expected-tree hash)")
CASES = {"quick": 128, "thorough": 2400}
BUDGET_S = {"quick": 40, "thorough": 600}
MIN_EVALS = {"quick": 500, "thorough": 12000}
FLOORS = {"cmp_remote": 500, "cmp_marker": 500, "incremental": 300, "full_fresh": 80, "skip_k": 40, "backwards_overwrite": 30,
          "diverged_refused": 20, "delta_renamed": 100, "delta_removed": 100, "delta_kind_changed": 30, "delta_swap": 15, "delta_dir_onto_removed_dir": 10,
          "ignored_paths": 40, "symlink_compared": 60, "exec_compared": 60}
SHARDS = {"quick": 8}  # every worker pays the same start-up (imports are compiled per process); fewer, longer shards
EXHAUSTIVE = {"quick": False, "thorough": False}
ASSUMPTIONS = [
    "remote = dromedary LocalTransport on tmpfs; its symlink(source, link) can only express targets inside the link's own directory, so "
    "generated symlink targets are relative, normalised and free of '..' (other targets are outside the input class for this transport)",
    "upload-ignored = path or one of its parent directories matches a .bzrignore-upload pattern of the uploaded revision; patterns come "
    "from a pool with unambiguous glob meaning (basename, *.ext, full path) matched by a 10-line model, not by breezy.globbing (C48 owns that)",
    "ignored paths (now, or at any earlier upload to the same remote directory: their remote state is unspecified from then on), remote "
    "ancestors of ignored leftovers, and root .bzrignore / .bzrignore-upload (skipped by full upload by documented intent) are don't-care; "
    "a --full upload over an existing remote is not required to delete stale paths that were there before (they become don't-care too); "
    "an exception whose uploader operation touches such a path is counted, not judged",
    "failure keys: a failure is explained by what the delta does to the failing path itself and to its ancestor directories (closed "
    "list of mechanisms, see fixes/C43-*.md; _explain/_mechanism), never by what else the delta contains; otherwise it keeps the detailed "
    "key <delta class>:<symptom> / raised:<exception>@<uploader operation>:<delta class>; plain file<->file swaps never get a mechanism key",
    "expected entries are read through the public Tree API of the RevisionTree; exec bit = owner-x of the remote file",
    "after a failed or refused step the plan continues on a fresh remote (full upload), so one finding does not hide later steps",
]

FILES = ["f1", "f2", "f3", "g.txt", "h.c", "README", "x.c"]
DIRS = ["d1", "d2", "sub"]
FILES_T = FILES + ["sp ace", "été", ".hidden"]
DIRS_T = DIRS + ["d 3"]
MARKER = ".bzr-upload.revid"
IGNORE_FILE = ".bzrignore-upload"
PATTERN_POOL = ["*.c", "README", "d2", "sub/f1", "f3", "*.txt", "d1/sub", "g.txt", "d1/f2"]

WEIGHTS = {"mkfile": 7, "mkdir": 4, "symlink": 0, "add": 12, "edit": 8, "chmod": 3, "rename": 8,
           "remove": 4, "unversion": 0, "delete_disk": 0, "kindchange": 0}


class _Names:
    def __init__(self, tier):
        self.files = list(FILES if tier == "quick" else FILES_T)
        self.dirs = list(DIRS if tier == "quick" else DIRS_T)
        self.maxdepth = 3


# ---------------------------------------------------------------- ignore model

def _parse_patterns(data):
    out = []
    for line in data.decode("utf-8", "replace").splitlines():
        line = line.strip()
        if line and not line.startswith("#"):
            out.append(line)
    return out


def _match1(pat, path):
    base = path.rpartition("/")[2]
    if "/" in pat:
        return path == pat
    if pat.startswith("*."):
        return base.endswith(pat[1:]) and len(base) >= len(pat) - 1
    return base == pat


def _ignored(patterns, path):
    p = path
    while p:
        if any(_match1(pat, p) for pat in patterns):
            return True
        p = p.rpartition("/")[0]
    return False


# ---------------------------------------------------------------- history generation

def _versioned(wt):
    return observe.snap_tree(wt)


def _safe_link_target(rng, rel):
    if "/" in rel:
        return rng.choice(["f1", "nowhere", "x/y", "f2", "sub2"])
    return rng.choice(["f1", "d1", "nowhere", "d1/f1", "sub/x", "g.txt"])


def _dir_replace(rng, wt, log):
    """rm -r D where one child of D is renamed out of it first (so the remote rmdir of D has to be deferred), then mv E D for another
    directory E (empty or populated): the freed path is taken again by a directory inside one upload."""
    b = wt.basedir
    st = _versioned(wt)
    with wt.lock_read():
        basis = observe.snap_tree(wt.basis_tree())

    def committed(p):
        return p in basis and basis[p][0] == st[p][0] and basis[p][3] == st[p][3]

    dirs = [p for p in sorted(st) if st[p][0] == "directory" and committed(p)]
    cands = []
    for d in dirs:
        kids = [q for q in st if q.rpartition("/")[0] == d and st[q][0] in ("file", "symlink") and committed(q)]
        if kids:
            for e in dirs:
                if e != d and not e.startswith(d + "/") and not d.startswith(e + "/"):
                    cands.append((d, kids, e))
    if not cands:
        return False
    d, kids, e = rng.choice(cands)
    kid = rng.choice(sorted(kids))
    out = next((n for n in ("moved-out", "moved-out2", "moved-out3") if n not in st and not os.path.lexists(os.path.join(b, n))), None)
    if out is None:
        return False
    try:
        wt.rename_one(kid, out)
        wt.remove([d], keep_files=False, force=True)
        if os.path.lexists(os.path.join(b, d)):
            gen._rm(os.path.join(b, d))
        wt.rename_one(e, d)
    except Exception as ex:
        log.append({"refused": "dir_replace", "err": type(ex).__name__})
        try:
            wt.revert()
        except Exception:
            pass
        return False
    log.append({"op": "dir_replace", "removed": d, "child_moved_out": kid, "renamed_onto_it": e,
                "e_populated": any(q.startswith(e + "/") for q in st)})
    return True


def _plant_dirs(rng, wt):
    """Two committed directories for _dir_replace: one with two files, one empty or with one file."""
    b = wt.basedir
    for d, files in (("d1", ["f1", "f2"]), ("d2", [] if rng.random() < 0.5 else ["f3"])):
        ap = os.path.join(b, d)
        if not os.path.lexists(ap):
            os.mkdir(ap)
        if os.path.isdir(ap) and not os.path.islink(ap):
            for f in files:
                if not os.path.lexists(os.path.join(ap, f)):
                    with open(os.path.join(ap, f), "wb") as fh:
                        fh.write(gen.gen_content(rng, hostile=False))


def _special_op(rng, wt, names, log):
    """One op the shared generator does not produce (or produces with unsuitable symlink targets). Returns True if applied."""
    b = wt.basedir
    st = _versioned(wt)
    paths = sorted(st)
    kind = rng.choice(["swap", "swap", "symlink", "symlink", "retarget", "kc_inplace", "kc_inplace", "kc_readd", "ignore", "ignore",
                       "rename_edit", "dir_rename", "dir_replace"])
    if kind == "dir_replace":
        return _dir_replace(rng, wt, log)

    def free_path(root_mostly=False):
        dirs = [""] + [p for p in paths if st[p][0] == "directory"]
        if root_mostly and rng.random() < 0.75:
            dirs = [""]
        for _ in range(8):
            d = rng.choice(dirs)
            n = rng.choice(names.files + names.dirs)
            rel = (d + "/" + n) if d else n
            if rel.count("/") < names.maxdepth and not os.path.lexists(os.path.join(b, rel)) and rel not in st:
                return rel
        return None

    try:
        if kind == "swap":
            c = [p for p in paths if st[p][0] is not None]
            if len(c) < 2:
                return False
            a, d = rng.sample(c, 2)
            if a.startswith(d + "/") or d.startswith(a + "/"):
                return False
            tmp = "swap-tmp"
            wt.rename_one(a, tmp)
            wt.rename_one(d, a)
            wt.rename_one(tmp, d)
            log.append({"op": "swap", "a": a, "b": d, "kinds": [st[a][0], st[d][0]]})
            return True
        if kind == "symlink":
            rel = free_path(root_mostly=True)
            if rel is None:
                return False
            tgt = _safe_link_target(rng, rel)
            os.symlink(tgt, os.path.join(b, rel))
            wt.add([rel])
            log.append({"op": "symlink", "path": rel, "target": tgt})
            return True
        if kind == "retarget":
            c = [p for p in paths if st[p][0] == "symlink"]
            if not c:
                return False
            rel = rng.choice(c)
            tgt = _safe_link_target(rng, rel)
            if tgt == st[rel][1]:
                return False
            os.unlink(os.path.join(b, rel))
            os.symlink(tgt, os.path.join(b, rel))
            log.append({"op": "retarget", "path": rel, "target": tgt})
            return True
        if kind in ("kc_inplace", "kc_readd"):
            c = [p for p in paths if st[p][0] in ("file", "symlink")
                 or (st[p][0] == "directory" and not any(q.startswith(p + "/") for q in st)
                     and not os.listdir(os.path.join(b, p)))]
            if not c:
                return False
            rel = rng.choice(c)
            old = st[rel][0]
            new = rng.choice([k for k in ("file", "directory", "symlink") if k != old])
            ap = os.path.join(b, rel)
            if kind == "kc_readd":
                wt.remove([rel], keep_files=False, force=True)
            else:
                gen._rm(ap)
            if new == "file":
                with open(ap, "wb") as f:
                    f.write(gen.gen_content(rng))
            elif new == "directory":
                os.mkdir(ap)
                if rng.random() < 0.5:
                    with open(os.path.join(ap, "inner"), "wb") as f:
                        f.write(b"inner\n")
            else:
                os.symlink(_safe_link_target(rng, rel), ap)
            if kind == "kc_readd":
                wt.smart_add([ap])
            elif new == "directory" and os.path.exists(os.path.join(ap, "inner")):
                pass  # added after the commit noticed the kind change (see _commit)
            log.append({"op": kind, "path": rel, "from": old, "to": new})
            return True
        if kind == "ignore":
            ap = os.path.join(b, IGNORE_FILE)
            cur = []
            if os.path.exists(ap):
                with open(ap, "rb") as f:
                    cur = _parse_patterns(f.read())
            r = rng.random()
            if cur and r < 0.25:
                if IGNORE_FILE in st:
                    wt.remove([IGNORE_FILE], keep_files=False, force=True)
                else:
                    os.unlink(ap)
                log.append({"op": "ignore-remove"})
                return True
            if cur and r < 0.5:
                cur.remove(rng.choice(cur))
            else:
                cur.append(rng.choice([p for p in PATTERN_POOL if p not in cur] or PATTERN_POOL))
            with open(ap, "wb") as f:
                f.write(("\n".join(cur) + "\n").encode())
            if IGNORE_FILE not in st:
                wt.add([IGNORE_FILE])
            log.append({"op": "ignore-set", "patterns": cur})
            return True
        if kind == "rename_edit":
            c = [p for p in paths if st[p][0] == "file"]
            dst = free_path()
            if not c or dst is None:
                return False
            src = rng.choice(c)
            wt.rename_one(src, dst)
            ap = os.path.join(b, dst)
            how = rng.choice(["edit", "chmod", "both"])
            if how in ("edit", "both"):
                with open(ap, "wb") as f:
                    f.write(gen.edit_content(rng, st[src][1] or b""))
            if how in ("chmod", "both"):
                os.chmod(ap, 0o644 if st[src][2] else 0o755)
            log.append({"op": "rename+" + how, "src": src, "dst": dst})
            return True
        if kind == "dir_rename":
            c = [p for p in paths if st[p][0] == "directory" and any(q.startswith(p + "/") for q in st)]
            dst = free_path()
            if not c or dst is None:
                return False
            src = rng.choice(c)
            if dst.startswith(src + "/"):
                return False
            wt.rename_one(src, dst)
            log.append({"op": "dir_rename", "src": src, "dst": dst})
            return True
    except Exception as e:  # refused by the tree: not our subject
        log.append({"refused": kind, "err": type(e).__name__})
        try:
            wt.revert()
        except Exception:
            pass
        return False
    return False


def _sanitize_ignore_file(wt):
    """The generic ops may edit / retype / move things onto .bzrignore-upload: keep it a regular file holding pool patterns only,
    so that the 10-line ignore model and breezy's parser cannot disagree about what it says."""
    ap = os.path.join(wt.basedir, IGNORE_FILE)
    if not os.path.lexists(ap):
        return
    if os.path.islink(ap) or not os.path.isfile(ap):
        if wt.is_versioned(IGNORE_FILE):
            wt.remove([IGNORE_FILE], keep_files=False, force=True)
        if os.path.lexists(ap):
            gen._rm(ap)
        return
    with open(ap, "rb") as f:
        data = f.read()
    keep = [x for x in _parse_patterns(data) if x in PATTERN_POOL]
    want = ("\n".join(keep) + "\n").encode() if keep else b""
    if want != data:
        mode = os.stat(ap).st_mode & 0o7777
        with open(ap, "wb") as f:
            f.write(want)
        os.chmod(ap, mode)


def _mostly_ascii_symlink_paths(rng, wt, log):
    """upload_symlink() hands raw (un-escaped) paths to the transport, so a symlink at a non-ASCII path makes every upload of the
    revision fail (finding upload_symlink:path-not-url-escaped).  Keep that shape rare (about 1 history in 10) so that it does not
    starve everything else: move such links to a free ASCII name before the commit."""
    st = observe.snap_tree(wt)
    n = 0
    for p in sorted(st):
        if st[p][0] == "symlink" and any(ord(c) > 127 for c in p) and rng.random() < 0.9:
            for cand in ("lnk%d" % k for k in range(1, 30)):
                if cand not in st and not os.path.lexists(os.path.join(wt.basedir, cand)):
                    wt.rename_one(p, cand)
                    st[cand] = st.pop(p)
                    n += 1
                    log.append({"op": "ascii-link-name", "src": p, "dst": cand})
                    break
    return n


def _build(ctx, rng):
    from breezy import errors

    root = ctx.tmp("c43")
    wt = gen.make_tree(os.path.join(root, "branch"), "2a")
    h = gen.Hist(root, "2a")
    h.trees["b0"] = wt.basedir
    names = _Names(ctx.tier)
    ncommits = rng.randint(5, 8) if ctx.tier == "quick" else rng.randint(8, 14)
    revs = []
    guard = 0
    plant = rng.random() < 0.6
    replace_at = rng.randint(1, 3)
    while len(revs) < ncommits and guard < ncommits * 4:
        guard += 1
        first = not revs
        nops = rng.randint(4, 8) if first else rng.randint(1, 4)
        if first and plant:
            _plant_dirs(rng, wt)
        if plant and len(revs) == replace_at:
            _dir_replace(rng, wt, h.log)
            replace_at = -1
        for _ in range(nops):
            if not first and rng.random() < 0.45:
                _special_op(rng, wt, names, h.log)
            else:
                gen.random_delta(rng, wt, names, 1, WEIGHTS, h.log)
        if first or rng.random() < 0.5:
            try:
                wt.smart_add([wt.basedir])
            except Exception:
                pass
        try:
            _sanitize_ignore_file(wt)
            _mostly_ascii_symlink_paths(rng, wt, h.log)
        except Exception as e:
            h.log.append({"sanitize-refused": type(e).__name__})
            wt.revert()
            continue
        try:
            rid = gen.commit(h, "b0", wt, rng)
        except errors.PointlessCommit:
            continue
        except Exception as e:
            h.log.append({"commit-refused": type(e).__name__})
            wt.revert()
            continue
        # children created inside an in-place file->directory change become addable only now
        revs.append(rid)
    return wt, h, revs


# ---------------------------------------------------------------- delta classification (from ids; independent of TreeDelta)

# ---------------------------------------------------------------- upload driver and oracle

def _upload(branch_dir, url, revid, full=False, overwrite=False, use_tip=False):
    from breezy.plugins.upload import cmds
    from breezy.revisionspec import RevisionSpec

    cmd = cmds.cmd_upload()
    cmd.outf = io.StringIO()
    rev = None if use_tip else [RevisionSpec.from_string("revid:" + revid.decode())]
    cmd.run(url, directory=branch_dir, full=full, quiet=True, revision=rev, overwrite=overwrite)


_OPS = ["delete_remote_file", "delete_remote_dir", "delete_remote_dir_maybe", "upload_file", "upload_symlink", "make_remote_dir",
        "rename_remote", "upload_file_robustly", "upload_symlink_robustly", "make_remote_dir_robustly", "_up_rename", "_up_rmdir",
        "_up_delete_tree"]
_current = {"ops": []}


def worker_init(tier):
    """Observation only: remember which uploader-level operation is in progress (name, path arguments)."""
    from breezy.plugins.upload import cmds

    def wrap(name):
        orig = getattr(cmds.BzrUploader, name)

        def f(self, *a, **kw):
            _current["ops"].append((name,) + tuple(x for x in a if isinstance(x, str)))
            return orig(self, *a, **kw)

        f.__name__ = name
        f._vf_wrapped = True
        return f

    for n in _OPS:
        if not getattr(getattr(cmds.BzrUploader, n), "_vf_wrapped", False):
            setattr(cmds.BzrUploader, n, wrap(n))


def _where(e):
    from vf import runner

    return runner._where(e.__traceback__)


SPECIAL = (".bzrignore", IGNORE_FILE)


def _judge(ctx, mode, remote, snap_new, revid, delta, before, detail, taint):
    """Compare remote directory with the uploaded revision.  Returns True if equal (modulo don't-cares)."""
    disk = observe.snap_disk(remote, skip=())
    ok = True
    kmode = "full" if mode.startswith("full") else "incr"
    ctx.count("cmp_marker")
    m = disk.pop(MARKER, None)
    if m is None:
        ok = False
        ctx.fail("%s:marker-missing" % kmode, "no %s after the upload" % MARKER, detail)
    elif m[0] != "file" or m[1] != revid:
        ok = False
        ctx.fail("%s:marker-wrong" % kmode, "%s holds %r, uploaded %r" % (MARKER, m[1], revid), detail)
    patterns = []
    if IGNORE_FILE in snap_new and snap_new[IGNORE_FILE][0] == "file":
        patterns = _parse_patterns(snap_new[IGNORE_FILE][1])
    exp = {p: v[:3] for p, v in snap_new.items()}
    dontcare = set(SPECIAL)
    nign = 0
    for p in set(exp) | set(disk):
        if _ignored(patterns, p) or _tainted(taint, p):
            dontcare.add(p)
            if p in exp or p in disk:
                nign += 1
            if p in disk:
                q = p.rpartition("/")[0]
                while q:
                    if q not in exp:
                        dontcare.add(q)
                    q = q.rpartition("/")[0]
    if nign:
        ctx.count("ignored_paths", nign)
    ctx.count("cmp_remote")
    problems = {}
    for p in sorted(set(exp) | set(disk)):
        if p in dontcare:
            continue
        e, g = exp.get(p), disk.get(p)
        if e is None:
            if mode == "full-over" and before is not None and p in before:
                ctx.hist("full-over:stale-path-kept (not judged)")
                taint.add(p)
                continue
            par = p.rpartition("/")[0]
            if par and par not in exp and par in disk and par not in dontcare:
                continue  # reported once, at the topmost extra directory
            if ".tmp." in p.rpartition("/")[2]:
                cls, sym = "rename-temp", "left-behind"
            else:
                cls = (delta.of_old(p) + "(old path)") if delta and delta.of_old(p) else "never-in-tree"
                sym = "extra"
            problems.setdefault((cls, sym), []).append(p)
            continue
        cls = (delta.of_new(p) if delta else None) or "entry"
        if g is None:
            par = p.rpartition("/")[0]
            if par and par not in disk:
                continue
            problems.setdefault((cls, "missing"), []).append(p)
        elif e[0] != g[0]:
            problems.setdefault((cls, "remote-is-%s" % g[0]), []).append(p)
        else:
            if e[0] == "symlink":
                ctx.count("symlink_compared")
                if e[1] != g[1]:
                    problems.setdefault((cls + ("(in-subdir)" if "/" in p else ""), "link-target"), []).append(p)
            elif e[0] == "file":
                if e[2]:
                    ctx.count("exec_compared")
                if e[1] != g[1]:
                    problems.setdefault((cls, "content"), []).append(p)
                if e[2] != g[2]:
                    problems.setdefault((cls, "exec-bit"), []).append(p)
    for (cls, sym), ps in sorted(problems.items()):
        ok = False
        ctx.fail("%s:%s" % (kmode, _mismatch_key(delta, ps[0], cls, sym, patterns)),
                 "after %s upload, remote path(s) %r: %s (what the delta did to the path: %s)" % (mode, ps[:4], sym, cls),
                 dict(detail, paths=ps[:10], remote={p: _brief(disk.get(p)) for p in ps[:6]}, tree={p: _brief(exp.get(p)) for p in ps[:6]},
                      flags={p: (delta.of_new(p, True) or delta.of_old(p, True)) for p in ps[:6]} if delta else None))
    return ok


def _tainted(taint, p):
    return p in taint or any(p.startswith(t + "/") for t in taint)


def _brief(v):
    if v is None:
        return None
    return [v[0], (v[1][:40].decode("latin-1") if isinstance(v[1], bytes) else v[1]), v[2]]


def _exc_key(e, delta, snap_new, taint, pats=()):
    """(mechanism key, unspecified) for an exception escaping an upload: exception type, uploader operation in progress, what the
    delta did to that operation's path.  unspecified=True when the remote state of an involved path was don't-care before the upload
    (upload-ignored earlier, or stale after --full): then the exception is counted, not judged."""
    ops = _current["ops"]
    opname, subject, side, involved = "?", None, "new", []
    for o in reversed(ops):
        if o[0] == "_up_rmdir":
            continue
        if o[0] == "_up_rename":
            if len(o) > 2 and o[1].rpartition("/")[2].startswith(".tmp."):
                opname, subject, side, involved = "finish_renames", o[2], "new", [o[2]]
                break
            continue
        opname = o[0]
        args = list(o[1:])
        involved = args[:]
        if opname in ("delete_remote_file", "delete_remote_dir", "delete_remote_dir_maybe", "rename_remote", "_up_delete_tree"):
            subject, side = (args[0] if args else None), "old"
        elif opname == "upload_file":
            subject, side = (args[1] if len(args) > 1 else args[0]), "new"
        elif opname in ("upload_symlink", "upload_symlink_robustly"):
            subject, side, involved = args[0], "new", args[:1]
        else:
            subject, side = (args[0] if args else None), "new"
        break
    if ops and ops[-1][0] == "_up_rmdir" and not (len(ops) > 1 and ops[-2][0] in ("delete_remote_dir", "delete_remote_dir_maybe")
                                                   and ops[-2][1:2] == ops[-1][1:2]):
        opname, subject, side = "finish_deletions", (ops[-1][1] if len(ops[-1]) > 1 else None), "old"
        involved = [subject]
    exc = type(e).__name__
    unspecified = any(x and (_tainted(taint, x) or any(t.startswith(x + "/") for t in taint)) for x in involved)
    if subject is None:
        return "raised:%s@%s" % (exc, opname), unspecified
    if opname == "upload_symlink" and exc in ("InvalidURL", "PathNotChild"):
        # the transport rejected what it was handed: raw non-ASCII path, or a link-relative target taken as transport-relative
        if any(ord(c) > 127 for o in ops[-1:] for x in o[1:] for c in x):
            return "upload_symlink:path-not-url-escaped", False
        return "symlink-in-subdirectory:target-not-normalised", False
    if opname == "upload_symlink" and exc == "FileExists":
        return "upload_symlink:remote-path-not-cleared-first", unspecified
    if delta is None:
        return "raised:%s@%s:entry" % (exc, opname), unspecified
    dest = subject if opname == "finish_renames" else (involved[1] if opname == "rename_remote" and len(involved) > 1 else None)
    if dest is not None and (dest in SPECIAL or (pats and _ignored(pats, dest))):
        # the remote object is renamed onto a path that is never kept in step (whatever is there is in the way)
        return "rename-onto-upload-ignored-path", False
    fam = _explain(delta, subject, side, pats, None, opname)
    if fam:
        return fam, (unspecified and fam != "special-file-skipped-by-full-upload")
    fid = delta.old_at.get(subject) if side == "old" else delta.new_at.get(subject)
    return "raised:%s@%s:%s" % (exc, opname, delta.cls.get(fid, "unchanged")), unspecified


OLD_SIDE_OPS = ("delete_remote_file", "delete_remote_dir", "delete_remote_dir_maybe", "rename_remote", "finish_deletions", "_up_delete_tree")


def _mechanism(delta, fid, patterns, sym, op, own):
    """Known mechanism (closed key space) by which the upload mistreats the entry fid; own=False: fid is an ancestor directory of the
    failing path (only mechanisms that damage what lies below a directory apply)."""
    cls = delta.cls.get(fid)
    if cls is None:
        return None
    flags = delta.flags.get(fid, set())
    oldp = next((q for q, f in delta.old_at.items() if f == fid), None)
    newp = next((q for q, f in delta.new_at.items() if f == fid), None)
    if cls.startswith("renamed+kind_changed"):
        return "renamed+kind_changed-treated-as-plain-rename"
    if not own and cls.startswith("kind_changed") and cls.endswith(">directory"):
        # something had to be put below a file that only becomes a directory later in the same upload (the kind change is done
        # after the renames and the directories created for them): the known variant of the rename-into-new-directory mechanism
        return "rename-into-directory-added-in-same-upload"
    if cls.startswith("renamed+target") and own:
        return "renamed+retargeted-symlink-uploaded-as-file"
    if cls.startswith("renamed") and oldp and newp and patterns and _ignored(patterns, oldp) and not _ignored(patterns, newp):
        # the fix uploads the entry itself as an addition; what lives below a directory is still left out
        return "renamed-from-upload-ignored-path" if own else "directory-renamed-from-upload-ignored-path:children-not-uploaded"
    if own and (oldp in SPECIAL or newp in SPECIAL) and op in OLD_SIDE_OPS and oldp in SPECIAL:
        return "special-file-skipped-by-full-upload"
    if own and sym == "exec-bit" and cls.startswith("renamed") and "+exec" in cls:
        return "renamed+exec:exec-bit-not-updated"
    if own and "into-added-dir" in flags:
        return "rename-into-directory-added-in-same-upload"
    if own and "under-renamed-dir" in flags:
        return "path-under-directory-renamed-in-same-upload"
    if flags & {"path-reused", "old-path-reused"} and delta.reuse_kinds(fid) - {"file"}:
        # plain file<->file swaps are what the two-stage rename exists for and must work: they keep their detailed key
        return "path-reused-by-directory-or-symlink-within-one-upload"
    return None


def _explain(delta, path, side, patterns, sym, op):
    """Mechanism for a failure at path: what the delta does to the entry there, else to its nearest changed ancestor directory
    (old or new tree, as the remote path may be a leftover of either)."""
    first, second = (delta.old_at, delta.new_at) if side == "old" else (delta.new_at, delta.old_at)
    fid = first.get(path, second.get(path))
    q = path.rpartition("/")[0]
    while q and patterns:  # below a directory that was upload-ignored under its old name: nothing of it is on the remote side
        a = delta.new_at.get(q)
        oldq = next((x for x, f in delta.old_at.items() if f == a), None) if a is not None else None
        if oldq and oldq != q and delta.cls.get(a, "").startswith("renamed") and _ignored(patterns, oldq) and not _ignored(patterns, q):
            return "directory-renamed-from-upload-ignored-path:children-not-uploaded"
        q = q.rpartition("/")[0]
    if fid is not None:
        m = _mechanism(delta, fid, patterns, sym, op, True)
        if m:
            return m
    q = path.rpartition("/")[0]
    while q:
        for at in (first, second):
            if q in at:
                m = _mechanism(delta, at[q], patterns, sym, op, False)
                if m:
                    return m
        q = q.rpartition("/")[0]
    return None


def _mismatch_key(delta, p, cls, sym, patterns=()):
    """Mechanism key for a remote/tree difference at path p (closed key space for the known mechanisms), else the detailed key."""
    if delta is None:
        return "%s:%s" % (cls, sym)
    return _explain(delta, p, "new" if p in delta.new_at else "old", patterns, sym, None) or "%s:%s" % (cls, sym)


def case(ctx):
    from breezy import transport as _t  # noqa: F401
    from breezy.plugins.upload import cmds

    rng = ctx.rng
    try:
        wt, h, revs = _build(ctx, rng)
    except Exception as e:
        ctx.discard("build:%s" % type(e).__name__)
        return
    if len(revs) < 3:
        ctx.discard("short-history")
    repo = wt.branch.repository
    snaps = {}
    with repo.lock_read():
        for r in revs:
            snaps[r] = observe.snap_tree(repo.revision_tree(r))
    ctx.info = {"log": h.log[-120:], "revs": [r.decode() for r in revs]}
    base = ctx.tmp("c43remote")
    nremote = [0]

    def new_remote():
        nremote[0] += 1
        return os.path.join(base, "r%d" % nremote[0])

    remote = new_remote()
    taint = set()  # paths that were upload-ignored in some upload to this remote: their remote state is unspecified from then on
    cur = None  # index of the revision the remote holds
    steps = len(revs) + (2 if ctx.tier == "quick" else 6)
    i = rng.choice([0, 0, 1])
    tgt_after_reset = i
    for step in range(steps):
        # ---- choose the next move
        if cur is None:
            mode, tgt = "full-fresh", (i if step == 0 else tgt_after_reset)
            full = rng.random() < 0.5
            overwrite = False
        else:
            r = rng.random()
            full, overwrite = False, False
            if r < 0.62 and cur + 1 < len(revs):
                mode, tgt = "incr", cur + 1
            elif r < 0.77 and cur + 2 < len(revs):
                mode, tgt = "incr-skip", rng.randint(cur + 2, min(len(revs) - 1, cur + 4))
            elif r < 0.90 and cur > 0:
                mode, tgt = "incr-back", rng.randint(0, cur - 1)
                overwrite = True
            elif r < 0.96:
                mode, tgt, full = "full-over", rng.randrange(len(revs)), True
                overwrite = True
            elif cur + 1 < len(revs):
                mode, tgt = "incr", cur + 1
            else:
                break
        revid = revs[tgt]
        new = snaps[revid]
        old = snaps[revs[cur]] if cur is not None else {}
        delta = Delta(old, new) if mode.startswith("incr") else None
        classes = delta.classes if delta else []
        swap = bool(delta and delta.swap)
        detail = {"mode": mode, "from": revs[cur].decode() if cur is not None else None, "to": revid.decode(), "delta": classes[:40],
                  "full": full, "overwrite": overwrite}
        before = observe.snap_disk(remote, skip=()) if os.path.isdir(remote) else None
        pats = _parse_patterns(new[IGNORE_FILE][1]) if IGNORE_FILE in new and new[IGNORE_FILE][0] == "file" else []
        for p in set(new) | set(old) | set(before or ()):
            if pats and _ignored(pats, p):
                taint.add(p)
        if delta is not None and taint:
            # don't-care paths travel with directories the upload renames on the remote side
            npath = {v[3]: q for q, v in new.items()}
            for q, v in old.items():
                q2 = npath.get(v[3])
                if q2 is None or q2 == q:
                    continue
                if v[0] == "directory":
                    for t in list(taint):
                        if t.startswith(q + "/"):
                            taint.add(q2 + t[len(q):])
                if _tainted(taint, q) and not _ignored(pats, q):
                    # ignored under an earlier revision's patterns only: the uploader cannot know, the renamed object stays unspecified
                    taint.add(q2)
        # ---- documented refusal: going backwards without --overwrite
        if mode == "incr-back":
            try:
                _upload(wt.basedir, remote, revid, overwrite=False)
            except cmds.DivergedUploadedTree:
                ctx.count("diverged_refused")
                after = observe.snap_disk(remote, skip=())
                ctx.check(after == before, "incr:diverged-refusal-changed-remote", "refused upload modified the remote directory", detail)
            except Exception as e:
                ctx.fail("incr:diverged-check:raised:%s@%s" % (type(e).__name__, _where(e)), repr(e)[:300], detail)
            else:
                ctx.fail("incr:diverged-not-refused", "upload of a non-descendant revision without --overwrite was accepted", detail)
                before = observe.snap_disk(remote, skip=())
        # ---- the upload under test
        failed = False
        _current["ops"] = []
        try:
            _upload(wt.basedir, remote, revid, full=full, overwrite=overwrite, use_tip=(tgt == len(revs) - 1 and rng.random() < 0.3))
        except Exception as e:
            failed = True
            kmode = "full" if mode.startswith("full") else "incr"
            key, unspecified = _exc_key(e, delta, new, taint, pats)
            ctx.hist("raised:%s" % type(e).__name__)
            if unspecified:
                ctx.hist("not judged: %s on a path whose remote state was unspecified (upload-ignored earlier / stale after --full)" % type(e).__name__)
            else:
                ctx.fail("%s:%s" % (kmode, key), "%s upload raised %r" % (mode, e),
                         dict(detail, exc=repr(e)[:300], ops=[list(o) for o in _current["ops"][-8:]],
                              remote_before=sorted((p, v[0]) for p, v in (before or {}).items())[:60],
                              tree_new=sorted((p, v[0]) for p, v in new.items())[:60]))
        else:
            ok = _judge(ctx, mode, remote, new, revid, delta, before, detail, taint)
            failed = not ok
        # ---- bookkeeping
        ctx.hist("mode:%s" % mode)
        ctx.count({"full-fresh": "full_fresh", "incr": "incremental", "incr-skip": "skip_k", "incr-back": "backwards_overwrite",
                   "full-over": "full_over"}[mode])
        if mode.startswith("incr"):
            ctx.count("incremental") if mode != "incr" else None
            for c in classes:
                ctx.hist("delta:%s" % c)
            if any(c.startswith("renamed") for c in classes):
                ctx.count("delta_renamed")
            if any(c.startswith("removed") for c in classes):
                ctx.count("delta_removed")
            if any("kind_changed" in c for c in classes):
                ctx.count("delta_kind_changed")
            if swap:
                ctx.count("delta_swap")
            if any(c.startswith("removed:directory") for c in classes) and any(
                    delta.cls.get(f, "").endswith(":directory") and delta.cls[f].startswith("renamed") and "path-reused" in delta.flags.get(f, ())
                    for f in delta.cls):
                ctx.count("delta_dir_onto_removed_dir")
        nontrivial = (len(new) >= 3) if mode.startswith("full") else any(
            c.startswith(("renamed", "removed")) or "kind_changed" in c for c in classes)
        hh = hashlib.sha1(repr(sorted((p, v[0], v[2]) for p, v in new.items())).encode()).hexdigest()[:10]
        ctx.note((mode, classes, hh), nontrivial=nontrivial,
                 sample={"mode": mode, "delta_classes": classes[:12], "entries": len(new), "swap": swap, "equal": not failed}
                 if rng.random() < 0.03 else None)
        if failed:
            # continue on a fresh remote so later steps are still judged
            remote = new_remote()
            taint = set()
            cur = None
            tgt_after_reset = tgt
            ctx.hist("reset-after-failure")
            continue
        cur = tgt
