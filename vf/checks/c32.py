"""C32 - operations through a smart server match local operations.

Differential monitor (DESIGN I8): one generated program of branch / repository operations is executed on twin
copies of the same starting directory - once through local paths, once through bzr:// URLs of an in-process
SmartTCPServer (127.0.0.1, backing transport chrooted to the twin, as `brz serve` and the test-suite's
SmartTCPServer_for_testing do).  After every operation the returned values (URLs and lock tokens normalised)
or the classes of the raised errors must be equal; at the end branch tip, tags, parent, config values, lock
status, every revision's testaments, the key sets and Repository.check() are read LOCALLY from both twins
and must be equal (and check() clean).  After every operation the lock directories held on disk are compared too (every handle
is unlocked between operations).  Histories of pack-based formats may carry a ghost that another repository can fill (aimed
fetches with / without find_ghosts); every program contains one episode with a write lock left behind on disk by a third party
(branch or repository lock) against which the actor under test locks / writes, followed by a write that only needs the
repository.  Formats include knit repositories (physical repository lock).  Three server modes: all verbs, a random subset of newer verbs removed
from the request registry (client-side fallbacks to older verbs / VFS), and VFS verbs disabled
(BRZ_NO_SMART_VFS, as the test-suite does).
"""
import os
import shutil

from vf import gen
from vf.checks import _c32_lib as L
from vf.observe import snap_branch, snap_disk, snap_repo

ID = "C32"
LEVEL = "exploration"
TECHNIQUE = ("differential twin execution (local paths vs in-process bzr:// SmartTCPServer) of one generated "
             "operation program; per-op result/error-class equality + final local snapshots (branch, repo, check)")
LEVEL_TEXT = ("held on the sampled programs: per-op results and final locally-read states were equal between a local "
              "and a smart-server execution, for the operation kinds, formats and server modes listed in the histogram")
RULE = ("case = one history (format x 2-3 branches x merges x tags, for pack formats in 60% a ghost of one served repository that "
        "another repository holds) copied to twins + one program of N ops "
        "(quick 10-14, thorough 14-22) generated online from the local twin's state over {commit via lightweight "
        "checkout(+update/merge), fetch, pull, push, push to new location, sprout, tag set/delete/read, config "
        "set/get/remove (stack and old API), lock episodes with tokens (hand-over, contention, bogus token), stale-lock episodes "
        "(a branch / repository write lock left on disk by a local third party; lock_write, bogus token, lock_read, set_tag, "
        "set_last_revision_info, repository lock, repository write attempted through the location; lock state on disk read after each "
        "attempt), fetch with and without find_ghosts (one aimed at a fillable ghost when the history has one), "
        "get_parent_map, get_revision(s), iter_revisions, revision_tree(s), iter_files_bytes, get_stacked_on_url, "
        "set_last_revision_info, generate_revision_history, all_revision_ids, gather_stats, signatures (add / has / "
        "text / aborted write group), heads, get_rev_id_for_revno, revision delta, pack, reopen} x server mode "
        "(plain | newer verbs removed | no VFS); an evaluation = one op judged on both twins, or one final-state "
        "comparison; non-trivial = the op addressed a served (bzr://) location; distinct = (op kind, lock mode, "
        "handle slot, outcome class, format, server mode)")
CASES = {"quick": 48, "thorough": 400}
BUDGET_S = {"quick": 45, "thorough": 800}
MIN_EVALS = {"quick": 250, "thorough": 3000}
FLOORS = {
    "oracle_op_result": 200,
    "oracle_final_branch": 30,
    "oracle_final_repo": 30,
    "oracle_final_check": 30,
    "oracle_final_config": 20,
    "oracle_final_checkout": 4,
    "remote_ops": 150,
    "oracle_disk_locks": 200,
    "oracle_stale_lock": 20,
    "stale_branch_lock_with_physical_repository_lock": 3,
    "fetch_filled_a_ghost_locally": 3,
    "server_stopped_clean": 16,
}
EXHAUSTIVE = {"quick": False, "thorough": False}
RUST = []
ASSUMPTIONS = [
    "client and server run in one process (threads) over a real TCP socket on 127.0.0.1; the pipes medium is not driven",
    "error equality is equality of exception class names; messages are not compared",
    "values that legitimately differ are normalised: the twin's root path / file:// URL / bzr://host:port prefix, lock tokens "
    "(compared as present/absent and by hand-over behaviour), repository 'size' in gather_stats",
    "programs avoid inputs the API documents as caller errors that corrupt a branch (set_last_revision_info with a revno that "
    "is not the distance to null, or with a revision absent from the repository)",
    "in no-VFS mode a program ends at the first operation that needs a VFS verb (counted); the final comparison is then made "
    "only if that operation was read-only",
    "verbs removed in 'verbs-off' mode are only those for which the client documents a fallback (UnknownSmartMethod handler)",
    "a fetch that fills a ghost makes check() complain about the per-file parents of the revision that referenced the ghost (on both "
    "twins alike): those complaints are not counted; between two knit repositories a local fetch ignores find_ghosts=False "
    "(InterKnitRepo always searches the whole ancestry) while the fetch into a served repository honours it - the parameter leaves "
    "that open, so fillable ghosts are planted in pack-based formats only",
    "the stale lock of a stale-lock episode is taken and finally released through local paths on both twins (a third party on the "
    "server machine); only the attempts in between go through the location under test; resuming the stale lock with its token "
    "through the location is not attempted (formats with a physical repository lock: known hand-over finding)",
    "a socket timeout or a server thread that does not join is counted as inconclusive for that case, never a verdict",
    "branch.conf is cached per Branch object for its whole life (locally and remotely): all config traffic of a branch goes "
    "through one dedicated handle and the other handles are reopened after a config / parent change",
    "stacked branches are not driven (repository verbs run without fallbacks on the server: C08's subject); format-5 (knit) "
    "branches are not sent set_parent / config operations (local quirks of that format); get_rev_id's two out-of-range "
    "errors (NoSuchRevision / RevnoOutOfBounds) are treated alike, as every caller does; gather_stats 'firstrev' is compared only "
    "for linear ancestries (it is the last element of an unordered ancestry walk otherwise)",
]

# ("dirstate-tags", "knit", "rich-root": knit repositories, the formats whose repository has a physical lock of its own)
FORMATS_Q = ["2a", "2a", "2a", "pack-0.92", "1.14-rich-root", "1.9", "dirstate-tags", "knit"]
FORMATS_T = FORMATS_Q + ["rich-root-pack", "knit", "development-colo", "1.14", "rich-root", "dirstate-tags"]
REPO_LOCK_FORMATS = ("knit", "dirstate-tags", "rich-root")
MODES = ["plain", "verbs-off", "plain", "novfs"]

# (Branch.set_parent_location / Branch.get_parent are left enabled: with only one of them the value written under a write lock
# sits in one object's config cache (verb side or VFS side) until unlock and the other path still sees the old one.)
# (Repository.get_parent_map is left enabled: its documented pre-1.2 fallback, get_revision_graph, cannot report ghosts.)
# verbs for which remote.py has an UnknownSmartMethod fallback (validated empirically: disabling them one at a time
# never surfaced UnknownSmartMethod to the API user)
FALLBACK_VERBS = [
    b"Branch.get_physical_lock_status", b"Branch.get_stacked_on_url", b"Branch.get_tags_bytes", b"Branch.set_tags_bytes",
    b"Branch.revision_id_to_revno", b"Branch.set_last_revision_info",
    b"Branch.set_config_option", b"Branch.set_config_option_dict", b"Branch.put_config_file", b"Branch.heads_to_fetch",
    b"Branch.set_last_revision_ex", b"Branch.get_all_reference_info",
    b"BzrDir.checkout_metadir", b"BzrDir.cloning_metadir", b"BzrDir.create_branch", b"BzrDir.create_repository",
    b"BzrDir.find_repositoryV3", b"BzrDir.get_branches", b"BzrDir.get_config_file", b"BzrDir.has_workingtree",
    b"BzrDir.open_branchV3", b"BzrDir.open_2.1", b"BzrDirFormat.initialize_ex_1.16",
    b"PackRepository.autopack", b"Repository.all_revision_ids", b"Repository.check_write_group",
    b"Repository.get_physical_lock_status", b"Repository.get_rev_id_for_revno",
    b"Repository.get_revision_signature_text", b"Repository.get_stream_1.19", b"Repository.get_stream_for_missing_keys",
    b"Repository.has_signature_for_revision_id", b"Repository.insert_stream_1.19", b"Repository.insert_stream_locked",
    b"Repository.make_working_trees", b"Repository.pack", b"Repository.start_write_group",
    b"Repository.iter_files_bytes", b"Repository.iter_revisions", b"VersionedFileRepository.get_inventories",
    b"VersionedFileRepository.get_serializer_format",
]

TAGS = ["v1", "rel 2", "t/x", "über", "a:b", "tab\tx", "q'\"", "日本"]
CONF_NAMES = ["vf_opt", "vf.dotted", "vf_other", "email", "push_location", "append_revisions_only", "child_submit_to"]
CONF_VALUES = ["plain", "two words", "a,b,c", "quote \"q\" here", "'single'", "#hash", "ünï cödé", " lead", "trail ",
               "", "x=y", "semi;colon", "back\\slash", "[brackets]", "{ref}", "a, b", "\"", "'", "True", "multi\nline",
               "tab\there", "trailing,", "''", "'''", "\"\"\""]

CONF_HOSTILE = [" lead", "trail ", " both ", "quote \"q\" here", "'single'", "a, b", "tab\there ", "\"dq\"", " 'sq' "]
_state = {"nprog": 0}


def worker_init(tier):
    import socket

    socket.setdefaulttimeout(L.CLIENT_SOCKET_TIMEOUT)


# ------------------------------------------------------------------ state view (reads the LOCAL twin with fresh objects)

class View:
    def __init__(self, side, names):
        self.side = side
        self.names = list(names)
        self._c = {}

    def invalidate(self):
        self._c = {}

    def served(self):
        return [n for n in self.names if self.side.is_served(n)]

    def info(self, name):
        if name in self._c:
            return self._c[name]
        from breezy.branch import Branch

        b = Branch.open(self.side.local_path(name))
        with b.lock_read():
            revs = sorted(b.repository.all_revision_ids())
            pm = b.repository.get_parent_map(revs)
            try:
                tags = dict(b.tags.get_tag_dict())
            except Exception:
                tags = {}
            d = {"tip": b.last_revision_info(), "revs": revs, "pm": {k: tuple(v) for k, v in pm.items()}, "tags": tags}
            d["ghosts"] = sorted({p for v in pm.values() for p in v if p not in pm and p != b"null:"})
            try:
                nb = b.controldir.open_branch(ignore_fallbacks=True)
                with nb.lock_read():
                    d["own_revs"] = sorted(nb.repository.all_revision_ids())
            except Exception:
                d["own_revs"] = revs
            # left-hand history of the tip (ghost-free prefix)
            lh = []
            try:
                g = b.repository.get_graph()
                for r in g.iter_lefthand_ancestry(d["tip"][1], (None, b"null:")):
                    lh.append(r)
            except Exception:
                pass
            d["lefthand"] = lh
        self._c[name] = d
        return d

    def fillable(self):
        """[(target, source, ghost, referencing revisions of the target that the source holds too)]: the target's repository
        has a revision whose parent is absent (a ghost) and the source's repository holds that parent."""
        out = []
        for t in self.names:
            ti = self.info(t)
            for g in ti["ghosts"]:
                refs = [r for r, ps in sorted(ti["pm"].items()) if g in ps]
                for s in self.names:
                    if s != t and g in self.info(s)["pm"]:
                        out.append((t, s, g, [r for r in refs if r in self.info(s)["pm"]]))
        return out

    def revno(self, name, rev):
        """distance to null along left-hand parents, or None (ghost on the way / absent)."""
        pm = self.info(name)["pm"]
        n = 0
        cur = rev
        while cur != b"null:":
            if cur not in pm:
                return None
            n += 1
            ps = pm[cur]
            cur = ps[0] if ps else b"null:"
        return n


def pick_rev(rng, view, name, absent=0.12):
    inf = view.info(name)
    r = rng.random()
    if r < absent or not inf["revs"]:
        others = [x for n in view.names if n != name for x in view.info(n)["revs"] if x not in inf["pm"]]
        if others and rng.random() < 0.6:
            return rng.choice(others)
        return rng.choice([b"no-such-rev", b"ghost-0", b"null:"])
    return rng.choice(inf["revs"])


def gen_ghost_fetch(rng, view):
    """A fetch aimed at a ghost of the target that the source can fill: with find_ghosts the revision behind the common
    revision has to arrive, without it (and a revision the walk to common revisions stops above) it must not."""
    pairs = view.fillable()
    served = [p for p in pairs if view.side.is_served(p[0])]
    if served and rng.random() < 0.8:
        pairs = served
    if not pairs:
        return None
    t, s, g, refs = rng.choice(pairs)
    sinf = view.info(s)
    cands = list(refs) + [sinf["tip"][1]] if sinf["tip"][1] != b"null:" else list(refs)
    r = rng.random()
    if cands and r < 0.8:
        rev = rng.choice(cands)
    elif r < 0.9:
        rev = g
    else:
        rev = None
    return {"op": "fetch", "slot": rng.choice(["A", "A", "B"]), "into": t, "from": s, "rev": rev, "fg": rng.random() < 0.7,
            "aimed": True}


def gen_next(rng, view, tier, counters, forced=None):
    """One op dict, chosen from the local twin's current state."""
    served = view.served()
    allnames = view.names
    weights = {
        "last_info": 3, "revno_of": 2, "dotted": 2, "rev_id": 2, "tag_dict": 4, "tag_lookup": 2, "conf_get": 3,
        "parent_get": 2, "push_loc_get": 1, "stacked_on": 1, "phys": 1, "parent_map": 4, "get_revision": 3, "get_revisions": 1,
        "iter_revisions": 2, "rev_tree": 3, "rev_trees": 1, "files_bytes": 2, "all_revs": 3, "has_revs": 2, "stats": 3,
        "has_sig": 3, "sig_text": 1, "heads": 2, "revid_for_revno": 2, "delta": 1, "reopen": 2,
        "tag_set": 6, "tag_del": 3, "conf_set": 8, "conf_remove": 1, "parent_set": 2, "push_loc_set": 1, "set_lri": 4,
        "gen_rh": 2, "lock_episode": 4, "sig_add": 3, "wg_abort": 1, "pack": 2, "fetch": 5, "pull": 5, "push": 5,
        "push_new": 2, "sprout": 1, "commit": 8, "stale_lock": 3, "ghost_fetch": 2,
    }
    kinds = sorted(weights)
    k = forced or rng.choices(kinds, [weights[x] for x in kinds])[0]
    if k == "ghost_fetch":
        return gen_ghost_fetch(rng, view)
    if counters.get("fmt") == "knit" and (k in L.CONFIG_OPS or k == "parent_set"):
        # format-5 branches keep parent / push location in their own files with their own local quirks
        # (set_parent(None) without a parent file raises NoSuchFile locally); not the smart server's business
        return None
    b = rng.choice(served) if (rng.random() < 0.9 or k in ("commit", "lock_episode", "stale_lock")) else rng.choice(allnames)
    slot = rng.choice(["A", "A", "B"])
    op = {"op": k, "b": b, "slot": slot}
    inf = view.info(b)
    if k in L.CONFIG_OPS:
        # branch.conf is cached per Branch object for its whole life, locally and remotely (by design a long-lived handle
        # does not see other handles' config changes); all config traffic of a branch goes through one dedicated handle
        op["slot"] = "C"
    readers = ("last_info", "revno_of", "dotted", "rev_id", "tag_dict", "tag_lookup", "conf_get", "parent_get", "push_loc_get", "stacked_on",
               "get_revision", "get_revisions", "rev_tree", "all_revs", "has_revs", "stats", "has_sig", "sig_text")
    if k in readers:
        op["lk"] = rng.choice([None, None, "r", "w"])
    elif k in ("tag_set", "tag_del", "conf_set", "conf_remove", "parent_set", "push_loc_set", "set_lri", "gen_rh"):
        op["lk"] = rng.choice([None, None, "w"])
    if k in ("revno_of", "dotted", "get_revision", "rev_tree", "has_sig", "sig_text", "delta", "files_bytes"):
        op["rev"] = pick_rev(rng, view, b, absent=0.05 if k in ("delta", "files_bytes") else 0.12)
        if k in ("delta", "files_bytes", "rev_tree") and op["rev"] not in inf["pm"] and op["rev"] != b"null:":
            op["rev"] = rng.choice(inf["revs"]) if inf["revs"] and rng.random() < 0.7 else op["rev"]
    elif k == "rev_id":
        op["revno"] = rng.randint(-1, inf["tip"][0] + 1)
    elif k == "tag_lookup":
        op["tag"] = rng.choice(sorted(inf["tags"]) + TAGS[:3]) if rng.random() < 0.8 else "absent-tag"
    elif k == "tag_set":
        op["tag"] = rng.choice(TAGS)
        op["rev"] = pick_rev(rng, view, b, absent=0.2)
    elif k == "tag_del":
        op["tag"] = rng.choice(sorted(inf["tags"])) if inf["tags"] and rng.random() < 0.8 else rng.choice(TAGS)
    elif k in ("conf_get", "conf_remove"):
        op["name"] = rng.choice(CONF_NAMES)
        op["api"] = rng.choice(["stack", "stack", "old"]) if k == "conf_get" else "stack"
    elif k == "conf_set":
        op["name"] = rng.choice(CONF_NAMES[:3] if rng.random() < 0.7 else CONF_NAMES)
        op["value"] = rng.choice(CONF_HOSTILE if rng.random() < 0.45 else CONF_VALUES)
        if op["name"] == "append_revisions_only":
            op["value"] = rng.choice(["True", "False"])
        op["api"] = rng.choice(["stack", "stack", "old"])
    elif k == "parent_set":
        op["to"] = rng.choice(allnames + [None])
    elif k == "push_loc_set":
        op["to"] = rng.choice(allnames)
    elif k in ("set_lri", "gen_rh"):
        cands = [r for r in inf["revs"] if view.revno(b, r) is not None]
        if not cands:
            return None
        op["rev"] = rng.choice(cands)
        op["revno"] = view.revno(b, op["rev"])
        if rng.random() < 0.08:
            op["rev"], op["revno"] = b"null:", 0
    elif k == "lock_episode":
        op["variant"] = rng.choice(["handover", "handover", "contend", "mismatch"])
        if counters.get("fmt") in REPO_LOCK_FORMATS and op["variant"] != "contend" and not counters.get("last_op"):
            # a token hand-over strands the repository lock of these formats (known finding, ends the program): kept for the
            # program's last operation only, so that the operations before it are still judged
            op["variant"] = "contend"
        if rng.random() < 0.6:
            op["tag"] = rng.choice(TAGS)
            op["rev"] = pick_rev(rng, view, b, absent=0.0)
        if rng.random() < 0.4:
            cands = [r for r in inf["revs"] if view.revno(b, r) is not None]
            if cands:
                r = rng.choice(cands)
                op["lri"] = (view.revno(b, r), r)
    elif k == "stale_lock":
        repo_lock = counters.get("fmt") in REPO_LOCK_FORMATS
        op["what"] = "repo" if (repo_lock and rng.random() < 0.25) else "branch"
        pool = ["lock_write", "lock_write", "lock_write_bogus", "lock_read", "tag_set", "set_lri", "repo_lock"]
        atts = [rng.choice(pool) for _ in range(rng.randint(1, 3))]
        if "lock_write" not in atts and rng.random() < 0.7:
            atts.insert(rng.randint(0, len(atts)), "lock_write")
        if counters.get("fmt") == "knit":
            atts = [a for a in atts if a != "tag_set"] or ["lock_write"]
        op["tag"] = rng.choice(TAGS)
        op["rev"] = pick_rev(rng, view, b, absent=0.0)
        cands = [r for r in inf["revs"] if view.revno(b, r) is not None]
        if cands:
            r = rng.choice(cands)
            op["lri"] = (view.revno(b, r), r)
        else:
            atts = [a for a in atts if a != "set_lri"] or ["lock_write"]
        if inf["own_revs"]:
            # the follow-up write: needs the repository's write lock, not the branch's
            counters["sig"] += 1
            op["sigrev"] = rng.choice(inf["own_revs"])
            op["text"] = b"-----BEGIN PSEUDO-SIGNED MESSAGE-----\nstale %d\n" % counters["sig"]
            atts.append("repo_write")
        else:
            atts.append("repo_lock")
        op["attempts"] = atts
    elif k == "parent_map":
        keys = [pick_rev(rng, view, b, absent=0.25) for _ in range(rng.randint(1, 5))]
        op["keys"] = sorted(set(keys))
        op["lk"] = rng.choice([None, "r", "w"])
    elif k in ("get_revisions", "iter_revisions", "rev_trees", "has_revs"):
        ab = 0.25 if k in ("iter_revisions", "has_revs") else 0.0
        revs = [pick_rev(rng, view, b, absent=ab) for _ in range(rng.randint(1, 4))]
        op["revs"] = sorted(set(revs))
        if k in ("get_revisions", "rev_trees") and not all(r in inf["pm"] for r in op["revs"]):
            return None
    elif k == "stats":
        op["rev"] = rng.choice([None, inf["tip"][1]] + inf["revs"][:2]) if inf["revs"] else None
        if op["rev"] == b"null:":
            op["rev"] = None
        op["committers"] = rng.choice([None, True])
    elif k == "heads":
        if len(inf["revs"]) < 2:
            return None
        op["keys"] = rng.sample(inf["revs"], min(len(inf["revs"]), rng.randint(2, 4)))
    elif k == "revid_for_revno":
        if inf["tip"][0] == 0 or view.revno(b, inf["tip"][1]) != inf["tip"][0]:
            return None
        op["revno"] = rng.randint(0, inf["tip"][0] + 1)
        op["known"] = inf["tip"]
    elif k in ("sig_add", "wg_abort"):
        # (a stacked repository: only revisions it holds itself - the server opens repositories without their fallbacks and
        # refuses to sign a revision that lives in the stacked-on repository, a local repository accepts it)
        if not inf["own_revs"]:
            return None
        op["rev"] = rng.choice(inf["own_revs"])
        counters["sig"] += 1
        op["text"] = b"-----BEGIN PSEUDO-SIGNED MESSAGE-----\nsig %d\n\xc3\xa9\x00\n" % counters["sig"]
    elif k in ("fetch", "pull", "push"):
        other = rng.choice([n for n in allnames if n != b])
        if rng.random() < 0.5:
            src, tgt = other, b
        else:
            src, tgt = b, other
        sinf = view.info(src)
        if k == "fetch":
            op.update({"into": tgt, "from": src, "rev": rng.choice(sinf["revs"] + [None]) if sinf["revs"] else None,
                       "fg": rng.random() < 0.35})
        else:
            stop = None
            if rng.random() < 0.3 and sinf["lefthand"]:
                stop = rng.choice(sinf["lefthand"])
            ow = rng.random() < 0.3
            if k == "pull":
                op.update({"into": tgt, "from": src, "ow": ow, "stop": stop})
            else:
                op.update({"from": src, "to": tgt, "ow": ow, "stop": stop})
        op.pop("b")
    elif k == "push_new":
        counters["new"] += 1
        op["from"] = b if rng.random() < 0.5 else rng.choice(allnames)
        op["new"] = ("n%d" if rng.random() < 0.8 else "xn%d") % counters["new"]
        finf = view.info(op["from"])
        op["rev"] = rng.choice(finf["lefthand"]) if finf["lefthand"] and rng.random() < 0.3 else None
        if counters.get("stackable") and view.side.is_served(op["new"]) and view.side.is_served(op["from"]) and rng.random() < 0.35:
            # a new served branch stacked on the served branch it is cloned from (relative URL, as `push --stacked-on` stores it)
            op["stacked"] = op["from"]
        op.pop("b")
    elif k == "sprout":
        counters["new"] += 1
        op["from"] = b
        op["new"] = "xs%d" % counters["new"]
        op["rev"] = rng.choice(inf["lefthand"]) if inf["lefthand"] and rng.random() < 0.3 else None
        op.pop("b")
    elif k == "commit":
        if inf["tip"][1] == b"null:":
            return None  # the first commit of a branch invents a random tree-root id: not comparable between the twins
        counters["commit"] += 1
        n = counters["commit"]
        op.update({
            "update": rng.random() < 0.85, "seed": rng.randint(0, 10**9), "uq": 100000 + 100 * n, "nops": rng.randint(1, 4),
            "rev": b"c32-%s-%d" % (b.encode(), n), "msg": rng.choice(["remote msg %d" % n, "multi\nline %d" % n, "ünï %d" % n]),
            "ts": 1600000000 + n * 1000, "tz": rng.choice([0, 3600, -18000]),
            "committer": rng.choice(["Joe <joe@example.com>", "Jürgen <j@example.org>"]),
        })
        if rng.random() < 0.25:
            others = [n2 for n2 in allnames if n2 != b]
            if others:
                op["merge"] = rng.choice(others)
    return op


def involved(op):
    return [op[k] for k in ("b", "into", "from", "to", "new", "merge", "stacked") if op.get(k)]


def op_json(op):
    out = {}
    for k, v in op.items():
        if isinstance(v, bytes):
            v = v.decode("latin-1")
        elif isinstance(v, (list, tuple)):
            v = [x.decode("latin-1") if isinstance(x, bytes) else x for x in v]
        out[k] = v
    return out


# ------------------------------------------------------------------ final local comparison

def check_repo_but(repo, ghost_refs):
    """observe.check_repo, minus the per-file parent complaints about revisions that were committed while one of their parents
    was a ghost: once that parent arrives (a fetch that fills the ghost, locally just as through the server) check() compares
    the per-file parents recorded at commit time with a revision graph the committer never saw."""
    problems = []
    try:
        with repo.lock_read():
            res = repo.check(None, check_repo=True)
    except Exception as e:
        return ["check raised %r" % (e,)]
    for attr in ("inconsistent_parents", "unreferenced_versions"):
        v = getattr(res, attr, None)
        if v and attr == "inconsistent_parents":
            v = [x for x in v if not (isinstance(x, tuple) and x and x[0] in ghost_refs)]
        if v:
            problems.append("%s=%r" % (attr, sorted(v)[:5] if hasattr(v, "__iter__") else v))
    for attr in ("missing_inventory_sha_cnt", "missing_revision_cnt"):
        v = getattr(res, attr, 0)
        if v:
            problems.append("%s=%r" % (attr, v))
    return problems


def final_state(side, names, conf_names, ghost_refs=()):
    """Everything the statement calls observable state, read through fresh LOCAL objects."""
    from breezy.branch import Branch

    out = {}
    for n in names:
        p = side.local_path(n)
        if not os.path.isdir(p):
            out[n] = "absent"
            continue
        try:
            b = Branch.open(p)
        except Exception as e:
            out[n] = "unopenable:" + type(e).__name__
            continue
        d = {}
        sb = snap_branch(b)
        d["branch"] = side.norm({"last": sb["last"], "tags": sb["tags"] if not isinstance(sb["tags"], dict) else
                                 sorted(sb["tags"].items()), "parent": sb["parent"], "bound": sb["bound"]})
        try:
            d["stacked"] = side.norm(b.get_stacked_on_url())
        except Exception as e:
            d["stacked"] = type(e).__name__
        d["locks"] = (b.get_physical_lock_status(), b.repository.get_physical_lock_status())
        st = b.get_config_stack()
        cv = []
        for c in conf_names:
            try:
                cv.append((c, st.get(c, expand=False)))
            except Exception as e:
                cv.append((c, "ERR:" + type(e).__name__))
        d["config"] = side.norm(cv)
        try:
            d["push_location"] = side.norm(st.get("push_location", expand=False))
        except Exception as e:
            d["push_location"] = "ERR:" + type(e).__name__
        sr = snap_repo(b.repository)
        d["revisions"] = sorted((r, tuple(v["parents"]), v.get("testament"), v.get("testament3"), v.get("testament_error"))
                                for r, v in sr["revisions"].items())
        d["keys"] = {k: (v if isinstance(v, str) else [tuple(x) for x in v]) for k, v in sr["keys"].items()}
        d["check"] = check_repo_but(b.repository, ghost_refs)
        try:
            with b.repository.lock_read():
                tk = b.repository.texts.keys()
                d["text_parents"] = sorted((k, tuple(v)) for k, v in b.repository.texts.get_parent_map(tk).items())
        except Exception as e:
            d["text_parents"] = "ERR " + type(e).__name__
        out[n] = d
    return out


def checkout_state(side):
    from breezy.workingtree import WorkingTree

    out = {}
    base = os.path.join(side.root, "co")
    if not os.path.isdir(base):
        return out
    for n in sorted(os.listdir(base)):
        p = os.path.join(base, n)
        try:
            wt = WorkingTree.open(p)
            side.tracked.append(wt.branch)
            with wt.lock_read():
                out[n] = (tuple(wt.get_parent_ids()), sorted(snap_disk(p).items()), sorted(str(c) for c in wt.conflicts()))
        except L.Stuck:
            raise
        except Exception as e:
            if L.is_stuck(e):
                raise L.Stuck(repr(e)) from e
            out[n] = "unopenable:" + type(e).__name__
    return out


# ------------------------------------------------------------------ workload construction

def plant_fillable_ghost(stage, names, rng):
    """Gives one served branch T a revision whose second parent R its repository does not hold (a ghost there) while another
    repository S holds R, and hands that referencing revision to S as well: a walk from S's revisions to the revisions
    common with T stops above R, only a ghost-finding fetch brings R to T."""
    from breezy.workingtree import WorkingTree

    served = [n for n in names if not n.startswith("x")]
    t = rng.choice(served)
    s = rng.choice([n for n in names if n != t])
    twt = WorkingTree.open(os.path.join(stage, "srv", t))
    swt = WorkingTree.open(os.path.join(stage, "ext" if s.startswith("x") else "srv", s))
    with twt.lock_read():
        trevs = set(twt.branch.repository.all_revision_ids())
    with swt.lock_read():
        cands = sorted(set(swt.branch.repository.all_revision_ids()) - trevs)
    if not cands or rng.random() < 0.3:
        gen._uniq[0] = 60000
        gen.random_delta(rng, swt, gen.Names("quick"), rng.randint(1, 2))
        swt.commit("filler", rev_id=b"c32-filler-1", timestamp=1551000000, timezone=0, committer="Fill <f@example.com>",
                   allow_pointless=True)
        cands.append(b"c32-filler-1")
    r = rng.choice(cands)
    gen._uniq[0] = 61000
    gen.random_delta(rng, twt, gen.Names("quick"), rng.randint(0, 2))
    twt.add_pending_merge(r)
    twt.commit("merges a revision held elsewhere", rev_id=b"c32-ghostref-1", timestamp=1552000000, timezone=0,
               committer="Ref <r@example.com>")
    swt.branch.repository.fetch(twt.branch.repository, revision_id=b"c32-ghostref-1")
    if rng.random() < 0.4 and twt.last_revision() != swt.last_revision():
        # S's branch moves on top of the referencing revision when that is a fast-forward
        try:
            swt.pull(twt.branch)
            gen._uniq[0] = 62000
            gen.random_delta(rng, swt, gen.Names("quick"), rng.randint(1, 2))
            swt.commit("on top", rev_id=b"c32-ontop-1", timestamp=1553000000, timezone=0, committer="Fill <f@example.com>",
                       allow_pointless=True)
        except Exception:
            pass
    return (t, s, r)


# ------------------------------------------------------------------ the case

def case(ctx):
    from breezy import errors
    from breezy.bzr.smart import request as _request
    from breezy.controldir import ControlDir

    rng = ctx.rng
    tier = ctx.tier
    # format x server mode are stratified over the case index (every format meets every mode in each run), the rest is random
    fmts = FORMATS_Q if tier == "quick" else FORMATS_T
    fmt = fmts[ctx.index % len(fmts)]
    mode = MODES[(ctx.index // len(fmts)) % len(MODES)]
    nrevs = rng.randint(3, 7) if tier == "quick" else rng.randint(3, 10)
    try:
        hist = gen.build_history(ctx, rng, fmt=fmt, nrevs=nrevs, nbranches=3, ghosts=(rng.random() < 0.3), merges=True,
                                 tags=(fmt != "knit"))
        stage = ctx.tmp("stage")
        shutil.copytree(hist.root, os.path.join(stage, "srv"), symlinks=True)
        os.mkdir(os.path.join(stage, "ext"))
        names = sorted(hist.trees)
        # a local-only branch related to a served one: older revision + own commit
        from breezy.workingtree import WorkingTree

        src = rng.choice(names)
        swt = WorkingTree.open(os.path.join(stage, "srv", src))
        with swt.lock_read():
            lh = list(swt.branch.repository.get_graph().iter_lefthand_ancestry(swt.last_revision(), (None, b"null:")))
        at = rng.choice(lh) if lh else None
        xcd = swt.branch.controldir.sprout(os.path.join(stage, "ext", "x0"), revision_id=at)
        xwt = xcd.open_workingtree()
        if rng.random() < 0.7:
            gen._uniq[0] = 50000
            gen.random_delta(rng, xwt, gen.Names("quick"), rng.randint(1, 3))
            xwt.commit("ext commit", rev_id=b"c32-ext-1", timestamp=1550000000, timezone=0, committer="Ext <x@example.com>")
            if rng.random() < 0.5 and xwt.branch._format.supports_tags():
                xwt.branch.tags.set_tag(rng.choice(TAGS), xwt.last_revision())
        names.append("x0")
        planted = None
        if rng.random() < 0.6 and fmt not in REPO_LOCK_FORMATS:
            # (between two knit repositories a local fetch always searches the whole ancestry - InterKnitRepo's
            # search_missing_revision_ids has no walk-to-common-revisions path - while the fetch into a served repository takes the
            # generic path that honours find_ghosts=False; the parameter leaves that latitude, so no fillable ghosts there)
            planted = plant_fillable_ghost(stage, names, rng)
        # served trees have working trees that the server never updates; drop them so both twins agree trivially
        for n in sorted(hist.trees):
            cd = ControlDir.open(os.path.join(stage, "srv", n))
            if cd.has_workingtree():
                cd.destroy_workingtree_metadata()
        base = ctx.tmp("twin")
        lroot, rroot = os.path.join(base, "L"), os.path.join(base, "R")
        shutil.copytree(stage, lroot, symlinks=True)
        shutil.copytree(stage, rroot, symlinks=True)
    except (errors.BzrError, OSError) as e:
        ctx.discard("setup:%s" % type(e).__name__)
        return

    nops = rng.randint(10, 14) if tier == "quick" else rng.randint(14, 22)
    disabled = []
    saved = []
    if mode == "verbs-off":
        disabled = rng.sample(FALLBACK_VERBS, rng.randint(1, 8))
    ctx.info = {"fmt": fmt, "mode": mode, "disabled_verbs": [v.decode() for v in disabled], "hist": hist.log[-40:], "program": []}
    ctx.hist("mode:" + mode)
    ctx.hist("format:" + fmt)
    # planned operations: every program contains one stale-lock episode, every history with a fillable ghost one aimed fetch
    plan = {rng.randrange(nops): "stale_lock"}
    if fmt in REPO_LOCK_FORMATS and rng.random() < 0.35:
        plan.setdefault(nops - 1, "lock_episode")
    if planted is not None:
        ctx.hist("history:fillable-ghost-planted")
        plan.setdefault(rng.randrange(nops), "ghost_fetch")
    server = None
    lside = rside = None
    stuck = None
    truncated = None
    env_set = False
    problems = []
    ghost_refs = set()
    lco = rco = {}
    try:
        for v in disabled:
            try:
                saved.append((v, _request.request_handlers.get(v), _request.request_handlers.get_info(v)))
                _request.request_handlers.remove(v)
            except KeyError:
                pass
        server = L.Server(os.path.join(rroot, "srv"))
        lside = L.Side("L", lroot)
        rside = L.Side("R", rroot, server.url)
        view = View(lside, names)
        # Stacked clones are not driven (stackable False): the server runs repository verbs on the repository without its
        # fallbacks, which gives a family of local/remote differences for revisions that live in the stacked-on repository
        # (has_signature, gather_stats, get_rev_id_for_revno, revision_id_to_revno ...); stacking belongs to C08.
        counters = {"sig": 0, "new": 0, "commit": 0, "stackable": False, "fmt": fmt}
        conf_used = set()
        # revisions committed with a ghost parent (in any of the starting repositories)
        for n in names:
            inf0 = view.info(n)
            ghost_refs.update(r for r, ps in inf0["pm"].items() if any(p in inf0["ghosts"] for p in ps))
        done = 0
        guard = 0
        while done < nops and guard < nops * 4:
            guard += 1
            view.invalidate()
            forced = plan.pop(done, None)
            counters["last_op"] = done == nops - 1
            op = gen_next(rng, view, tier, counters, forced=forced)
            if op is None:
                continue
            ctx.info["program"].append(op_json(op))
            kind = op["op"]
            if os.environ.get("C32_STOP_BEFORE") and done + 1 >= int(os.environ["C32_STOP_BEFORE"]):
                # debugging aid: keep the twins as they are before op N
                lside.close()
                rside.close()
                shutil.copytree(base, os.environ["C32_KEEP"], symlinks=True)
                import json as _json

                with open(os.path.join(os.environ["C32_KEEP"], "next_op.json"), "w") as fh:
                    _json.dump(op_json(op), fh)
                return
            touches_remote = any(lside.is_served(n) for n in involved(op))
            # remote side first, so that a needs-VFS refusal can end the program before the local twin moves
            if mode == "novfs":
                os.environ["BRZ_NO_SMART_VFS"] = "1"
                env_set = True
            try:
                rres = L.run_op(rside, op)
            except L.NeedsVfs as e:
                truncated = kind
                ctx.hist("novfs-needs-vfs:" + kind)
                break
            except L.Stuck as e:
                stuck = "op:%s:%s" % (kind, e)
                break
            finally:
                if env_set:
                    os.environ.pop("BRZ_NO_SMART_VFS", None)
                    env_set = False
            if rres[0] == "err" and rres[1] in L.CONNECTION_LOST and server.timeouts and not server.exceptions:
                stuck = "op:%s:server dropped an idle connection (client_timeout)" % kind
                break
            ghosts_before = view.info(op["into"])["ghosts"] if kind == "fetch" else None
            lres = L.run_op(lside, op)
            done += 1
            if op.get("new"):
                names.append(op["new"])
                view.names = list(names)
            if kind in ("conf_set", "conf_get", "conf_remove"):
                conf_used.add(op["name"])
            ctx.count("oracle_op_result")
            if touches_remote:
                ctx.count("remote_ops")
            ctx.hist("op:" + kind)
            if op.get("stacked"):
                ctx.hist("push_new:stacked:" + rres[0])
            outcome = lres[0] if lres[0] == "ok" else "err:" + lres[1]
            ctx.hist("outcome:" + outcome)
            if lres[0] == "err" or rres[0] == "err" or kind == "stale_lock":
                lside.handles.clear()
                rside.handles.clear()
            if kind == "stale_lock":
                ctx.count("oracle_stale_lock")
                ctx.hist("stale_lock:%s:%s" % (op["what"], "repo-lock-format" if fmt in REPO_LOCK_FORMATS else "pack-format"))
                if fmt in REPO_LOCK_FORMATS and op["what"] == "branch" and touches_remote:
                    ctx.count("stale_branch_lock_with_physical_repository_lock")
                if lres[0] == "ok":
                    for st in lres[1]:
                        if st[0] in op["attempts"]:
                            ctx.hist("stale_lock:%s:%s:%s" % (op["what"], st[0], st[2] if st[1] == "err" else "ok"))
            if kind == "fetch":
                ctx.hist("fetch:%s%s" % ("find_ghosts" if op.get("fg") else "plain", ":aimed" if op.get("aimed") else ""))
                if lres[0] == "ok" and ghosts_before is not None:
                    filled = [g for g in ghosts_before if g in dict(lres[1][1])]
                    if filled:
                        ctx.count("fetch_filled_a_ghost_locally")
                        ctx.hist("fetch:ghost-filled:%s" % ("find_ghosts" if op.get("fg") else "plain"))
            if kind in ("conf_set", "conf_remove", "push_loc_set", "parent_set"):
                # other handles of this branch may or may not have loaded branch.conf already: not comparable, reopen them
                # (the old Config API and set_parent write branch.conf behind the back of the handle's cached store)
                both = kind == "parent_set" or op.get("api") == "old"
                for sd in (lside, rside):
                    for sl in ("A", "B") + (("C",) if both else ()):
                        sd.drop(op["b"], sl)
            ctx.note((kind, op.get("lk"), op.get("slot"), outcome, fmt, mode, op.get("variant"), op.get("api")),
                     nontrivial=touches_remote,
                     sample={"op": op_json(op), "format": fmt, "mode": mode, "local": repr(lres)[:300], "remote": repr(rres)[:300]}
                     if ctx.index % 11 == 0 and done == 3 else None)
            if lres[:2] != rres[:2] or (lres[0] == "ok" and lres != rres):
                key = L.mechanism(kind, op, lres, rres)
                ctx.fail(key, "op %d %s (%s, %s): local %s / remote %s" % (done, kind, fmt, mode, repr(lres[:3])[:400], repr(rres[:3])[:400]),
                         {"op": op_json(op), "local": repr(lres[:3])[:3000], "remote": repr(rres[:3])[:3000],
                          "local_tb": lres[3] if lres[0] == "err" else None, "remote_tb": rres[3] if rres[0] == "err" else None,
                          "server_exceptions": list(server.exceptions), "server_timeouts": len(server.timeouts)})
                # the twins may have diverged: nothing after this point can be judged
                ctx.hist("program-abandoned-after-mismatch")
                return
            # every handle is unlocked between operations: a lock directory still held on disk now was left behind
            ctx.count("oracle_disk_locks")
            lheld, rheld = L.held_locks(lside), L.held_locks(rside)
            if lheld:
                ctx.hist("disk-locks-held-after-op:both-twins" if lheld == rheld else "disk-locks-held-after-op:local")
            if lheld != rheld:
                only_r = [x for x in rheld if x not in lheld]
                only_l = [x for x in lheld if x not in rheld]
                which = sorted({x.split("/.bzr/")[-1].split("/")[0] for x in only_r + only_l})
                ctx.fail("disk-locks:%s:%s-lock-left-held:%s" % (kind, "+".join(which), "served-twin" if only_r and not only_l
                                                                 else "local-twin" if only_l and not only_r else "both"),
                         "op %d %s (%s, %s): lock directories held on disk after the operation: only on the served twin %r, "
                         "only on the local twin %r" % (done, kind, fmt, mode, only_r, only_l),
                         {"op": op_json(op), "local": repr(lres[:3])[:2000], "remote": repr(rres[:3])[:2000]})
                ctx.hist("program-abandoned-after-mismatch")
                return
        ctx.distinct("programs", [p["op"] for p in ctx.info["program"]])
        if stuck is None and (truncated is None or truncated not in L.MUTATING):
            try:
                lco, rco = checkout_state(lside), checkout_state(rside)
            except L.Stuck as e:
                stuck = "checkout:%s" % e
        if stuck is None:
            lside.close()
            rside.close()
    finally:
        os.environ.pop("BRZ_NO_SMART_VFS", None)
        for s in (lside, rside):
            if s is not None:
                try:
                    s.close()
                except BaseException:
                    pass
        if server is not None:
            problems = server.stop()
        for v, obj, info in saved:
            try:
                _request.request_handlers.register(v, obj, info=info)
            except Exception:
                pass
    if problems:
        for p in problems:
            ctx.hist("inconclusive:" + p.split(":")[0])
            ctx.count("inconclusive_" + p.split(":")[0].replace("-", "_"))
        stuck = stuck or problems[0]
    else:
        ctx.count("server_stopped_clean")
    if stuck is not None:
        ctx.hist("inconclusive:stuck")
        ctx.count("inconclusive_cases")
        ctx.info["inconclusive"] = str(stuck)[:300]
        if os.environ.get("C32_DEBUG"):
            print("INCONCLUSIVE case %d: %s" % (ctx.index, stuck), flush=True)
            if os.path.isdir(os.environ["C32_DEBUG"]):
                import json as _json

                with open(os.path.join(os.environ["C32_DEBUG"], "inconclusive-%d-%d.json" % (ctx.seed, ctx.index)), "w") as fh:
                    _json.dump({"stuck": str(stuck), "info": ctx.info, "server_exceptions": list(server.exceptions) if server else None},
                               fh, default=repr)
        return
    if truncated is not None and truncated in L.MUTATING:
        ctx.hist("novfs-truncated-mutating:no-final-compare")
        return

    # ---- final comparison, read locally from both twins with fresh objects
    lf = final_state(lside, names, sorted(conf_used | {"vf_opt"}), ghost_refs)
    rf = final_state(rside, names, sorted(conf_used | {"vf_opt"}), ghost_refs)
    for n in names:
        a, b = lf[n], rf[n]
        served = lside.is_served(n)
        if isinstance(a, str) or isinstance(b, str):
            ctx.count("oracle_final_branch")
            ctx.check(a == b, "final:branch-presence", "%s: local %r remote %r" % (n, a if isinstance(a, str) else "present",
                                                                                    b if isinstance(b, str) else "present"))
            continue
        ctx.count("oracle_final_branch")
        for part, key in (("branch", "final:branch-differs"), ("stacked", "final:stacked-differs"), ("locks", "final:lock-left-behind"),
                          ("push_location", "final:push-location-differs")):
            ctx.check(a[part] == b[part], key, "%s (%s, %s) %s: local %r remote %r" % (n, fmt, mode, part, a[part], b[part]),
                      {"name": n})
        ctx.count("oracle_final_config")
        ctx.check(a["config"] == b["config"], "final:config-differs", "%s: local %r remote %r" % (n, a["config"], b["config"]),
                  {"name": n})
        ctx.count("oracle_final_repo")
        if a["revisions"] != b["revisions"]:
            la, lb = dict((x[0], x) for x in a["revisions"]), dict((x[0], x) for x in b["revisions"])
            if set(la) != set(lb):
                ctx.fail("final:revision-set-differs", "%s (%s, %s): only local %r only remote %r" % (
                    n, fmt, mode, sorted(set(la) - set(lb))[:5], sorted(set(lb) - set(la))[:5]), {"name": n})
            else:
                bad = [r for r in la if la[r] != lb[r]]
                ctx.fail("final:testament-differs", "%s (%s, %s): %r" % (n, fmt, mode, [(la[r], lb[r]) for r in bad[:2]]), {"name": n})
        for kn in sorted(set(a["keys"]) | set(b["keys"])):
            ka, kb = a["keys"].get(kn), b["keys"].get(kn)
            if ka != kb:
                if isinstance(ka, list) and isinstance(kb, list):
                    sa, sb_ = set(ka), set(kb)
                    ctx.fail("final:keys-differ:%s" % kn, "%s (%s, %s): only local %r only remote %r" % (
                        n, fmt, mode, sorted(sa - sb_)[:4], sorted(sb_ - sa)[:4]), {"name": n})
                else:
                    ctx.fail("final:keys-differ:%s" % kn, "%s: %r / %r" % (n, str(ka)[:200], str(kb)[:200]), {"name": n})
        ctx.count("oracle_final_check")
        ctx.check(not a["check"], "final:check-unclean:local", "%s (%s): %r" % (n, fmt, a["check"]), {"name": n})
        if a["text_parents"] != b["text_parents"] and a["keys"].get("texts") == b["keys"].get("texts"):
            ta, tb = dict(a["text_parents"]), dict(b["text_parents"])
            bad = sorted(k for k in ta if ta[k] != tb.get(k))
            ctx.fail("final:per-file-parents-differ", "%s (%s, %s): %r" % (n, fmt, mode, [(k, ta[k], tb.get(k)) for k in bad[:3]]),
                     {"name": n, "remote_check": b["check"]})
        elif b["check"]:
            ctx.fail("final:check-unclean:remote", "%s (%s, %s): %r" % (n, fmt, mode, b["check"]), {"name": n})
        ctx.distinct("end_states", (a["branch"], a["revisions"]))
    if lco or rco:
        ctx.count("oracle_final_checkout")
        if lco != rco:
            for n in sorted(set(lco) | set(rco)):
                if lco.get(n) != rco.get(n):
                    ctx.fail("final:checkout-differs", "checkout of %s (%s, %s): local %r remote %r" % (
                        n, fmt, mode, repr(lco.get(n))[:600], repr(rco.get(n))[:600]), {"name": n})
    ctx.note(("final", fmt, mode, len(names), truncated), nontrivial=True)
