"""C12 - tree-changing commands never silently discard uncommitted work.

Conservation checker over real command objects (cmd_revert / cmd_remove / cmd_merge /
cmd_pull / cmd_update / cmd_switch / cmd_uncommit, run through run_argv_aliases):

  before the command:  U = user-edited contents in the tree directory (regular files whose bytes
                       differ from the basis version of the same file id, or that are added /
                       unknown / ignored), minus contents recorded in merge_modified with the
                       current sha, minus helper files of recorded conflicts, and restricted to
                       byte strings the harness itself wrote as uncommitted edits (provenance);
  after the command:   every u in U is still the content of some file under the tree root
                       (same path, x.~N~, x.THIS, x.moved, anywhere), or the file of the same id
                       holds a clean three-way merge of u with the incoming change (reference:
                       the merge3 library over the base/other texts the real mergers were given),
                       or the user explicitly asked to destroy that path (--no-backup on a
                       selected path); `remove --keep` and `uncommit` change no file at all.
"""
import hashlib
import os
import re
import shutil

from vf import gen, observe

ID = "C12"
LEVEL = "exploration"
TECHNIQUE = ("content-conservation monitor around real command objects; clean-merge subsumption decided by the merge3 library "
             "on the base/other texts observed at Merge3Merger.do_merge")
LEVEL_TEXT = ("on generated multi-branch histories with uncommitted modified / added / unknown / kind-changed / merge-written / conflicted files, "
              "each of revert, remove, merge, pull, update, switch, uncommit is run through its command object with random options and file "
              "selections; every user-edited byte string present before must be found afterwards (file, backup, conflict helper, clean merge) "
              "unless destruction of that path was requested")
RULE = ("scenario = generated history (2-3 branches, merges) + optional uncommitted merge + 2-7 random working-tree ops (+ hostile backup-like names) "
        "+ one command with random options/paths, 1-2 commands per tree copy, 5 copies per history; evaluation = one command judged; "
        "non-trivial = at least one non-empty user-edited content was at stake; distinct = command + option class + classes of contents at stake + outcomes")
CASES = {"quick": 160, "thorough": 3000}
BUDGET_S = {"quick": 35, "thorough": 600}
# floors are sized for a heavily loaded shared machine (a case costs ~0.6 s alone, >10 s under load 100)
MIN_EVALS = {"quick": 60, "thorough": 1500}
FLOORS = {
    "quick": {"conservation": 60, "u_checked": 100, "cmd_revert": 10, "cmd_remove": 6, "cmd_merge": 10, "cmd_pull": 2, "cmd_update": 2,
              "cmd_switch": 2, "cmd_uncommit": 2, "uncommit_disk_identical": 2, "merge_observed": 10, "conserved_backup": 5,
              "conserved_clean_merge": 1, "conserved_conflict_helper": 2, "switch_store_second_checkout": 1, "rename_only_merge": 1},
    "thorough": {"conservation": 1500, "u_checked": 2500, "cmd_revert": 300, "cmd_remove": 200, "cmd_merge": 250, "cmd_pull": 50,
                 "cmd_update": 50, "cmd_switch": 50, "cmd_uncommit": 50, "uncommit_disk_identical": 50, "merge_observed": 250,
                 "conserved_backup": 150, "conserved_clean_merge": 25, "conserved_conflict_helper": 25, "switch_store_second_checkout": 15, "rename_only_merge": 20},
}
ASSUMPTIONS = [
    "bzr (2a, dirstate) trees only: the oracle keys user content to file ids; git trees are not driven",
    "user content = byte strings written by the harness as uncommitted edits in the tree under test (provenance filter) that the statement's state-based "
    "definition also classifies as user-edited; helper files (x.BASE/.THIS/.OTHER) of conflicts recorded by an earlier merge count as written by that merge",
    "set semantics on contents: one surviving copy of a byte string conserves it; empty contents are trivial",
    "clean-merge subsumption: result must equal a conflict-free merge3 (library, patience or difflib matcher, cherrypick or not) of (base | any LCA, user text, other) "
    "chained over the mergers the command actually ran; for --weave/--lca merges only: every line the user inserted is still present in order",
    "switch --store is an explicit request to stash, but only when the command succeeds: a refused or crashed switch --store must keep every content in the tree; "
    "after a successful one the round trip (switch --store back to the branch holding the stash) must bring every versioned content back "
    "(unversioned files that were re-versioned by shelving an unversion are recorded, not judged)",
    "a documented refusal (BzrError) or an internal error of the command is not itself judged; the conservation oracle is applied to whatever state it left",
]

_BACKUP_RE = re.compile(r"\.~\d+~$")

# ------------------------------------------------------------------ instrumentation

_REC = {"on": False, "watch": (), "mergers": []}
_installed = []


def _text_by_id(tree, fid):
    """bytes of the file with id fid in tree, or None (absent / not a file)."""
    try:
        with tree.lock_read():
            try:
                p = tree.id2path(fid)
            except Exception:
                return None
            if p is None:
                return None
            try:
                if tree.kind(p) != "file":
                    return None
                return tree.get_file_text(p)
            except Exception:
                return None
    except Exception:
        return None


def worker_init(tier):
    from breezy import merge as _m

    if _installed:
        return
    orig = _m.Merge3Merger.do_merge

    def do_merge(self):
        if _REC["on"]:
            rec = {"type": type(self).__name__, "cherrypick": bool(getattr(self, "cherrypick", False)), "texts": {}}
            lcas = list(getattr(self, "_lca_trees", None) or [])
            for fid in _REC["watch"]:
                try:
                    rec["texts"][fid] = (_text_by_id(self.base_tree, fid), _text_by_id(self.other_tree, fid),
                                         [_text_by_id(t, fid) for t in lcas])
                except Exception:
                    pass
            _REC["mergers"].append(rec)
        return orig(self)

    _m.Merge3Merger.do_merge = do_merge
    _installed.append(orig)


# ------------------------------------------------------------------ reference: clean three-way merges

def _clean_merges(base, this, other):
    """Set of conflict-free merge3 results of (base, this, other) over matcher / cherrypick variants."""
    from merge3 import Merge3
    import patiencediff

    out = set()
    bl, tl, ol = base.splitlines(True), this.splitlines(True), other.splitlines(True)
    for cherry in (False, True):
        for sm in (None, patiencediff.PatienceSequenceMatcher):
            try:
                m3 = Merge3(bl, tl, ol, is_cherrypick=cherry, sequence_matcher=sm)
                groups = list(m3.merge_groups())
            except Exception:
                continue
            if any(g[0] == "conflict" for g in groups):
                continue
            out.add(b"".join(b"".join(g[1]) for g in groups))
    return out


_DELETED = object()


def _closure(u, fid, mergers):
    """Contents the file may hold after the recorded mergers ran cleanly on it, starting from u."""
    S = {u}
    for rec in mergers:
        t = rec["texts"].get(fid)
        if t is None:
            continue
        base, other, lcas = t
        if other is None:
            # OTHER has no such file: if the user's text equals the merge base (or an LCA) the user side is "unchanged"
            # for this merge and the clean three-way result is OTHER's deletion
            if any(b is not None and b in S for b in [base] + list(lcas)):
                S.add(_DELETED)
            continue
        bases = [base if base is not None else b""] + [x for x in lcas if x is not None]
        for s in list(S):
            if s is _DELETED:
                continue
            for b in bases:
                S |= _clean_merges(b, s, other)
    return S


def _inserted_lines(u, basis_text):
    import difflib

    a = (basis_text or b"").splitlines(True)
    b = u.splitlines(True)
    out = []
    for tag, i1, i2, j1, j2 in difflib.SequenceMatcher(None, a, b, autojunk=False).get_opcodes():
        if tag in ("insert", "replace"):
            out.extend(b[j1:j2])
    return out


def _is_subsequence(needle, hay):
    it = iter(hay)
    return all(any(x == y for y in it) for x in needle)


# ------------------------------------------------------------------ state observation

def _sha(b):
    return hashlib.sha1(b).hexdigest().encode()


def _inside_any(path, sel):
    return any(s == "" or path == s or path.startswith(s + "/") for s in sel)


def user_contents(wt, pool, unwritten=None):
    """The statement's 'user-edited content' of the tree right now.

    Returns (U, excluded_hist): U = list of dicts {path, fid, cls, content, basis_path, basis_text}."""
    disk = observe.snap_disk(wt.basedir)
    U, excl = [], {}
    with wt.lock_read():
        basis = wt.basis_tree()
        with basis.lock_read():
            try:
                mm = dict(wt.merge_modified())
            except Exception:
                mm = {}
            helpers = set()
            helper_basenames = set()
            try:
                for c in wt.conflicts():
                    try:
                        names = list(c.associated_filenames())
                    except NotImplementedError:
                        continue
                    helpers.update(names)
                    # the directory that held the conflicted file may have been renamed (and the file moved out of it):
                    # the helper files stay in that directory under its new name, so recognise them by basename too
                    helper_basenames.update(n.rpartition("/")[2] for n in names)
                    # the conflicted file (or its directory) may have been renamed since: the helper files moved with the
                    # directory, and resolve() finds them again once revert has moved things back
                    fid_c = getattr(c, "file_id", None)
                    cur = None
                    if fid_c:
                        try:
                            cur = wt.id2path(fid_c)
                        except Exception:
                            cur = None
                    if cur is not None and cur != c.path:
                        cd, _, cb = cur.rpartition("/")
                        ob = c.path.rpartition("/")[2]
                        for n in names:
                            suffix = n[len(c.path):]
                            helpers.add(cur + suffix)
                            helpers.add((cd + "/" if cd else "") + ob + suffix)
            except Exception:
                pass
            for path in sorted(disk):
                kind, content, _ex = disk[path]
                if kind != "file":
                    continue
                fid = wt.path2id(path)
                bpath = btext = None
                at_basis_path = False
                if fid is None:
                    cls = "ignored" if wt.is_ignored(path) else "unknown"
                    at_basis_path = bool(basis.is_versioned(path))
                else:
                    try:
                        bpath = basis.id2path(fid)
                    except Exception:
                        bpath = None
                    if bpath is None:
                        cls = "added"
                    elif basis.kind(bpath) != "file":
                        cls = "kindchanged"
                    else:
                        btext = basis.get_file_text(bpath)
                        if btext == content:
                            continue
                        cls = "modified"
                        if bpath != path:
                            cls = "modified+renamed"
                why = None
                mm_unwritten = False
                if content not in pool:
                    why = "not-written-by-user-phase"
                elif fid is not None and mm.get(path) == _sha(content):
                    if unwritten and (fid, content) in unwritten:
                        # merge_modified lists it, but these very bytes were the user's own text before the merge-like
                        # command(s) ran and no merger since had an incoming content change for this file: the merge
                        # did not write this content, it stays user work
                        mm_unwritten = True
                        excl["(kept) merge-modified-lists-user-text-the-merge-did-not-write"] = excl.get(
                            "(kept) merge-modified-lists-user-text-the-merge-did-not-write", 0) + 1
                    else:
                        why = "merge-modified-current-sha"
                elif path in helpers or ((fid is None or cls == "added") and path.rpartition("/")[2] in helper_basenames):
                    # (a helper file the user has `add`ed is still the helper file resolve() cleans up once revert has
                    # moved its directory back: thorough seed 1 case 2821)
                    why = "conflict-helper-of-earlier-merge"
                if why:
                    excl[why] = excl.get(why, 0) + 1
                    continue
                U.append({"path": path, "fid": fid, "cls": cls, "content": content, "basis_path": bpath, "basis_text": btext,
                          "at_basis_path": at_basis_path, "mm_unwritten": mm_unwritten})
    return U, excl


# ------------------------------------------------------------------ history

W_HIST = {"mkfile": 6, "mkdir": 3, "symlink": 1, "add": 12, "edit": 10, "chmod": 2, "rename": 4,
          "remove": 3, "unversion": 1, "delete_disk": 0, "kindchange": 1}
W_USER = {"mkfile": 5, "mkdir": 2, "symlink": 1, "add": 6, "edit": 14, "chmod": 1, "rename": 3,
          "remove": 1, "unversion": 1, "delete_disk": 1, "kindchange": 1}

_seq = [0]


def _long_text(rng, tag):
    _seq[0] += 1
    n = rng.randint(8, 16)
    return b"".join(b"%s-%d-l%d\n" % (tag.encode(), _seq[0], i) for i in range(n))


def _edit_far(rng, text, tag):
    """Change one line of a long text (keeps the others) so parallel edits often merge cleanly."""
    _seq[0] += 1
    lines = text.splitlines(True)
    if not lines:
        return b"%s-%d\n" % (tag, _seq[0])
    i = rng.randrange(len(lines))
    r = rng.random()
    new = b"%s-%d-%d\n" % (tag, _seq[0], rng.randint(0, 10 ** 6))
    if r < 0.6:
        lines[i] = new
    elif r < 0.85:
        lines.insert(i, new)
    else:
        del lines[i]
    return b"".join(lines)


def _seeded_history(ctx, rng, names, nrevs, nbranches):
    """History whose first commit carries a few long files so that later parallel edits can merge cleanly."""
    from breezy import errors
    from breezy.branch import Branch
    from breezy.workingtree import WorkingTree

    root = ctx.tmp("hist")
    h = gen.Hist(root, "2a")
    p0 = os.path.join(root, "b0")
    wt = gen.make_tree(p0, "2a")
    h.trees["b0"] = p0
    seeds = []
    os.mkdir(os.path.join(p0, "lib"))
    wt.add(["lib"], ids=[b"seed-lib"])
    for k, nm in enumerate(rng.sample(["long1", "long2", "lib/long3", "lib/long4", "pct%41", "lib/100%25"], rng.randint(2, 4))):
        with open(os.path.join(p0, nm), "wb") as f:
            f.write(_long_text(rng, nm.replace("/", "_")))
        wt.add([nm], ids=[("seed-%d" % k).encode()])
        seeds.append(nm)
    gen.random_delta(rng, wt, names, rng.randint(1, 4), W_HIST, h.log)
    gen.commit(h, "b0", wt, rng)
    guard = 0
    while len(h.order) < nrevs and guard < nrevs * 6:
        guard += 1
        r = rng.random()
        bnames = sorted(h.trees)
        if (r < 0.2 or (len(h.order) >= 2 and len(h.trees) == 1)) and len(h.trees) < nbranches:
            src = rng.choice(bnames)
            nn = "b%d" % len(h.trees)
            np_ = os.path.join(root, nn)
            WorkingTree.open(h.trees[src]).branch.controldir.sprout(np_)
            h.trees[nn] = np_
            continue
        name = rng.choice(bnames)
        wt = WorkingTree.open(h.trees[name])
        if r < 0.4 and len(h.trees) > 1:
            other = rng.choice([b for b in bnames if b != name])
            ob = Branch.open(h.trees[other])
            with wt.lock_read():
                already = wt.branch.repository.get_graph().is_ancestor(ob.last_revision(), wt.last_revision())
            if already:
                continue
            try:
                with wt.lock_write():
                    wt.merge_from_branch(ob)
            except errors.BzrError:
                wt = WorkingTree.open(h.trees[name])
                wt.revert()
                continue
            gen.resolve_all(wt)
            try:
                gen.commit(h, name, wt, rng)
            except errors.BzrError:
                wt.revert()
            continue
        # a commit: far-apart edits of seed files + a random delta
        for nm in seeds:
            ap = os.path.join(wt.basedir, nm)
            if rng.random() < 0.6 and os.path.isfile(ap) and not os.path.islink(ap):
                with open(ap, "rb") as f:
                    old = f.read()
                with open(ap, "wb") as f:
                    f.write(_edit_far(rng, old, name.encode()))
        gen.random_delta(rng, wt, names, rng.randint(0, 3), W_HIST, h.log)
        try:
            gen.commit(h, name, wt, rng)
        except errors.BzrError:
            pass
    return h


def _history(ctx, rng, names):
    nrevs = rng.randint(4, 8) if ctx.tier == "quick" else rng.randint(4, 12)
    nb = rng.randint(2, 3)
    if rng.random() < 0.3:
        h = gen.build_history(ctx, rng, "2a", nrevs=nrevs, nbranches=nb, names=names, weights=W_HIST, tags=rng.random() < 0.3)
        if len(h.trees) < 2:
            from breezy.workingtree import WorkingTree

            np_ = os.path.join(h.root, "b1")
            WorkingTree.open(h.trees["b0"]).branch.controldir.sprout(np_)
            h.trees["b1"] = np_
            wt = WorkingTree.open(np_)
            gen.random_delta(rng, wt, names, 3, W_HIST, h.log)
            try:
                gen.commit(h, "b1", wt, rng)
            except Exception:
                pass
        return h, "build_history"
    return _seeded_history(ctx, rng, names, nrevs, nb), "seeded"


# ------------------------------------------------------------------ scenario machinery

class Scn:
    """One copy of the history on which 1-2 commands are run and judged."""

    def __init__(self, ctx, rng, root, trees, names):
        self.ctx, self.rng, self.root, self.names = ctx, rng, root, names
        self.trees = dict(trees)  # name -> abs path inside this copy
        self.pool = set()  # byte strings written as uncommitted user edits in the tree under test
        # (fid, bytes) that were user content before a command whose mergers brought no content change for that file
        self.unwritten = set()
        self.log = []

    def wt(self, path):
        from breezy.workingtree import WorkingTree

        return WorkingTree.open(path)

    # -- user edit phase
    def user_edits(self, path, nops=None, hostile=True):
        rng = self.rng
        wt = self.wt(path)
        lg = []
        n = rng.randint(2, 7) if nops is None else nops
        gen.random_delta(rng, wt, self.names, n, W_USER, lg)
        for op in lg:
            if op.get("op") in ("mkfile", "edit") or (op.get("op") == "kindchange" and op.get("kind") == "file"):
                self.pool.add(op["content"].encode("latin-1"))
        self.log.extend(lg)
        # far-apart edits of long versioned files (clean merges need them)
        wt = self.wt(path)
        longs = []
        with wt.lock_read():
            for p, ie in wt.iter_entries_by_dir():
                if ie.kind == "file" and p:
                    ap = wt.abspath(p)
                    if os.path.isfile(ap) and not os.path.islink(ap) and os.path.getsize(ap) > 60:
                        longs.append(p)
        for p in longs:
            if rng.random() < 0.5:
                ap = os.path.join(path, p)
                with open(ap, "rb") as f:
                    old = f.read()
                new = _edit_far(rng, old, b"user")
                with open(ap, "wb") as f:
                    f.write(new)
                self.pool.add(new)
                self.log.append({"op": "edit-far", "path": p})
        if hostile and rng.random() < 0.35:
            self._hostile_names(path)

    def _hostile_names(self, path):
        """Unknown files whose names look like backups / conflict helpers of existing files."""
        rng = self.rng
        disk = observe.snap_disk(path)
        files = sorted(p for p, v in disk.items() if v[0] == "file")
        if not files:
            return
        special = [p for p in files if any(ch in p for ch in "%#?") or not p.isascii()]
        for _ in range(rng.randint(1, 2)):
            base = rng.choice(special) if special and rng.random() < 0.6 else rng.choice(files)
            suffix = rng.choice([".~1~", ".~1~", ".~2~", ".moved", ".THIS", ".OTHER", ".BASE", ".new"])
            p = base + suffix
            ap = os.path.join(path, p)
            if os.path.lexists(ap):
                continue
            _seq[0] += 1
            data = b"precious-%d-%d\n" % (_seq[0], rng.randint(0, 10 ** 6))
            with open(ap, "wb") as f:
                f.write(data)
            self.pool.add(data)
            self.log.append({"op": "hostile-unknown", "path": p})

    def edit_merge_written(self, path):
        """User edits a file that an earlier merge wrote (merge_modified sha no longer current)."""
        rng = self.rng
        wt = self.wt(path)
        with wt.lock_read():
            mm = sorted(wt.merge_modified())
        for p in mm:
            ap = os.path.join(path, p)
            if rng.random() < 0.5 and os.path.isfile(ap) and not os.path.islink(ap):
                with open(ap, "rb") as f:
                    old = f.read()
                new = _edit_far(rng, old, b"postmerge")
                with open(ap, "wb") as f:
                    f.write(new)
                self.pool.add(new)
                self.log.append({"op": "edit-merge-written", "path": p})

    # -- running and judging one command
    def run(self, family, cls, argv, tree_path, cwd=None, asked=None, merge_like=False, expect_disk_identical=None, optclass="", keyfn=None):
        """Run cmd cls(argv) and apply the conservation oracle on tree_path.

        asked(u) -> True if the user explicitly requested destruction of that content's path."""
        from breezy import errors
        from breezy import ui as _ui

        ctx = self.ctx
        wt = self.wt(tree_path)
        U, excl = user_contents(wt, self.pool, self.unwritten)
        for k, v in excl.items():
            ctx.hist("excluded:" + k, v)
        before = observe.snap_disk(tree_path)
        del wt
        _REC["mergers"] = []
        _REC["watch"] = tuple(sorted({u["fid"] for u in U if u["fid"] is not None}))
        _REC["on"] = True
        self.log.append({"cmd": family, "argv": list(argv), "cwd": os.path.relpath(cwd or tree_path, self.root)})
        ctx.info["scenario"] = self.log
        old = os.getcwd()
        os.chdir(cwd or tree_path)
        outcome = "ok"
        try:
            try:
                from breezy import option as _option

                _option._verbosity_level = 0  # run_bzr() does this; a -v of an earlier in-process command must not leak
                cmd = cls()
                # the silent UI's null stream has encoding None, which some commands pass on (update, pull)
                cmd._setup_outf = lambda: setattr(cmd, "outf", _ui.NullOutputStream("utf-8"))
                ret = cmd.run_argv_aliases(list(argv))
                outcome = "ok" if not ret else "ret%s" % ret
            except errors.BzrError as e:
                outcome = "refused:" + type(e).__name__
            except (KeyboardInterrupt, SystemExit):
                raise
            except Exception as e:
                outcome = "crash:" + type(e).__name__
                if os.environ.get("C12_DEBUG"):
                    import traceback

                    print("CRASH", family, argv, self.log[-8:])
                    traceback.print_exc()
                ctx.hist("crash:%s:%s:%s" % (family, type(e).__name__, str(e)[:60]))
        finally:
            os.chdir(old)
            _REC["on"] = False
        mergers = _REC["mergers"]
        ctx.count("cmd_" + family)
        ctx.hist("outcome:%s:%s" % (family, outcome))
        if mergers:
            ctx.count("merge_observed", len(mergers))
            for m in mergers:
                ctx.hist("merger:" + m["type"])
        after = observe.snap_disk(tree_path)
        self.last_outcome = outcome
        # which user contents did the mergers of this command certainly NOT rewrite?  (base text == other text == every LCA text)
        for u in U:
            if u["fid"] is None:
                continue
            key = (u["fid"], u["content"])
            touched = False
            for rec in mergers:
                t = rec["texts"].get(u["fid"])
                if t is None:
                    touched = True
                    break
                base, other, lcas = t
                if other != base or any(x != base for x in lcas):
                    touched = True
                    break
            if mergers and not touched:
                self.unwritten.add(key)
            elif touched:
                self.unwritten.discard(key)
        self.judge(family, optclass, U, before, after, mergers, tree_path, asked, merge_like, expect_disk_identical, outcome, argv, keyfn)
        return outcome

    def judge(self, family, optclass, U, before, after, mergers, tree_path, asked, merge_like, expect_identical, outcome, argv, keyfn=None):
        ctx = self.ctx
        ctx.count("conservation")
        after_contents = {}
        for p, v in after.items():
            if v[0] == "file":
                after_contents.setdefault(v[1], []).append(p)
        if expect_identical:
            ctx.count(expect_identical)
            if before != after:
                diff = sorted(p for p in set(before) | set(after) if before.get(p) != after.get(p))
                ctx.fail("%s:disk-changed" % expect_identical.replace("_disk_identical", ""),
                         "%s %r changed files on disk: %r" % (family, argv, diff[:6]),
                         {"changed": diff[:20], "argv": list(argv), "outcome": outcome})
        wt_after = None
        results = []
        for u in U:
            c = u["content"]
            ctx.count("u_checked")
            if not c:
                results.append((u["cls"], "trivial-empty"))
                continue
            where = None
            if c in after_contents:
                ps = after_contents[c]
                if u["path"] in ps:
                    where = "same-path"
                elif any(_BACKUP_RE.search(p) for p in ps):
                    where = "backup"
                    ctx.count("conserved_backup")
                elif any(p.endswith(".THIS") for p in ps):
                    where = "conflict-helper"
                    ctx.count("conserved_conflict_helper")
                elif any(".moved" in p for p in ps):
                    where = "moved"
                else:
                    where = "elsewhere"
            if where is None and mergers and u["fid"] is not None:
                # subsumed by a clean three-way merge?
                if wt_after is None:
                    try:
                        wt_after = self.wt(tree_path)
                    except Exception:
                        wt_after = False
                cands = []
                if wt_after:
                    t = _text_by_id(wt_after, u["fid"])
                    if t is not None:
                        cands.append(t)
                v = after.get(u["path"])
                if v and v[0] == "file":
                    cands.append(v[1])
                S = _closure(c, u["fid"], mergers)
                if _DELETED in S and not cands:
                    where = "clean-merge-deletion-user-text-equals-base"
                    ctx.count("conserved_clean_merge")
                elif any(t in S for t in cands):
                    where = "clean-merge"
                    ctx.count("conserved_clean_merge")
                elif any(t in after_contents for t in S if t is not _DELETED):
                    # the clean merge result sits in a file that the tree does not (yet) connect to this id, e.g. the
                    # command died between moving files and updating the inventory (C13's subject, not a loss of content)
                    where = "clean-merge-elsewhere"
                    ctx.count("conserved_clean_merge")
                elif any(m["type"] in ("WeaveMerger", "LCAMerger") for m in mergers):
                    ins = _inserted_lines(c, u["basis_text"])
                    if any(_is_subsequence(ins, t.splitlines(True)) for t in cands):
                        where = "plan-merge-lines-kept"
                    else:
                        # the statement speaks of "the clean three-way merge": what a weave / lca plan merge makes of the
                        # local and incoming changes is not defined by it; recorded, not judged (thorough seed 3 case 2667)
                        where = "plan-merge-result-not-judged"
                        ctx.hist("plan-merge-result-not-judged")
            if where is None and asked is not None and asked(u):
                where = "destroyed-on-request"
            if where is None:
                # mechanism: was the file overwritten by another pre-existing file that the command moved onto its name (backup naming)?
                mech = "lost"
                bn = u["path"].rpartition("/")[2]
                for q, v in after.items():
                    # a file that carried another name before now sits under this file's name (possibly in a renamed directory)
                    if v[0] == "file" and q.rpartition("/")[2] == bn and before.get(q) != v:
                        srcs = [bp for bp, bv in before.items() if bv[0] == "file" and bv[1] == v[1]]
                        if srcs and all(bp.rpartition("/")[2] != bn for bp in srcs) and all(after.get(bp) != before[bp] for bp in srcs):
                            mech = "overwritten-by-moved-file"
                            break
                if mech == "lost":
                    if u.get("mm_unwritten"):
                        key = "%s:lost:user-text-listed-in-merge-modified-but-not-written-by-the-merge" % family
                    else:
                        key = "%s:lost:%s" % (family, (keyfn(u) if keyfn else None) or u["cls"].split("+")[0])
                else:
                    key = "%s:%s" % (family, mech)
                ctx.fail(key, "%s %r: user-edited content of %s file %r is in no file of the tree afterwards (outcome %s)" % (
                    family, list(argv), u["cls"], u["path"], outcome),
                    {"path": u["path"], "class": u["cls"], "content": c.decode("latin-1")[:300], "argv": list(argv), "outcome": outcome,
                     "after_paths": sorted(after)[:40], "mergers": [m["type"] for m in mergers]})
                where = "LOST"
            results.append((u["cls"], where))
            ctx.hist("u:%s:%s:%s" % (family, u["cls"], where))
        nontrivial = any(w != "trivial-empty" for _c, w in results)
        ctx.note((family, optclass, sorted(set(results)), outcome.split(":")[0]), nontrivial=nontrivial,
                 sample={"command": family, "argv": [str(a).replace(self.root, "<root>") for a in argv], "outcome": outcome,
                         "at_stake": [{"path": u["path"], "class": u["cls"], "result": r[1]} for u, r in zip(U, results)][:8],
                         "mergers": [m["type"] for m in mergers]} if nontrivial else None)


# ------------------------------------------------------------------ helpers for argument generation

def _ancestry(wt_or_branch_path, lefthand=True):
    from breezy.branch import Branch

    b = Branch.open(wt_or_branch_path)
    with b.lock_read():
        tip = b.last_revision()
        g = b.repository.get_graph()
        if lefthand:
            out = [r for r in g.iter_lefthand_ancestry(tip) if r != b"null:"]
        else:
            out = [r for r, _ in g.iter_ancestry([tip]) if r != b"null:"]
    return out


def _paths_for_selection(rng, wt_path, want_unknown=True):
    """Candidate path arguments: versioned (current and basis names), directories, unknown, missing."""
    from breezy.workingtree import WorkingTree

    wt = WorkingTree.open(wt_path)
    cands = set()
    with wt.lock_read():
        for p, ie in wt.iter_entries_by_dir():
            if p:
                cands.add(p)
        basis = wt.basis_tree()
        with basis.lock_read():
            for p, ie in basis.iter_entries_by_dir():
                if p:
                    cands.add(p)
    if want_unknown:
        for p, v in observe.snap_disk(wt_path).items():
            if rng.random() < 0.5:
                cands.add(p)
    return sorted(cands)


def _all_paths_of(u, extra_trees=()):
    ps = {u["path"]}
    if u["basis_path"]:
        ps.add(u["basis_path"])
    for t in extra_trees:
        if u["fid"] is not None:
            try:
                with t.lock_read():
                    p = t.id2path(u["fid"])
                if p:
                    ps.add(p)
            except Exception:
                pass
    return ps


# ------------------------------------------------------------------ command families

def do_merge_cmd(s, tree_path, other_path, setup=False):
    """merge OTHER into tree_path through cmd_merge (judged)."""
    from breezy.builtins import cmd_merge

    rng = s.rng
    wt = s.wt(tree_path)
    with wt.lock_read():
        changes = wt.has_changes()
    argv = []
    opt = []
    if changes:
        if rng.random() < 0.93:
            argv.append("--force")
        else:
            opt.append("noforce")
    elif rng.random() < 0.5:
        argv.append("--force")
    r = rng.random()
    loc = other_path
    if not setup:
        if r < 0.12:
            anc = _ancestry(other_path, lefthand=False)
            argv += ["-r", "revid:" + rng.choice(anc).decode()]
            opt.append("rev")
        elif r < 0.22:
            anc = _ancestry(other_path)
            if len(anc) >= 2:
                i = rng.randrange(len(anc) - 1)
                argv += ["-r", "revid:%s..revid:%s" % (anc[i + 1].decode(), anc[i].decode())]
                opt.append("cherrypick")
        elif r < 0.30:
            argv.append("--uncommitted")
            opt.append("uncommitted")
        elif r < 0.38:
            argv.append("--pull")
            opt.append("pull")
        elif r < 0.43:
            argv.append("--preview")
            opt.append("preview")
        r = rng.random()
        if r < 0.1:
            argv.append("--weave")
            opt.append("weave")
        elif r < 0.2:
            argv.append("--lca")
            opt.append("lca")
        elif r < 0.3:
            argv.append("--show-base")
            opt.append("show-base")
        elif r < 0.4:
            argv.append("--reprocess")
        if rng.random() < 0.1:
            # merge a single file / directory of the other branch
            ot = s.wt(other_path)
            with ot.lock_read():
                ps = [p for p, ie in ot.iter_entries_by_dir() if p]
            if ps:
                loc = os.path.join(other_path, rng.choice(ps))
                opt.append("file")
    cwd = tree_path
    if rng.random() < 0.3:
        argv += ["-d", tree_path]
        cwd = s.root
    argv.append(loc)
    return s.run("merge", cmd_merge, argv, tree_path, cwd=cwd, merge_like=True, optclass="+".join(opt))


def fam_revert(s, tp=None, forced_rev=None, again=True):
    from breezy.builtins import cmd_revert

    rng = s.rng
    if tp is None:
        tname = rng.choice(sorted(s.trees))
        tp = s.trees[tname]
    others = [p for n, p in sorted(s.trees.items()) if p != tp]
    premerge = rng.random() < 0.35 and others and forced_rev is None
    if premerge:
        if rng.random() < 0.6:
            s.user_edits(tp, nops=rng.randint(0, 3))
        do_merge_cmd(s, tp, rng.choice(others), setup=True)
        s.edit_merge_written(tp)
    s.user_edits(tp)
    argv, opt = [], []
    no_backup = rng.random() < 0.3
    if no_backup:
        argv.append("--no-backup")
        opt.append("no-backup")
    target = None
    if forced_rev is not None or rng.random() < 0.22:
        from breezy.branch import Branch

        anc = _ancestry(tp, lefthand=rng.random() < 0.7)
        wt0 = s.wt(tp)
        pend = wt0.get_parent_ids()[1:]
        del wt0
        if pend and rng.random() < 0.5:
            anc = list(pend)  # "take the merged revision's version"
            opt.append("rev-pending")
        rid = forced_rev or rng.choice(anc)
        argv += ["-r", "revid:" + rid.decode()]
        opt.append("rev")
        target = Branch.open(tp).repository.revision_tree(rid)
    sel = None
    if rng.random() < 0.45:
        c = _paths_for_selection(rng, tp)
        if c:
            sel = rng.sample(c, min(len(c), rng.randint(1, 2)))
            argv += sel
            opt.append("paths")
    if rng.random() < 0.04:
        argv = ["--forget-merges"]
        opt = ["forget-merges"]
        no_backup, sel = False, None
    if not opt:
        opt.append("plain")

    sel_all = None
    if sel is not None:
        # a selected name denotes an entry (by its current, basis or target name); everything that lives below that
        # entry in any of the three trees is selected with it
        sel_all = set(sel)
        wt0 = s.wt(tp)
        with wt0.lock_read():
            trees3 = [wt0, wt0.basis_tree()] + ([target] if target is not None else [])
            for sp in sel:
                for t in trees3:
                    try:
                        with t.lock_read():
                            fid = t.path2id(sp)
                    except Exception:
                        fid = None
                    if fid is None:
                        continue
                    for t2 in trees3:
                        try:
                            with t2.lock_read():
                                p2 = t2.id2path(fid)
                            if p2 is not None:
                                sel_all.add(p2)
                        except Exception:
                            pass
        del wt0

    def asked(u):
        if not no_backup:
            return False
        if u["fid"] is None:
            return False  # revert never owns unversioned files
        if sel_all is None:
            return True
        return any(_inside_any(p, sel_all) for p in _all_paths_of(u, [target] if target is not None else []))

    def keyfn(u):
        if target is not None and u["cls"] == "added" and _text_by_id(target, u["fid"]) is not None:
            return "added-but-present-in-target-revision"
        return u["cls"].split("+")[0] + (":target-rev" if target is not None else "")

    s.run("revert", cmd_revert, argv, tp, asked=asked, optclass="+".join(opt), keyfn=keyfn,
          expect_disk_identical="revert_forget_merges_disk_identical" if opt == ["forget-merges"] else None)
    if again and target is not None and rng.random() < 0.6:
        # the user keeps working on what revert -r brought back, then reverts to the same revision again
        s.edit_merge_written(tp)
        fam_revert(s, tp=tp, forced_rev=rid, again=False)


def fam_remove(s):
    from breezy.builtins import cmd_remove

    rng = s.rng
    tname = rng.choice(sorted(s.trees))
    tp = s.trees[tname]
    others = [n for n in sorted(s.trees) if n != tname]
    if rng.random() < 0.2 and others:
        do_merge_cmd(s, tp, s.trees[rng.choice(others)], setup=True)
        s.edit_merge_written(tp)
    s.user_edits(tp)
    r = rng.random()
    argv, strategy = [], "safe"
    if r < 0.2:
        argv.append("--keep")
        strategy = "keep"
    elif r < 0.45:
        argv.append("--no-backup")
        strategy = "no-backup"
    elif r < 0.5:
        argv.append("--safe")
    sel = []
    if rng.random() < 0.1:
        argv.append("-v")
    if rng.random() < 0.1:
        argv.append("--new")
        strategy += "+new"
    if rng.random() < 0.92:
        c = _paths_for_selection(rng, tp)
        if c:
            sel = rng.sample(c, min(len(c), rng.randint(1, 3)))
    if not sel and "--new" not in argv:
        strategy = "missing-scan"
    argv += sel

    def asked(u):
        if not strategy.startswith("no-backup"):
            return False
        if "+new" in strategy:
            # --new narrows the selection to never-committed entries, but a new directory takes everything below it along;
            # with --no-backup anything inside the named paths (or anywhere, when none is named) was offered for destruction
            return not sel or _inside_any(u["path"], sel)
        return _inside_any(u["path"], sel)

    def keyfn(u):
        if "+new" in strategy and sel and not _inside_any(u["path"], sel):
            return "new-widened-to-parent-directory"
        if u["fid"] is None and u.get("at_basis_path"):
            return "unversioned-file-at-basis-path"
        return None

    ident = None
    if strategy.startswith("keep") or strategy == "missing-scan":
        ident = "remove_keep_disk_identical"
    s.run("remove", cmd_remove, argv, tp, asked=asked, optclass=strategy, expect_disk_identical=ident, keyfn=keyfn)


def fam_remove_twice(s):
    """remove --keep PATH; the user keeps editing the now unversioned file; remove PATH (or its directory) again."""
    from breezy.builtins import cmd_remove

    rng = s.rng
    tp = s.trees[rng.choice(sorted(s.trees))]
    s.user_edits(tp, nops=rng.randint(0, 3), hostile=False)
    wt = s.wt(tp)
    with wt.lock_read():
        files = [p for p, ie in wt.iter_entries_by_dir() if ie.kind == "file" and os.path.isfile(wt.abspath(p)) and not os.path.islink(wt.abspath(p))]
    del wt
    if not files:
        s.ctx.discard("no-versioned-file")
    f = rng.choice(files)
    s.run("remove", cmd_remove, ["--keep", f], tp, optclass="keep", expect_disk_identical="remove_keep_disk_identical")
    ap = os.path.join(tp, f)
    if rng.random() < 0.85 and os.path.isfile(ap):
        with open(ap, "rb") as fh:
            old = fh.read()
        new = _edit_far(rng, old, b"untracked")
        with open(ap, "wb") as fh:
            fh.write(new)
        s.pool.add(new)
        s.log.append({"op": "edit-unversioned", "path": f})
    target = f
    if "/" in f and rng.random() < 0.3:
        target = f.rpartition("/")[0]
    r = rng.random()
    argv = [] if r < 0.7 else (["--no-backup"] if r < 0.85 else ["--safe"])
    argv.append(target)
    nb = "--no-backup" in argv

    def keyfn(u):
        if u["fid"] is None and u.get("at_basis_path"):
            return "unversioned-file-at-basis-path"
        return None

    s.run("remove", cmd_remove, argv, tp, asked=(lambda u: nb and _inside_any(u["path"], [target])), optclass="again" + ("+no-backup" if nb else ""),
          keyfn=keyfn)


def fam_revert_resurrect(s):
    """revert -r REV PATH brings back a file that a later commit deleted; the user edits it; revert -r REV again."""
    from breezy.branch import Branch
    from breezy.builtins import cmd_revert

    rng = s.rng
    tp = s.trees[rng.choice(sorted(s.trees))]
    b = Branch.open(tp)
    cands = []
    with b.lock_read():
        basis = b.basis_tree()
        anc = _ancestry(tp, lefthand=False)
        for rid in anc[1:]:
            t = b.repository.revision_tree(rid)
            with t.lock_read(), basis.lock_read():
                for p, ie in t.iter_entries_by_dir():
                    if ie.kind == "file" and p:
                        try:
                            gone = basis.id2path(ie.file_id) is None
                        except Exception:
                            gone = True
                        if gone:
                            cands.append((rid, p))
    if not cands:
        s.ctx.discard("no-deleted-file-in-history")
    rid, path = rng.choice(cands)
    s.user_edits(tp, nops=rng.randint(0, 2), hostile=False)
    arg = [path] if rng.random() < 0.7 else []
    out = s.run("revert", cmd_revert, ["-r", "revid:" + rid.decode()] + arg, tp, optclass="rev+resurrect")
    ap = os.path.join(tp, path)
    if not (os.path.isfile(ap) and not os.path.islink(ap)):
        return
    with open(ap, "rb") as fh:
        old = fh.read()
    new = _edit_far(rng, old, b"resurrected")
    with open(ap, "wb") as fh:
        fh.write(new)
    s.pool.add(new)
    s.log.append({"op": "edit-resurrected", "path": path})
    target = b.repository.revision_tree(rid)
    nb = rng.random() < 0.2

    def keyfn(u):
        if u["cls"] == "added" and _text_by_id(target, u["fid"]) is not None:
            return "added-but-present-in-target-revision"
        return u["cls"].split("+")[0] + ":target-rev"

    s.run("revert", cmd_revert, (["--no-backup"] if nb else []) + ["-r", "revid:" + rid.decode()] + arg, tp,
          asked=(lambda u: nb and u["fid"] is not None), optclass="rev+resurrect-again" + ("+no-backup" if nb else ""), keyfn=keyfn)


def fam_rename_then_revert(s):
    """OTHER only renames / moves files (no text change); THIS has uncommitted edits of those files; a merge-like command
    brings the rename in (the user's text is carried along), then revert runs with default options."""
    from breezy.branch import Branch
    from breezy.builtins import cmd_merge, cmd_pull, cmd_revert, cmd_switch, cmd_update

    rng = s.rng
    oname = rng.choice(sorted(s.trees))
    op = s.trees[oname]
    owt = s.wt(op)
    old = owt.last_revision()
    with owt.lock_read():
        files = [p for p, ie in owt.iter_entries_by_dir() if ie.kind == "file" and os.path.isfile(owt.abspath(p)) and not os.path.islink(owt.abspath(p))]
        dirs = [""] + [p for p, ie in owt.iter_entries_by_dir() if p and ie.kind == "directory" and os.path.isdir(owt.abspath(p))
                       and not os.path.islink(owt.abspath(p))]
    if not files:
        s.ctx.discard("no-versioned-file")
    chosen = rng.sample(files, min(len(files), rng.randint(1, 2)))
    moved = []
    for n, f in enumerate(chosen):
        d = rng.choice(dirs) if rng.random() < 0.5 else f.rpartition("/")[0]
        if d == f or d.startswith(f + "/"):
            d = ""
        dst = (d + "/" if d else "") + (f.rpartition("/")[2] if rng.random() < 0.3 and d != f.rpartition("/")[0] else "renamed%d-%s" % (n, f.rpartition("/")[2]))
        if os.path.lexists(os.path.join(op, dst)):
            continue
        try:
            owt.rename_one(f, dst)
            moved.append((f, dst))
        except Exception:
            owt = s.wt(op)
    if not moved:
        s.ctx.discard("rename-refused")
    if rng.random() < 0.4:
        # the renaming commit also changes the text of some OTHER file
        rest = [f for f in files if f not in chosen]
        if rest:
            ap = os.path.join(op, rng.choice(rest))
            with open(ap, "rb") as fh:
                t = fh.read()
            with open(ap, "wb") as fh:
                fh.write(_edit_far(rng, t, b"other"))
    owt.commit("rename only", rev_id=b"rename-only-%d" % rng.randint(0, 10 ** 9))
    del owt
    mode = rng.choice(["merge", "pull", "update", "switch"])
    tp = os.path.join(s.root, "follower")
    if mode in ("merge", "pull"):
        Branch.open(op).controldir.sprout(tp, revision_id=old)
    elif mode == "update":
        Branch.open(op).create_checkout(tp, revision_id=old, lightweight=rng.random() < 0.5)
    else:
        obp = os.path.join(s.root, "oldbranch")
        Branch.open(op).controldir.sprout(obp, revision_id=old)
        Branch.open(obp).create_checkout(tp, lightweight=True)
    # the user's uncommitted edits of exactly those files (old names) + a little noise elsewhere
    for f, _dst in moved:
        ap = os.path.join(tp, f)
        if rng.random() < 0.9 and os.path.isfile(ap) and not os.path.islink(ap):
            with open(ap, "rb") as fh:
                t = fh.read()
            new = _edit_far(rng, t, b"user") if len(t) > 20 else t + b"user-%d\n" % rng.randint(0, 10 ** 9)
            with open(ap, "wb") as fh:
                fh.write(new)
            s.pool.add(new)
            s.log.append({"op": "edit-file-renamed-by-other", "path": f})
    if rng.random() < 0.4:
        s.user_edits(tp, nops=rng.randint(1, 2), hostile=False)
    if mode == "merge":
        s.run("merge", cmd_merge, ["--force", op], tp, merge_like=True, optclass="rename-only")
    elif mode == "pull":
        s.run("pull", cmd_pull, [op], tp, merge_like=True, optclass="rename-only")
    elif mode == "update":
        s.run("update", cmd_update, [], tp, merge_like=True, optclass="rename-only")
    else:
        s.run("switch", cmd_switch, [op], tp, merge_like=True, optclass="rename-only")
    s.ctx.count("rename_only_merge")
    argv, sel = [], None
    r = rng.random()
    if r < 0.15:
        sel = [rng.choice(moved)[rng.randrange(2)]]
        argv = list(sel)
    nb = rng.random() < 0.1
    if nb:
        argv.insert(0, "--no-backup")
    s.run("revert", cmd_revert, argv, tp,
          asked=(lambda u: nb and u["fid"] is not None and (sel is None or u["path"] in sel or u["basis_path"] in sel)),
          optclass="after-rename-only-merge" + ("+no-backup" if nb else ""))


def fam_merge(s):
    rng = s.rng
    tname = rng.choice(sorted(s.trees))
    tp = s.trees[tname]
    others = [n for n in sorted(s.trees) if n != tname]
    if not others:
        s.ctx.discard("one-branch")
    op = s.trees[rng.choice(others)]
    if rng.random() < 0.3:
        # uncommitted work in the other tree too (for --uncommitted); it is not the tree under test
        owt = s.wt(op)
        gen.random_delta(rng, owt, s.names, rng.randint(1, 3), W_USER)
    s.user_edits(tp)
    out = do_merge_cmd(s, tp, op)
    if rng.random() < 0.35 and len(others) > 1:
        # a second merge on top (merge_modified of the first one is replaced)
        s.user_edits(tp, nops=rng.randint(0, 3))
        s.edit_merge_written(tp)
        do_merge_cmd(s, tp, s.trees[rng.choice(others)])


def fam_pull(s):
    from breezy.branch import Branch
    from breezy.builtins import cmd_pull

    rng = s.rng
    sname = rng.choice(sorted(s.trees))
    sp = s.trees[sname]
    argv, opt = [], []
    if rng.random() < 0.7:
        anc = _ancestry(sp)
        rid = rng.choice(anc[1:] if len(anc) > 1 and rng.random() < 0.9 else anc)
        tp = os.path.join(s.root, "pulltree")
        Branch.open(sp).controldir.sprout(tp, revision_id=rid)
        opt.append("behind")
    else:
        others = [n for n in sorted(s.trees) if n != sname]
        if not others:
            s.ctx.discard("one-branch")
        tp = s.trees[rng.choice(others)]
        opt.append("other-branch")
    s.user_edits(tp)
    if rng.random() < 0.35:
        argv.append("--overwrite")
        opt.append("overwrite")
    if rng.random() < 0.2:
        argv += ["-r", "revid:" + rng.choice(_ancestry(sp)).decode()]
        opt.append("rev")
    if rng.random() < 0.2:
        argv.append("--show-base")
    if rng.random() < 0.2:
        argv.append("-v")
    cwd = tp
    if rng.random() < 0.4:
        argv += ["-d", tp]
        cwd = s.root
    argv.append(sp)
    s.run("pull", cmd_pull, argv, tp, cwd=cwd, merge_like=True, optclass="+".join(opt))


def fam_update(s):
    from breezy.branch import Branch
    from breezy.builtins import cmd_update

    rng = s.rng
    sname = rng.choice(sorted(s.trees))
    sp = s.trees[sname]
    anc = _ancestry(sp)
    argv, opt = [], []
    r = rng.random()
    if r < 0.75:
        rid = rng.choice(anc[1:]) if len(anc) > 1 and rng.random() < 0.9 else anc[0]
        light = rng.random() < 0.5
        tp = os.path.join(s.root, "checkout")
        Branch.open(sp).create_checkout(tp, revision_id=rid, lightweight=light)
        opt.append("light" if light else "heavy")
        if not light and rng.random() < 0.5:
            # local commit in the heavy checkout while the master is ahead
            wt = s.wt(tp)
            gen.random_delta(rng, wt, s.names, rng.randint(1, 3), W_HIST)
            try:
                wt.commit("local work", local=True, rev_id=b"local-%d" % rng.randint(0, 10 ** 9))
                opt.append("local-commit")
            except Exception:
                wt = s.wt(tp)
                wt.revert(backups=False)
    else:
        tp = sp  # standalone tree: update -r goes back in history
        opt.append("standalone")
    s.user_edits(tp)
    if rng.random() < (0.3 if tp != sp else 0.95):
        argv += ["-r", "revid:" + rng.choice(anc).decode()]
        opt.append("rev")
    if rng.random() < 0.2:
        argv.append("--show-base")
    cwd = tp
    if rng.random() < 0.4:
        argv.append(tp)
        cwd = s.root
    s.run("update", cmd_update, argv, tp, cwd=cwd, merge_like=True, optclass="+".join(opt))


def fam_switch(s):
    from breezy.branch import Branch
    from breezy.builtins import cmd_switch

    rng = s.rng
    names = sorted(s.trees)
    if len(names) < 2:
        s.ctx.discard("one-branch")
    a, b = rng.sample(names, 2)
    ap, bp = s.trees[a], s.trees[b]
    light = rng.random() < 0.65
    tp = os.path.join(s.root, "checkout")
    Branch.open(ap).create_checkout(tp, lightweight=light)
    opt = ["light" if light else "heavy"]
    s.user_edits(tp)
    argv = []
    if rng.random() < 0.3:
        argv.append("--force")
        opt.append("force")
    if rng.random() < 0.15:
        argv += ["-r", "revid:" + rng.choice(_ancestry(bp)).decode()]
        opt.append("rev")
    store = rng.random() < 0.15
    if store:
        argv.append("--store")
        opt.append("store")
    cwd = tp
    if rng.random() < 0.4:
        argv += ["-d", tp]
        cwd = s.root
    argv.append(bp)
    if not store:
        s.run("switch", cmd_switch, argv, tp, cwd=cwd, merge_like=True, optclass="+".join(opt))
        return
    # --store: stash on request; judged by the round trip
    _store_and_back(s, tp, argv, cwd, ap, "+".join(opt))


def _run_plain(s, cls, argv, cwd, tag):
    """Run a follow-up command that is not itself judged by Scn.run; returns outcome string."""
    from breezy import errors
    from breezy import option as _option
    from breezy import ui as _ui

    s.log.append({"cmd": tag, "argv": list(argv)})
    old = os.getcwd()
    os.chdir(cwd)
    try:
        try:
            _option._verbosity_level = 0
            cmd = cls()
            cmd._setup_outf = lambda: setattr(cmd, "outf", _ui.NullOutputStream("utf-8"))
            cmd.run_argv_aliases(list(argv))
            out = "ok"
        except errors.BzrError as e:
            out = "refused:" + type(e).__name__
        except (KeyboardInterrupt, SystemExit):
            raise
        except Exception as e:
            out = "crash:" + type(e).__name__
    finally:
        os.chdir(old)
    s.ctx.hist("outcome:%s:%s" % (tag, out))
    return out


def _holds_stash(branch_url, tree_path):
    from breezy.branch import Branch

    # observation of the stash file itself (get_unshelver needs a tree that matches the shelf)
    try:
        return bool(Branch.open(branch_url)._uncommitted_branch()._transport.has("stored-transform"))
    except Exception:
        return False


def s_wt(path):
    from breezy.workingtree import WorkingTree

    return WorkingTree.open(path)


def _store_and_back(s, tp, argv, cwd, home_branch_path, optclass):
    """`switch --store` away (judged: only a successful command may stash, a refused one must keep everything),
    then `switch --store` back to the branch that holds the stash: what was stashed must be in the tree again."""
    from breezy.builtins import cmd_switch

    stashed = []
    home = s.wt(tp).branch.base
    held_before = _holds_stash(home, tp)
    took = {}

    def asked(u):
        # the stash is a request only if it was taken: the command went through, or it failed AFTER parking the changes in
        # the branch (which held none before); a refusal or crash before that must leave the work in the tree
        if s.last_outcome != "ok":
            if "v" not in took:
                took["v"] = (not held_before) and _holds_stash(home, tp)
                if took["v"]:
                    s.ctx.hist("switch-store:failed-after-stash:" + s.last_outcome)
            return took["v"]
        stashed.append(u)
        return True

    out = s.run("switch", cmd_switch, argv, tp, cwd=cwd, asked=asked, merge_like=True, optclass=optclass,
                keyfn=lambda u: "store:" + (("refused-but-stripped:" + ("" if "ChangesAlreadyStored" in str(s.last_outcome) else str(s.last_outcome).replace("refused:", "after-") + ":"))
                                             if s.last_outcome != "ok" else "") + u["cls"].split("+")[0])
    if out != "ok":
        return out
    if not stashed:
        return out
    s.ctx.count("switch_store_roundtrip")
    back = _run_plain(s, cmd_switch, ["--store", "-d", tp, home_branch_path], s.root, "switch-back")
    if back != "ok":
        return out
    after = observe.snap_disk(tp)
    contents = {v[1] for v in after.values() if v[0] == "file"}
    for u in stashed:
        if not u["content"]:
            continue
        if u["content"] in contents:
            s.ctx.hist("u:switch-store:restored")
            s.ctx.count("switch_store_restored")
        elif u["fid"] is None:
            # not a verdict: an unversioned file below an unversioned-but-kept entry is re-versioned by shelving that entry's
            # "deletion", travels as an ordinary modification and is stashed by the second --store in the OTHER branch
            s.ctx.hist("u:switch-store:not-restored-by-roundtrip:" + u["cls"])
        else:
            s.ctx.fail("switch-store:roundtrip-lost:" + u["cls"].split("+")[0],
                       "content of %s file %r stashed by `switch --store` is in no file of the tree after `switch --store` back" % (u["cls"], u["path"]),
                       {"path": u["path"], "argv": list(argv), "content": u["content"].decode("latin-1")[:300], "after_paths": sorted(after)[:40]})
    return out


def fam_switch_store_shared(s):
    """Two checkouts (lightweight or heavy) of ONE branch.  The first stores its changes in the branch and leaves; the second one's
    `switch --store` must then be refused (ChangesAlreadyStored) and keep all of its work; the first comes back and gets its own."""
    from breezy.branch import Branch
    from breezy.builtins import cmd_switch

    rng = s.rng
    names = sorted(s.trees)
    if len(names) < 2:
        s.ctx.discard("one-branch")
    a, b = rng.sample(names, 2)
    ap, bp = s.trees[a], s.trees[b]
    co1 = os.path.join(s.root, "co1")
    co2 = os.path.join(s.root, "co2")
    # heavy checkouts park their changes in the master branch too (Branch._uncommitted_branch)
    Branch.open(ap).create_checkout(co1, lightweight=rng.random() < 0.7)
    Branch.open(ap).create_checkout(co2, lightweight=rng.random() < 0.7)
    s.user_edits(co1, hostile=False)
    home1 = s.wt(co1).branch.base
    out1 = s.run("switch", cmd_switch, ["--store", "-d", co1, bp], co1, cwd=s.root, merge_like=True, optclass="store+shared-first",
                 asked=lambda u: s.last_outcome == "ok" or _holds_stash(home1, co2), keyfn=lambda u: "store:" + u["cls"].split("+")[0])
    holds = _holds_stash(home1, co2)
    s.ctx.hist("shared-branch-holds-stash:%s" % holds)
    s.user_edits(co2)
    argv = ["--store"]
    if rng.random() < 0.3:
        argv.append("--force")
    cwd = co2
    if rng.random() < 0.5:
        argv += ["-d", co2]
        cwd = s.root
    argv.append(bp)
    if holds:
        s.ctx.count("switch_store_second_checkout")
    out2 = _store_and_back(s, co2, argv, cwd, ap, "store+shared-second" + ("+branch-holds-stash" if holds else ""))
    if holds:
        s.ctx.hist("second-store-outcome:" + out2)
    if out1 == "ok" and holds and out2 != "ok" and rng.random() < 0.7:
        # the first checkout comes back: its own stash is restored (conservation on co1 judged as a plain switch --store)
        s.run("switch", cmd_switch, ["--store", "-d", co1, ap], co1, cwd=s.root, merge_like=True, optclass="store+shared-first-back",
              asked=lambda u: s.last_outcome == "ok", keyfn=lambda u: "store:" + u["cls"].split("+")[0])


def fam_uncommit(s):
    from breezy.builtins import cmd_uncommit

    rng = s.rng
    tname = rng.choice(sorted(s.trees))
    tp = s.trees[tname]
    others = [n for n in sorted(s.trees) if n != tname]
    if rng.random() < 0.3 and others:
        do_merge_cmd(s, tp, s.trees[rng.choice(others)], setup=True)
    s.user_edits(tp)
    argv, opt = ["--force"], []
    if rng.random() < 0.35:
        n = len(_ancestry(tp))
        argv += ["-r", str(rng.randint(0, max(0, n - 1)))]
        opt.append("rev")
    if rng.random() < 0.2:
        argv.append("--keep-tags")
    if rng.random() < 0.1:
        argv.append("--dry-run")
        opt.append("dry-run")
    if rng.random() < 0.05:
        argv.append("--local")
        opt.append("local")
    cwd = tp
    if rng.random() < 0.4:
        argv.append(tp)
        cwd = s.root
    s.run("uncommit", cmd_uncommit, argv, tp, cwd=cwd, optclass="+".join(opt) or "plain", expect_disk_identical="uncommit_disk_identical")


FAMILIES = [(fam_revert, 26), (fam_remove, 18), (fam_merge, 18), (fam_pull, 8), (fam_update, 9), (fam_switch, 9), (fam_uncommit, 8),
            (fam_remove_twice, 3), (fam_revert_resurrect, 3), (fam_switch_store_shared, 3), (fam_rename_then_revert, 4)]


def case(ctx):
    from vf import runner

    rng = ctx.rng
    names = gen.Names(ctx.tier)
    try:
        h, how = _history(ctx, rng, names)
    except (KeyboardInterrupt, SystemExit):
        raise
    except Exception as e:
        ctx.discard("history-construction:" + type(e).__name__)
    ctx.hist("history:" + how)
    nscn = 5
    fams = [f for f, _w in FAMILIES]
    weights = [w for _f, w in FAMILIES]
    for k in range(nscn):
        root = os.path.join(ctx.tmp("scn"), "r")
        shutil.copytree(h.root, root, symlinks=True)
        trees = {n: os.path.join(root, os.path.relpath(p, h.root)) for n, p in h.trees.items()}
        s = Scn(ctx, rng, root, trees, names)
        fam = rng.choices(fams, weights)[0]
        try:
            fam(s)
        except runner.Discard as e:
            ctx.hist("discard:" + str(e)[:40])
        except (runner.OracleFailure, KeyboardInterrupt, SystemExit):
            raise
        except Exception as e:  # workload construction (sprout / checkout / edits), not the command under test
            import traceback

            ctx.hist("setup-error:%s:%s" % (fam.__name__, type(e).__name__))
            if os.environ.get("C12_DEBUG"):
                traceback.print_exc()
        finally:
            _REC["on"] = False
        shutil.rmtree(os.path.dirname(root), ignore_errors=True)
