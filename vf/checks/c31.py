"""C31 - smart server clients cannot reach files outside the served directory.

Monitor 1 (both tiers, in-process, exact): the server-side stack that `brz serve --directory=served`
builds (cmd_serve.run + BzrServerFactory._make_backing_transport: [readonly+] local transport ->
ChrootServer -> userdir-expanding PathFilteringServer) is built over a spying backing transport that
records, for every call reaching the real LocalTransport, the absolute local path the call resolves to.
Requests (every registered verb x hostile client paths x root client paths "/", "/x/", "/served/") are
dispatched through the real SmartServerRequestHandler (jail set up per call exactly as the medium does).
Oracles per request: every resolved path is served/ or below; no python-level file access (audit hook)
inside outer/ but outside served/; every BzrDir open that got past the jail hook lies under the jail
root; no canary content / outside-only name in the response; nothing under outer/ outside served/
changed (names, sizes, mtimes incl. outer/'s own mtime after mutating requests; bytes at case end).
Two unit-level monitors ride along: translate_client_path/transport_from_client_path of the base request
class over an un-chrooted transport (translation alone must keep clients under the root), and
BzrDir.open of outside / sibling-prefix / foreign-scheme transports under a request's setup_jail (must
raise JailBreak), with jail roots = backing root, "branch" (sibling "branch-evil" exists) and "dir".

Monitor 2 (thorough): the same requests, encoded with the real client encoder, over pipes to a real
`python -m breezy serve --inet --directory=served` under `strace -f -e trace=%file -y`; the log is parsed
for paths inside outer/ but outside outer/served/; canaries and outside tree compared afterwards.

Failure keys (mechanism = monitor : verb family : lexical class of the offending path, or the layer):
  escape:<family>:<feature>            spy saw a resolved path outside served/
  audit-escape:<family>:<feature>      python-level access inside outer/ outside served/
  jail-open-passed:<family>:<class>    a BzrDir open outside the jail root passed the jail hook during a request
  leak / leak-name:<family>:<feature>  canary bytes / outside-only name in a response
  outside-modified:<family>:<feature>  something outside served/ changed (feature write-on-served-root: the path
                                       resolved to served/ itself and the write went beside it)
  translate:base:<feature>             base translate_client_path resolves outside without chroot
  jail:outside-open-not-refused:<kind> / jail:open-passed:<class>   unit jail monitor
  strace-escape|strace-leak|strace-outside-modified:<family>:<feature>   monitor 2 (attributed by replay)
"""
import os
import posixpath
from urllib.parse import unquote

from vf import boot
from vf.checks import _c31_env as E
from vf.checks import _c31_gen as G
from vf.checks import _c31_wire as W

ID = "C31"
LEVEL = "exploration"
TECHNIQUE = ("path-resolution monitor on a spying backing transport under the real chroot/userdir stack + audit hook + "
             "jail-open hook + canaries; thorough adds strace of a real `brz serve --inet`")
LEVEL_TEXT = ("held on the generated (verb, hostile client path, root client path) requests only: each request was executed by the "
              "real request handlers on the real ChrootServer/PathFilteringServer stack and every file-system location it resolved "
              "to was observed; no claim about request shapes the grammar does not produce")
RULE = ("request = verb (every registered smart verb) x client path(s) from a hostile grammar over '/', '.', '..', %2F, %2E, %2e%2e, "
        "double encodings, '~', '~user', '//', trailing '/', unicode look-alikes, %00, absolute/file:/bzr:/chroot: forms, with root "
        "client paths '/', '/x/', '/served/' and hostile values in secondary location arguments; non-trivial = the request reached "
        "the transport (>=1 resolved path observed) or was refused with an error; distinct = distinct (verb, args, root)")
CASES = {"quick": 160, "thorough": 1320}
BUDGET_S = {"quick": 50, "thorough": 750}
MIN_EVALS = {"quick": 3000, "thorough": 30000}
FLOORS = {
    "quick": {"spy_path_judged": 5000, "response_scanned": 3000, "outside_snapshot_compared": 800, "open_passed_judged": 300,
              "jail_unit_judged": 300, "jail_unit_refused": 200, "translate_judged": 1500, "audit_events_seen": 20,
              "userdir_expansions_seen": 100},
    "thorough": {"spy_path_judged": 50000, "response_scanned": 30000, "open_passed_judged": 3000, "jail_unit_judged": 3000,
                 "jail_unit_refused": 2000, "translate_judged": 15000, "strace_sessions": 40, "strace_paths_judged": 2000,
                 "strace_requests_answered": 800},
}
EXHAUSTIVE = {"quick": False, "thorough": False}
ASSUMPTIONS = [
    "the spy sits where `brz serve` puts the local transport; a call's location is what the real LocalTransport.abspath says for "
    "the same relpath (LocalTransport is native code; monitor 2's strace log is the independent check of that)",
    "symlinks inside served/ that point outside are server-side configuration, not client paths: the scratch tree has none",
    "python-level audit events only cover accesses made from Python code; native accesses are covered by the spy and by strace",
    "monitor 2 runs `python -m breezy serve` (the repo's ./brz is a git-ignored native launcher that a scratch worktree lacks)",
    "--allow-writes and read-only servers are both exercised; HOME is placed inside served/, outside it, or left alone",
]
N_REQ = {"quick": 60, "thorough": 60}
STRACE_EVERY = 11           # thorough: case indices divisible by this are strace sessions
STRACE_REQS = 30

TEMPLATE = {}


def worker_init(tier):
    E.spy_class()
    E.install_audit()
    E.install_open_hook()
    TEMPLATE["outer"] = E.build_template(boot.fresh_dir("c31tpl"))


# --------------------------------------------------------------------------------------------- helpers

def _verbs():
    from breezy.bzr.smart import request as srequest

    return sorted(k.decode("latin-1") for k in srequest.request_handlers.keys())


def _pick_verb(rng, verbs_by_family):
    r = rng.random()
    fam = "vfs" if r < 0.45 else "bzrdir" if r < 0.70 else "branch" if r < 0.82 else "repository" if r < 0.95 else "other"
    return rng.choice(verbs_by_family[fam] or verbs_by_family["vfs"])


def _flatten_response(resp):
    """All bytes a client would receive for this response (args, body, consumed body stream)."""
    out = []
    if resp is None:
        return b"", "none"
    for a in resp.args or ():
        if isinstance(a, bytes):
            out.append(a)
        elif a is not None:
            out.append(str(a).encode("utf-8", "replace"))
    if resp.body is not None:
        out.append(resp.body if isinstance(resp.body, bytes) else str(resp.body).encode("utf-8", "replace"))
    if resp.body_stream is not None:
        try:
            n = 0
            for chunk in resp.body_stream:
                if isinstance(chunk, bytes):
                    out.append(chunk)
                n += 1
                if n > 2000:
                    break
        except Exception:
            out.append(b"<stream-raised>")
    if resp.is_successful():
        oc = "ok"
    else:
        a0 = resp.args[0] if resp.args else b""
        if a0 == b"error" and len(resp.args) > 1:
            a0 = resp.args[1]
        if isinstance(a0, bytes):
            a0 = a0.decode("latin-1")
        oc = "refused:%s" % str(a0).rsplit(".", 1)[-1][:40]
    return b"\n".join(out), oc


def dispatch(transport, req, jail_root=None):
    """Hand one request to the real SmartServerRequestHandler the way the protocol layer does."""
    from breezy.bzr.smart import request as srequest

    h = srequest.SmartServerRequestHandler(transport, srequest.request_handlers, req["root"], jail_root)
    args = tuple([G.to_bytes(req["verb"])] + [G.to_bytes(a) for a in req["args"]])
    exc = None
    data, outcome = b"", "none"
    E.STATE.begin()
    try:
        try:
            h.args_received(args)
            if not h.finished_reading:
                if req.get("body") is not None:
                    h.accept_body(G.to_bytes(req["body"]))
                for c in req.get("chunks") or ():
                    h.accept_body(G.to_bytes(c))
                h.end_received()
            data, outcome = _flatten_response(h.response)
        except (KeyboardInterrupt, SystemExit):
            raise
        except BaseException as e:  # protocol-level failure (unknown verb, error while translating an error, native panic...)
            exc = e
            outcome = "exception:%s" % type(e).__name__
    finally:
        E.STATE.end()
    return h.response, data, outcome, exc


def _open_class(base, jail_base, served):
    """None if an open that passed the jail hook lies under the jail root (or is physically inside served/)."""
    from breezy import urlutils

    root = jail_base.split(":///", 1)[0] + ":///"
    if base.startswith(root):
        path = posixpath.normpath("/" + unquote(base[len(root):]))
        jail_path = posixpath.normpath("/" + unquote(jail_base[len(root):]))
        if jail_path == "/" or E.inside(path, jail_path):
            return None
        return "outside-jail-root"
    if base.startswith("file://"):
        try:
            local = E.norm_local(urlutils.local_path_from_url(base))
        except Exception:
            return "file-unparsable"
        return None if E.inside(local, served) else "file-outside-served"
    if base.startswith(("chroot-", "filtered-")):
        return None      # another layer of this very stack; physical location is judged by the spy
    return "foreign-scheme"


def judge(ctx, env, req, data, outcome, jail_base, fam=None):
    """All per-request oracles.  Records at most one failure (most direct evidence first)."""
    outer, served = env["outer"], env["served"]
    fam = fam or G.family(req["verb"])
    paths = [req["args"][i] for i in req["paths"] if i < len(req["args"])]
    feat = G.feature(paths, outer)
    detail = {"verb": req["verb"], "args": req["args"], "root": req["root"], "body": req.get("body"),
              "allow_writes": env["allow_writes"], "home": env["home_mode"], "outcome": outcome, "jail_root": jail_base}
    bad = None
    nspy = 0
    for op, rel, p, err in E.STATE.events:
        ctx.count("spy_path_judged")
        nspy += 1
        if p is None:
            ctx.hist("spy_unresolved:%s" % err)
            continue
        if not E.inside(p, served):
            if bad is None:
                bad = ("escape", {"op": op, "relpath_at_local_transport": rel, "resolved": p.replace(outer, "<outer>")})
    for ev, p in E.STATE.audit:
        ctx.count("audit_events_seen")
        if E.inside(p, served):
            ctx.count("audit_inside_served")
        elif E.inside(p, outer):
            if bad is None:
                bad = ("audit-escape", {"event": ev, "path": p.replace(outer, "<outer>")})
        else:
            ctx.hist("audit_elsewhere:/" + "/".join(p.split("/")[1:3]))
    for base in E.STATE.opens:
        ctx.count("open_passed_judged")
        cls = _open_class(base, jail_base, served)
        if cls is not None and bad is None:
            bad = ("jail-open-passed", {"opened": base.replace(outer, "<outer>"), "class": cls})
            feat = cls
    ctx.count("response_scanned")
    reqbytes = " ".join([req["verb"]] + req["args"] + [req.get("body") or ""]).encode("latin-1")
    if any(c in data for c in E.CANARIES):
        if bad is None:
            bad = ("leak", {"response": data[:200].decode("latin-1")})
    elif E.OUTSIDE_NAME.encode() in data and E.OUTSIDE_NAME.encode() not in reqbytes:
        # an earlier request of this session may have created an entry with such a name *inside* served/
        if any(E.OUTSIDE_NAME in n for _, dns, fns in os.walk(served) for n in dns + fns):
            ctx.hist("leak-name:explained-by-entry-inside-served")
        elif bad is None:
            bad = ("leak-name", {"response": data[:300].decode("latin-1")})
    # the (names, sizes, mtimes) signature of everything outside served/ is re-taken after every request that issued a
    # mutating transport call or a python-level mutation, and every 8th request anyway; the byte-exact comparison
    # is made at the end of every case.
    env["since_snapshot"] = env.get("since_snapshot", 0) + 1
    mutating = any(e[0] in E.MUTATING_OPS for e in E.STATE.events) or any(a[0] not in ("open", "os.listdir", "os.scandir") for a in E.STATE.audit)
    q = env["outside_quick"]
    if mutating or env["since_snapshot"] >= 8 or bad is not None:
        env["since_snapshot"] = 0
        ctx.count("outside_snapshot_compared")
        q = E.outside_quick(outer)
    if q != env["outside_quick"]:
        changed = sorted(set(map(repr, q)) ^ set(map(repr, env["outside_quick"])))[:6]
        env["outside_quick"] = q
        env["outside_full"] = E.outside_full(outer)
        if bad is None:
            bad = ("outside-modified", {"changed": [c.replace(outer, "<outer>") for c in changed]})
            if any(op in E.MUTATING_OPS and p == served for op, _, p, _ in E.STATE.events):
                feat = "write-on-served-root"       # the client path resolves to served/ itself; the write went beside it
    if E.STATE.unknown_ops:
        for k, v in E.STATE.unknown_ops.items():
            ctx.hist("spy_unknown_op:%s" % k, v)
        E.STATE.unknown_ops.clear()
    if E.STATE.aborted:
        ctx.hist("request_aborted:op-budget:%s" % req["verb"])
    if bad is not None:
        detail.update(bad[1])
        ctx.fail("%s:%s:%s" % (bad[0], fam, feat), "%s %r (root %s) -> %s" % (req["verb"], paths, req["root"], bad[1]), detail)
    ctx.hist("verb_family:%s" % fam)
    ctx.hist("outcome:%s" % outcome)
    ctx.hist("path_feature:%s" % feat)
    ctx.distinct("verbs", req["verb"])
    nontrivial = nspy > 0 or outcome.startswith("refused")
    ctx.note((req["verb"], req["args"], req["root"]), nontrivial=nontrivial,
             sample={"verb": req["verb"], "args": req["args"], "root": req["root"], "outcome": outcome,
                     "resolved": [e[2].replace(outer, "<outer>") for e in E.STATE.events[:3] if e[2]]} if ctx.rng.random() < 0.02 else None)
    return bad


def _learn_tokens(req, resp, tokens):
    try:
        if resp is not None and resp.is_successful() and resp.args and resp.args[0] == b"ok":
            if req["verb"] == "Branch.lock_write" and len(resp.args) >= 3:
                tokens["b"], tokens["r"] = resp.args[1].decode("latin-1"), resp.args[2].decode("latin-1")
            elif req["verb"] == "Repository.lock_write" and len(resp.args) >= 2:
                tokens["r"] = resp.args[1].decode("latin-1")
    except Exception:
        pass


def _scoped_home_expander(ctx, home, served):
    """The real os.path.expanduser, evaluated with HOME pointing at this case's home directory (None: leave HOME alone)."""
    def expand(path):
        old = os.environ.get("HOME")
        if home is not None:
            os.environ["HOME"] = home
        try:
            r = os.path.expanduser(path)
        finally:
            if home is not None:
                if old is None:
                    os.environ.pop("HOME", None)
                else:
                    os.environ["HOME"] = old
        if ctx is not None:
            ctx.count("userdir_expansions_seen")
            ctx.hist("userdir_expansion:%s" % ("unchanged" if r == path else "into-served" if E.inside(posixpath.normpath(r), served)
                                               else "outside-served"))
        return r
    return expand


def _make_env(ctx, d, allow_writes, home_mode):
    outer, served = E.instantiate(TEMPLATE["outer"], d)
    home = {"inside": served + "/home/u", "outside": outer + "/home-out/u", "default": os.environ.get("HOME", "/")}[home_mode]
    return {"outer": outer, "served": served, "allow_writes": allow_writes, "home_mode": home_mode, "home": home,
            "cid": "0", "fid": "0", "user": "root", "cwd": os.path.join(d, "cwd")}


# --------------------------------------------------------------------------------------------- unit monitors

def translate_monitor(ctx, env, n):
    """SmartServerRequest.translate_client_path / transport_from_client_path over a transport WITHOUT chroot:
    'Clients will not be able to refer to paths above this root' must hold by translation alone."""
    from breezy.bzr.smart import request as srequest
    from breezy.bzr.smart import vfs

    served, outer = env["served"], env["outer"]
    plain = E.Stack(served, allow_writes=True, chroot=False)
    real = object.__getattribute__(plain.transport._decorated, "_real")
    for _ in range(n):
        root = ctx.rng.choice(G.ROOTS)
        p = G.client_path(ctx.rng, env, root, 0.9)
        pb = p.encode("utf-8", "surrogateescape")
        cmd = srequest.SmartServerRequest(plain.transport, root)
        ctx.count("translate_judged")
        E.STATE.begin()
        try:
            rel = cmd.translate_client_path(pb)
            t = cmd.transport_from_client_path(pb)
        except Exception as e:
            ctx.hist("translate:refused:%s" % type(e).__name__)
            continue
        finally:
            E.STATE.end()
        where, err = E._resolve(real, rel)
        locs = [where] + [e[2] for e in E.STATE.events]
        try:
            from breezy import urlutils

            locs.append(E.norm_local(urlutils.local_path_from_url(t.base[len(E.PREFIX):])))
        except Exception:
            ctx.hist("translate:base-unparsable")
        feat = G.feature([G._b(p)], outer)
        outside = [x for x in locs if x is not None and not E.inside(x, served)]
        ctx.hist("translate:%s" % ("outside" if outside else "inside"))
        if outside:
            ctx.fail("translate:base:%s" % feat, "translate_client_path(%r) with root %r -> %r resolves to %s" % (
                p, root, rel, outside[0].replace(outer, "<outer>")),
                {"client_path": p, "root": root, "relpath": rel, "resolved": outside[0].replace(outer, "<outer>")})
        # the VFS variant un-escapes once more and relies on the chroot below it: recorded, not judged here
        try:
            vrel = vfs.VfsRequest(plain.transport, root).translate_client_path(pb)
            vw, _ = E._resolve(real, vrel)
            if vw is not None and not E.inside(vw, served):
                ctx.hist("translate_vfs_without_chroot:outside:%s" % feat)
            else:
                ctx.hist("translate_vfs_without_chroot:inside")
        except Exception:
            ctx.hist("translate_vfs_without_chroot:refused")
    plain.close()


def jail_monitor(ctx, env, stack, n_hostile):
    """Under a request's setup_jail, opening a control directory on a transport outside the jail must raise JailBreak."""
    from breezy import errors, urlutils
    from breezy import transport as _mod_transport
    from breezy.bzr.bzrdir import BzrDir
    from breezy.bzr.smart import request as srequest

    bt = stack.transport
    outer, served = env["outer"], env["served"]
    for jail_rel in (None, "branch", "dir"):
        jail_root = bt if jail_rel is None else bt.clone(jail_rel)
        targets = [
            ("file-other", lambda: _mod_transport.get_transport_from_url(urlutils.local_path_to_url(outer + "/other")), True),
            ("file-served-evil", lambda: _mod_transport.get_transport_from_url(urlutils.local_path_to_url(outer + "/served-evil")), True),
            ("file-outer", lambda: _mod_transport.get_transport_from_url(urlutils.local_path_to_url(outer)), True),
            ("memory", lambda: _mod_transport.get_transport_from_url("memory:///"), True),
            ("inside", lambda: bt.clone("branch" if jail_rel != "dir" else "dir/sub"), False),
        ]
        if jail_rel == "branch":
            targets += [
                ("sibling-prefix", lambda: bt.clone("branch-evil"), True),
                ("sibling-via-dotdot", lambda: bt.clone("branch/../branch-evil"), True),
                ("sibling-by-url", lambda: _mod_transport.get_transport_from_url(bt.base + "branch-evil"), True),
                ("parent-of-jail", lambda: bt, True),
                ("other-subtree", lambda: bt.clone("repo/b1"), True),
            ]
        for _ in range(n_hostile):
            hp = G.hostile_path(ctx.rng, env)
            targets.append(("hostile-clone", (lambda hp=hp: bt.clone(hp)), False))
        cmd = srequest.SmartServerRequest(bt, "/", jail_root)
        for name, mk, must_refuse in targets:
            try:
                t = mk()
            except Exception as e:
                ctx.hist("jail_unit:target-refused:%s" % type(e).__name__)
                continue
            ctx.count("jail_unit_judged")
            outcome = None
            cmd.setup_jail()
            E.STATE.begin()
            try:
                try:
                    BzrDir.open_from_transport(t)
                    outcome = "opened"
                except errors.JailBreak:
                    outcome = "JailBreak"
                except Exception as e:
                    outcome = "error:%s" % type(e).__name__
            finally:
                E.STATE.end()
                cmd.teardown_jail()
            if outcome == "JailBreak":
                ctx.count("jail_unit_refused")
            ctx.hist("jail_unit:%s:%s" % (name, outcome.split(":")[0]))
            detail = {"jail_root": jail_root.base, "target": t.base.replace(outer, "<outer>"), "kind": name, "outcome": outcome}
            if must_refuse and outcome != "JailBreak":
                ctx.fail("jail:outside-open-not-refused:%s" % name, "BzrDir.open on %s under jail %s -> %s" % (
                    detail["target"], jail_root.base, outcome), detail)
                continue
            if name == "hostile-clone":
                # a transport the harness itself cloned with a hostile offset is not a client path sent through a verb:
                # what the chroot does with it is recorded (it is the layer every request relies on), not judged.
                out = [p for _, _, p, _ in E.STATE.events if p is not None and not E.inside(p, served)]
                passed = [b for b in E.STATE.opens if _open_class(b, jail_root.base, served) is not None]
                ctx.hist("chroot_direct_clone:%s" % ("touched-outside" if out else "contained"))
                if passed:
                    ctx.hist("jail_unit:hostile-clone:passed-while-lexically-child")
                continue
            for base in E.STATE.opens:
                ctx.count("open_passed_judged")
                cls = _open_class(base, jail_root.base, served)
                if cls is not None:
                    ctx.fail("jail:open-passed:%s" % cls, "open of %s passed the jail %s" % (base, jail_root.base), detail)
            for op, rel, p, err in E.STATE.events:
                ctx.count("spy_path_judged")
                if p is not None and not E.inside(p, served):
                    ctx.fail("jail:inside-open-touched-outside", "open on %s touched %s" % (detail["target"], p.replace(outer, "<outer>")), detail)
                    break


# --------------------------------------------------------------------------------------------- monitor 1 case

def inproc_case(ctx):
    rng = ctx.rng
    d = ctx.tmp("c31")
    allow_writes = rng.random() < 0.7
    home_mode = rng.choice(("inside", "outside", "outside", "default"))
    try:
        env = _make_env(ctx, d, allow_writes, home_mode)
    except Exception as e:
        ctx.discard("scratch:%s" % type(e).__name__)
    outer, served = env["outer"], env["served"]
    stack = E.Stack(served, allow_writes=allow_writes)
    try:
        if stack.base_path is None:
            ctx.fail("monitor:no-userdir-filter", "BzrServerFactory did not derive base_path; userdir filter absent")
            return
        # `brz serve` uses os.path.expanduser with the server's HOME; scope HOME to the expansion so that unrelated
        # HOME readers (git config, ...) of this harness process are not redirected into the scratch tree.
        stack.factory.userdir_expander = _scoped_home_expander(ctx, env["home"] if home_mode != "default" else None, served)
        env["fid"] = stack.transport.base.split("-", 1)[1].split(":", 1)[0]
        try:
            env["cid"] = stack.factory.cleanups[0].__self__.get_url().split("-", 1)[1].split(":", 1)[0]
        except Exception:
            env["cid"] = env["fid"]
        env["outside_quick"] = E.outside_quick(outer)
        env["outside_full"] = E.outside_full(outer)
        full0 = dict(env["outside_full"])
        verbs = _verbs()
        by_fam = {"vfs": [], "bzrdir": [], "branch": [], "repository": [], "other": []}
        for v in verbs:
            by_fam[G.family(v)].append(v)
        narrow = stack.transport.clone("branch")
        tokens = {}
        for i in range(N_REQ[ctx.tier]):
            verb = _pick_verb(rng, by_fam)
            root = rng.choice(G.ROOTS) if rng.random() < 0.6 else "/"
            req = G.make_request(rng, env, verb, root, tokens)
            jail_root = narrow if rng.random() < 0.12 else None
            resp, data, outcome, exc = dispatch(stack.transport, req, jail_root)
            ctx.count("requests_dispatched")
            bad = judge(ctx, env, req, data, outcome, (jail_root or stack.transport).base)
            _learn_tokens(req, resp, tokens)
            if bad is not None or verb in G.MUTATING or not os.path.isdir(served + "/branch/.bzr") or not os.path.isfile(served + "/file"):
                if not (os.path.isdir(served + "/branch/.bzr/branch") and os.path.isfile(served + "/file")
                        and os.path.isdir(served + "/dir/sub") and os.path.isdir(served + "/branch-evil/.bzr")):
                    E.restore_served(TEMPLATE["outer"], served)
                    tokens.clear()
                    ctx.count("served_restored")
                    env["outside_quick"] = E.outside_quick(outer)      # replacing served/ touches outer/'s own mtime
        translate_monitor(ctx, env, 14)
        jail_monitor(ctx, env, stack, 2)
        # end-of-case: everything outside served/ byte-identical
        ctx.count("outside_content_compared")
        full1 = E.outside_full(outer)
        if full1 != env["outside_full"]:
            diff = sorted(k for k in set(full1) | set(env["outside_full"]) if full1.get(k) != env["outside_full"].get(k))[:8]
            ctx.fail("outside-modified:unattributed", "content outside served/ changed: %s" % diff, {"changed": diff})
        ctx.distinct("outside_states", sorted(full0.items()) == sorted(full1.items()))
    finally:
        stack.close()


# --------------------------------------------------------------------------------------------- monitor 2 case

def _strace_judge(log, env):
    """(violations, counters) from one strace log."""
    outer, served = env["outer"], env["served"]
    viol, n_in, n_anc = [], 0, 0
    for syscall, p, line in W.parse_strace(log, env["cwd"]):
        if not E.inside(p, outer):
            continue
        if E.inside(p, served):
            n_in += 1
            continue
        if p == outer and syscall in W.STAT_FAMILY:
            n_anc += 1
            continue
        viol.append((syscall, p, line[:400].decode("latin-1")))
    return viol, n_in, n_anc


def _strace_run(ctx, env, reqs, tag):
    log_path = os.path.join(os.path.dirname(env["outer"]), "strace-%s.log" % tag)
    rc, out, err, log, note = W.serve_session(reqs, boot.REPO, env["served"], env["cwd"], env["home"], env["allow_writes"], log_path)
    try:
        os.unlink(log_path)
    except OSError:
        pass
    return rc, out, err, log, note


def _attribute_inproc(env, reqs):
    """Which requests of a violating strace session are responsible?  Each is dispatched alone on the in-process stack
    (same scratch tree, served/ put back first); the spy and the outside signature name the mechanism.  {key: detail}."""
    outer, served = env["outer"], env["served"]
    found = {}
    E.restore_served(TEMPLATE["outer"], served)
    stack = E.Stack(served, allow_writes=env["allow_writes"])
    try:
        if env["home_mode"] != "default":
            stack.factory.userdir_expander = _scoped_home_expander(None, env["home"], served)
        q0 = E.outside_quick(outer)
        for r in reqs:
            resp, data, outcome, exc = dispatch(stack.transport, r)
            paths = [r["args"][i] for i in r["paths"] if i < len(r["args"])]
            feat, k = G.feature(paths, outer), None
            out = [p for _, _, p, _ in E.STATE.events if p is not None and not E.inside(p, served)]
            q1 = E.outside_quick(outer)
            if out:
                k = "strace-escape"
            elif q1 != q0:
                k = "strace-escape"
                if any(op in E.MUTATING_OPS and p == served for op, _, p, _ in E.STATE.events):
                    feat = "write-on-served-root"
            elif any(c in data for c in E.CANARIES):
                k = "strace-leak"
            q0 = q1
            if k:
                found.setdefault("%s:%s:%s" % (k, G.family(r["verb"]), feat),
                                 {"verb": r["verb"], "args": r["args"], "allow_writes": env["allow_writes"], "attributed": "in-process replay",
                                  "resolved": [p.replace(outer, "<outer>") for p in out[:3]]})
            if not (os.path.isdir(served + "/branch/.bzr/branch") and os.path.isfile(served + "/file")):
                E.restore_served(TEMPLATE["outer"], served)
                q0 = E.outside_quick(outer)
    finally:
        stack.close()
    return found


def _attribute_strace(ctx, env, reqs):
    """Fallback when no in-process replay shows the access: one strace'd server per request."""
    outer = env["outer"]
    found = {}
    for r in reqs:
        E.restore_served(TEMPLATE["outer"], env["served"])
        f0 = E.outside_full(outer)
        _, o2, _, l2, _ = _strace_run(ctx, env, [r], "a")
        v2, _, _ = _strace_judge(l2, env)
        leak2 = any(c in o2 for c in E.CANARIES)
        if not (v2 or leak2 or E.outside_full(outer) != f0):
            continue
        paths = [r["args"][i] for i in r["paths"] if i < len(r["args"])]
        feat = G.feature(paths, outer)
        if v2 and all(posixpath.dirname(p) == outer and posixpath.basename(p).startswith(".tmp") for _, p, _ in v2):
            feat = "write-on-served-root"
        k2 = "strace-escape" if v2 else "strace-leak" if leak2 else "strace-outside-modified"
        found.setdefault("%s:%s:%s" % (k2, G.family(r["verb"]), feat),
                         {"verb": r["verb"], "args": r["args"], "allow_writes": env["allow_writes"], "attributed": "strace replay",
                          "syscalls": [(sc, p.replace(outer, "<outer>")) for sc, p, _ in v2[:5]]})
    return found


def strace_case(ctx):
    rng = ctx.rng
    d = ctx.tmp("c31s")
    allow_writes = rng.random() < 0.7
    home_mode = rng.choice(("inside", "default"))
    try:
        env = _make_env(ctx, d, allow_writes, home_mode)
    except Exception as e:
        ctx.discard("scratch:%s" % type(e).__name__)
    outer = env["outer"]
    verbs = _verbs()
    by_fam = {"vfs": [], "bzrdir": [], "branch": [], "repository": [], "other": []}
    for v in verbs:
        by_fam[G.family(v)].append(v)
    by_fam["vfs"] = [v for v in by_fam["vfs"] if v != "move"]     # `move <ancestor> <descendant>` copies recursively until ENAMETOOLONG
    reqs = [G.make_request(rng, env, _pick_verb(rng, by_fam), "/", {}) for _ in range(STRACE_REQS)]
    full0 = E.outside_full(outer)
    rc, out, err, log, note = _strace_run(ctx, env, reqs, "s")
    ctx.count("strace_sessions")
    if note:
        ctx.hist("strace_session:%s" % note)
    if not log or b"execve(" not in log:
        ctx.hist("strace_session:no-log")
        ctx.discard("strace-unavailable")
    answered = out.count(W.MARKER)
    ctx.count("strace_requests_answered", answered)
    ctx.hist("strace_answered_fraction:%d/10" % (10 * answered // max(1, len(reqs))))
    viol, n_in, n_anc = _strace_judge(log, env)
    ctx.count("strace_paths_judged", n_in + n_anc + len(viol))
    ctx.count("strace_paths_inside_served", n_in)
    leak = any(c in out for c in E.CANARIES)
    full1 = E.outside_full(outer)
    changed = sorted(k for k in set(full1) | set(full0) if full1.get(k) != full0.get(k))[:8]
    if viol or leak or changed:
        kind = "strace-escape" if viol else "strace-leak" if leak else "strace-outside-modified"
        found = _attribute_inproc(env, reqs) or _attribute_strace(ctx, env, reqs)
        if not found:
            found["%s:unattributed" % kind] = {
                "syscalls": [(sc, p.replace(outer, "<outer>"), ln.replace(outer, "<outer>")) for sc, p, ln in viol[:5]],
                "changed": changed, "requests": [(r["verb"], r["args"]) for r in reqs]}
        for key, detail in sorted(found.items()):
            detail["session_syscalls"] = [(sc, p.replace(outer, "<outer>")) for sc, p, _ in viol[:8]]
            ctx.fail(key, "real `brz serve --inet` under strace: %s" % (detail["session_syscalls"] or changed or "canary in output"), detail)
    for r in reqs[:answered]:
        ctx.hist("strace_verb_family:%s" % G.family(r["verb"]))
        ctx.note(("strace", r["verb"], r["args"]), nontrivial=True,
                 sample={"monitor": "strace", "verb": r["verb"], "args": r["args"]} if rng.random() < 0.02 else None)


def case(ctx):
    if ctx.tier == "thorough" and ctx.index % STRACE_EVERY == 0:
        return strace_case(ctx)
    return inproc_case(ctx)
