"""C23 - checkouts and their master branches stay in step.

Program half: generated programs over one master (with its own tree), two heavyweight checkouts and
one lightweight checkout - commit in master / in a checkout / --local, update, pull (from the master and
from the other checkout), unbind / bind.  A three-tip model predicts which commits are refused and where
the tips must be afterwards; every branch and repository is reached through the vf+ transport, so the
order of the `last-revision` writes of a bound commit is observed, not inferred.

Fault half: one bound commit, re-executed on fresh copies with a transport error / a simulated process
stop injected at the mutating transport operations around the two tip writes plus a sample of the others:
the master may end up ahead of the checkout, the checkout never ahead of the master, and a tip never
names a revision its repository does not have.
"""
import io
import os
import shutil

from vf import gen, instr
from vf.checks import _c16_hist as H

ID = "C23"
LEVEL = "exploration"
TECHNIQUE = ("three-tip reference model + transport-log order monitor on generated checkout programs; transport fault / crash injection between the master and "
             "local tip writes of a bound commit, judged with fresh objects")
LEVEL_TEXT = ("generated programs (commit in master, in two heavyweight and one lightweight checkout, commit --local, update via API and command, pull from master and from "
              "the other checkout, unbind/bind): bound commit succeeds exactly when local tip == master tip and then both tips are the new revision with the master's "
              "last-revision written first; refused commits (BoundBranchOutOfDate / OutOfDateTree) change no tip and no repository; --local touches nothing under the "
              "master; update / pull from master leave local == master with local commits pending; injected transport faults and crashes at the tip writes never leave "
              "the checkout ahead of the master")
RULE = ("program case = 10-14 (quick) / 20-40 (thorough) ops drawn with weights over {commit x 4 trees, commit --local, update, pull master, pull sibling, unbind, bind}; one "
        "evaluation per executed op; non-trivial = op whose outcome depends on the relative histories (bound commit, refusal, update/pull that moves a tip, --local); "
        "distinct = (op, outcome class, relation of local and master tips before). fault case = (kind, position) over the mutating ops of one bound commit")
CASES = {"quick": 48, "thorough": 400}
BUDGET_S = {"quick": 150, "thorough": 600}
MIN_EVALS = {"quick": 250, "thorough": 1500}
FLOORS = {"quick": {"bound_commit_ok": 25, "order_monitor": 25, "refusal_unchanged": 15, "ood_same_revno": 3, "local_commit": 10, "update_sync": 20, "pull_sync": 8, "pull_stop_below_tip": 3, "race_refused": 3, "fault_runs": 60, "fault_after_master_before_local": 10},
          "thorough": {"bound_commit_ok": 150, "order_monitor": 150, "refusal_unchanged": 100, "ood_same_revno": 15, "local_commit": 80, "update_sync": 150, "pull_sync": 50, "pull_stop_below_tip": 20, "race_refused": 20,
                       "fault_runs": 400, "fault_after_master_before_local": 40}}
ASSUMPTIONS = ["the model's ancestry relation is computed from the parents the harness itself observed at each commit",
               "fault model: one TransportError-class exception instead of the k-th mutating transport operation, or a process stop before it (C04's crash model); "
               "working-tree (dirstate) writes do not go through a transport and are not fault points",
               "pull from a sibling checkout is judged only by invariants (tips move only to the source's tip; a checkout that was not ahead of its master is not ahead afterwards)"]

PREFIX = "vfl+"
_registered = [False]


def _install():
    """vf+ for branches/repositories; a private local-capable twin (vfl+) so that a heavyweight checkout's own branch is observable too."""
    from dromedary import register_transport

    instr.install()
    if not _registered[0]:

        class VflTransport(instr.VfTransport):
            @classmethod
            def _get_url_prefix(cls):
                return PREFIX

            def local_abspath(self, relpath):
                return self._decorated.local_abspath(relpath)

        register_transport(PREFIX, VflTransport)
        _registered[0] = True


def worker_init(tier):
    os.environ["RUST_BACKTRACE"] = "0"
    _install()


def lurl(path):
    from dromedary import urlutils

    return PREFIX + urlutils.local_path_to_url(path)


class _Out(io.StringIO):
    encoding = "utf-8"


TREES = ["m", "c1", "c2", "lw"]
CHECKOUTS = ["c1", "c2"]


class W:
    """The real world: paths, the instrumented World, and fresh-object accessors."""

    def __init__(self, root):
        self.root = root
        self.world = instr.World(root)
        self.p = {t: os.path.join(root, t) for t in TREES}

    def tree(self, t):
        from breezy.workingtree import WorkingTree

        if t == "lw":
            return WorkingTree.open(self.p[t])  # its branch reference is a vf+ URL
        return WorkingTree.open(lurl(self.p[t]))

    def master_branch(self):
        from breezy.branch import Branch

        return Branch.open(self.world.url(self.p["m"]))

    def observe(self):
        """Uninstrumented, fresh objects: tips, revision sets, tree parents, bound flags."""
        from breezy.branch import Branch
        from breezy.workingtree import WorkingTree

        o = {"tip": {}, "revs": {}, "parents": {}, "bound": {}}
        for b in ("m", "c1", "c2"):
            br = Branch.open(self.p[b])
            o["tip"][b] = br.last_revision_info()
            with br.lock_read():
                o["revs"][b] = frozenset(br.repository.all_revision_ids())
            if b != "m":
                o["bound"][b] = br.get_bound_location() is not None
        for t in TREES:
            o["parents"][t] = list(WorkingTree.open(self.p[t]).get_parent_ids())
        return o


def build_world(ctx, rng, fmt="2a"):
    from breezy.branch import Branch

    root = os.path.join(ctx.tmp("c23"), "w")
    os.makedirs(root)
    w = W(root)
    m = gen.make_tree(w.p["m"], fmt)
    for f in ("shared", "m.txt", "c1.txt", "c2.txt", "lw.txt"):
        with open(os.path.join(w.p["m"], f), "wb") as fh:
            fh.write(b"base %s\n" % f.encode())
    m.add(["shared", "m.txt", "c1.txt", "c2.txt", "lw.txt"])
    m.commit("base", rev_id=b"r0")
    with w.world.active(), w.world.actor("A"):
        mb = Branch.open(w.world.url(w.p["m"]))
        mb.create_checkout(w.p["c1"], lightweight=False)
        mb.create_checkout(w.p["c2"], lightweight=False)
        mb.create_checkout(w.p["lw"], lightweight=True)
    return w


class Model:
    def __init__(self):
        self.tip = {"m": b"r0", "c1": b"r0", "c2": b"r0"}
        self.revno = {"m": 1, "c1": 1, "c2": 1}
        self.bound = {"c1": True, "c2": True}
        self.pm = {b"r0": ()}
        self.n = 0

    def anc(self, a, b):
        return H.is_ancestor(self.pm, a, b)

    def rel(self, c):
        """Relation of checkout c's tip to the master's."""
        a, b = self.tip[c], self.tip["m"]
        if a == b:
            return "equal"
        if self.anc(a, b):
            return "behind"
        if self.anc(b, a):
            return "ahead"
        return "diverged"

    def lh_revno(self, rev):
        return len(H.lefthand(self.pm, rev))


def _edit(w, t, rng, n):
    p = os.path.join(w.p[t], t + ".txt")
    with open(p, "ab") as f:
        f.write(b"%s line %d\n" % (t.encode(), n))
    if rng.random() < 0.12:
        with open(os.path.join(w.p[t], "shared"), "ab") as f:
            f.write(b"shared by %s %d\n" % (t.encode(), n))


def _tipwrites(log):
    return [e for e in log if e.op.startswith("put_") and e.path.endswith(".bzr/branch/last-revision") and not e.error]


OPS = [("commit:c1", 7), ("commit:c2", 7), ("commit:m", 3), ("commit:lw", 3), ("commit-local:c1", 3), ("commit-local:c2", 3),
       ("update:c1", 4), ("update:c2", 4), ("update:m", 2), ("update:lw", 2), ("pull-master:c1", 2), ("pull-master:c2", 2),
       ("pull-sibling:c1", 2), ("pull-sibling:c2", 2), ("pull-sibling-stop:c1", 1), ("pull-sibling-stop:c2", 1), ("race:c1", 1), ("race:c2", 1), ("unbind:c1", 1), ("unbind:c2", 1), ("bind:c1", 2), ("bind:c2", 2), ("tag:c1", 1), ("tag:c2", 1)]


def _classify(fn):
    """Run the operation under test; documented refusals are classified, anything else escapes."""
    from breezy import errors
    from breezy.commit import PointlessCommit

    try:
        r = fn()
        return "ok", r
    except errors.BoundBranchOutOfDate:
        return "BoundBranchOutOfDate", None
    except errors.OutOfDateTree:
        return "OutOfDateTree", None
    except errors.LocalRequiresBoundBranch:
        return "LocalRequiresBoundBranch", None
    except errors.DivergedBranches:
        return "DivergedBranches", None
    except errors.LockContention:
        return "LockContention", None
    except PointlessCommit:
        return "PointlessCommit", None


def _unchanged(ctx, before, after, key, what, detail, trees=True):
    bad = []
    for k in ("tip", "revs") + (("parents",) if trees else ()):
        for b in before[k]:
            if before[k][b] != after[k][b]:
                bad.append("%s[%s]" % (k, b))
    if bad:
        d = dict(detail)
        d["changed"] = bad
        d["tips_before"] = repr(before["tip"])
        d["tips_after"] = repr(after["tip"])
        ctx.fail(key, "%s, but %s changed" % (what, ", ".join(bad)), d)
    return not bad


def program_case(ctx):
    from breezy import errors
    from breezy.branch import Branch

    rng = ctx.rng
    fmt = "2a" if (ctx.tier == "quick" or rng.random() < 0.8) else "1.14-rich-root"
    try:
        w = build_world(ctx, rng, fmt)
    except (errors.BzrError, OSError) as e:
        ctx.discard("workload:%s" % type(e).__name__)
    mdl = Model()
    nops = rng.randint(10, 14) if ctx.tier == "quick" else rng.randint(20, 40)
    names, weights = [o for o, _ in OPS], [x for _, x in OPS]
    prog = []
    queue = []
    ctx.info = {"program": prog, "fmt": fmt}
    for step in range(nops):
        op, t = rng.choices(names, weights)[0].split(":")
        if queue:
            op, t = queue.pop(0)
        elif rng.random() < 0.06:
            # macro: a local commit and one commit through the sibling, then a bound commit: diverged at equal revnos
            c = rng.choice(CHECKOUTS)
            o = "c2" if c == "c1" else "c1"
            op, t = "update", c
            queue.extend([("update", o), ("commit-local", c), ("commit", o), ("commit", c)])
        elif rng.random() < 0.05:
            # macro: a commit and a tag made through one checkout, then the sibling pulls from it (new revisions arrive and tags are merged
            # to the sibling and to its master)
            c = rng.choice(CHECKOUTS)
            op, t = "update", c
            queue.extend([("commit", c), ("tag", c), ("pull-sibling", "c2" if c == "c1" else "c1")])
        elif rng.random() < 0.07:
            # macro: the sibling gets two or three local commits ahead, then this checkout pulls from it up to a revision below its tip
            c = rng.choice(CHECKOUTS)
            o = "c2" if c == "c1" else "c1"
            op, t = "update", c
            queue.extend([("update", o)] + [("commit-local", o)] * rng.randint(2, 3) + [("pull-sibling-stop", c)])
        elif rng.random() < 0.07:
            # macro: both checkouts in step with the master, then one commits while the other's commit is between its unlocked
            # comparison with the master and taking the master's lock
            c = rng.choice(CHECKOUTS)
            op, t = "update", c
            queue.extend([("update", "c2" if c == "c1" else "c1"), ("race", c)])
        lagging = [c for c in CHECKOUTS if mdl.bound[c] and mdl.rel(c) in ("ahead", "diverged")]
        if lagging and not queue and rng.random() < 0.3:
            op, t = "update", rng.choice(lagging)  # local commits waiting to become pending merges
        prog.append("%s:%s" % (op, t))
        before = w.observe()
        # the model and the world agree before every op (else an earlier oracle already failed)
        for b in mdl.tip:
            if before["tip"][b][1] != mdl.tip[b]:
                ctx.fail("model-desync", "model tip %r, real %r for %s" % (mdl.tip[b], before["tip"][b], b), {"program": list(prog)}, stop=True)
        w.world.log[:] = []
        detail = {"step": step, "op": prog[-1], "tips": {k: v.decode() for k, v in mdl.tip.items()}, "bound": dict(mdl.bound), "program": list(prog)}
        with w.world.active(), w.world.actor("A"):
            if op in ("commit", "commit-local"):
                _do_commit(ctx, rng, w, mdl, t, op == "commit-local", before, detail)
            elif op == "update":
                _do_update(ctx, rng, w, mdl, t, before, detail)
            elif op == "pull-master":
                _do_pull(ctx, rng, w, mdl, t, "m", before, detail)
            elif op == "pull-sibling":
                _do_pull(ctx, rng, w, mdl, t, "c2" if t == "c1" else "c1", before, detail)
            elif op == "pull-sibling-stop":
                _do_pull(ctx, rng, w, mdl, t, "c2" if t == "c1" else "c1", before, detail, stop=True)
            elif op == "race":
                _do_race(ctx, rng, w, mdl, t, "c2" if t == "c1" else "c1", before, detail)
            elif op == "unbind":
                if mdl.bound[t]:
                    w.tree(t).branch.unbind()
                    mdl.bound[t] = False
                    after = w.observe()
                    _unchanged(ctx, before, after, "unbind:changed-state", "unbind", detail)
                    ctx.check(after["bound"][t] is False, "unbind:still-bound", "still bound after unbind", detail)
                    ctx.note(("unbind", mdl.rel(t)), nontrivial=False)
            elif op == "bind":
                if not mdl.bound[t]:
                    w.tree(t).branch.bind(w.master_branch())
                    mdl.bound[t] = True
                    after = w.observe()
                    _unchanged(ctx, before, after, "bind:changed-state", "bind", detail)
                    ctx.check(after["bound"][t] is True, "bind:not-bound", "not bound after bind", detail)
                    ctx.note(("bind", mdl.rel(t)), nontrivial=False)
            elif op == "tag":
                # tags travel with pull/commit to the master; they must never disturb the tips
                br = w.tree(t).branch
                out, _ = _classify(lambda: br.tags.set_tag("tag-%s-%d" % (t, step), mdl.tip[t]))
                ctx.hist("tag:" + out)


def _do_commit(ctx, rng, w, mdl, t, local, before, detail):
    mdl.n += 1
    _edit(w, t, rng, mdl.n)
    newrev = b"%s-%d" % (t.encode(), mdl.n)
    parents = before["parents"][t]
    basis = parents[0] if parents else H.NULL
    bk = t if t in CHECKOUTS else "m"
    # ---- the model's prediction
    if t in CHECKOUTS:
        if local:
            expect = "LocalRequiresBoundBranch" if not mdl.bound[t] else ("OutOfDateTree" if basis != mdl.tip[t] else "ok-local")
        elif mdl.bound[t]:
            expect = "BoundBranchOutOfDate" if mdl.tip[t] != mdl.tip["m"] else ("OutOfDateTree" if basis != mdl.tip["m"] else "ok-bound")
        else:
            expect = "OutOfDateTree" if basis != mdl.tip[t] else "ok-unbound"
    else:
        expect = "OutOfDateTree" if basis != mdl.tip["m"] else "ok-master"
    rel = mdl.rel(t) if t in CHECKOUTS else "-"
    wt = w.tree(t)
    out, _ = _classify(lambda: wt.commit("commit %d in %s" % (mdl.n, t), rev_id=newrev, local=local))
    after = w.observe()
    tw = _tipwrites(w.world.log)
    detail = dict(detail, expect=expect, outcome=out, tipwrites=[e.path for e in tw], basis=basis.decode())
    ctx.hist("commit:%s%s:%s" % (t if t not in CHECKOUTS else "checkout", "-local" if local else "", out if out != "ok" else expect))
    if (out if out != "ok" else expect) != expect or (out == "ok") != expect.startswith("ok"):
        ctx.fail("commit:outcome:%s-expected-%s" % (out, expect), "commit%s in %s (%s, bound=%s): %s, model expects %s"
                 % (" --local" if local else "", t, rel, mdl.bound.get(t), out, expect), detail, stop=True)
    if out != "ok":
        ctx.count("refusal_unchanged")
        if out == "BoundBranchOutOfDate":
            same = before["tip"][t][0] == before["tip"]["m"][0]
            ctx.hist("commit:BoundBranchOutOfDate:%s:%s" % (rel, "same-revno" if same else "other-revno"))
            if same:
                ctx.count("ood_same_revno")
        _unchanged(ctx, before, after, "commit:refused-but-changed:" + out, "commit refused with " + out, detail)
        ctx.check(not tw, "commit:refused-but-wrote-tip:" + out, "refused commit wrote %r" % [e.path for e in tw], detail)
        ctx.note(("commit", t, local, out, rel, len(parents), tuple(sorted(mdl.bound.items()))), nontrivial=True)
        return
    mdl.pm[newrev] = tuple(parents)
    new_revno = mdl.lh_revno(newrev)
    m_writes = [i for i, e in enumerate(tw) if e.path.startswith("m/")]
    l_writes = [i for i, e in enumerate(tw) if e.path.startswith(t + "/")] if t in CHECKOUTS else []
    if expect == "ok-bound":
        ctx.count("bound_commit_ok")
        mdl.tip[t] = mdl.tip["m"] = newrev
        ok = ctx.check(after["tip"][t] == after["tip"]["m"] == (new_revno, newrev), "commit:bound:tips",
                       "after bound commit local %r master %r, expected both %r" % (after["tip"][t], after["tip"]["m"], (new_revno, newrev)), detail)
        ctx.count("order_monitor")
        if not m_writes or not l_writes:
            ctx.fail("commit:bound:tip-write-not-observed", "transport log shows tip writes %r" % [e.path for e in tw], detail)
        elif min(l_writes) < min(m_writes):
            ctx.fail("commit:bound:local-tip-written-before-master", "last-revision writes in order %r" % [e.path for e in tw], detail)
        ctx.check(newrev in after["revs"]["m"] and newrev in after["revs"][t], "commit:bound:revision-missing", "new revision not in both repositories", detail)
        other = "c2" if t == "c1" else "c1"
        ctx.check(after["tip"][other] == before["tip"][other], "commit:bound:sibling-moved", "the other checkout's tip moved", detail)
    elif expect == "ok-local":
        ctx.count("local_commit")
        mdl.tip[t] = newrev
        ctx.check(after["tip"][t] == (new_revno, newrev), "commit:local:tip", "after commit --local local %r" % (after["tip"][t],), detail)
        ctx.check(after["tip"]["m"] == before["tip"]["m"] and after["revs"]["m"] == before["revs"]["m"], "commit:local:master-changed",
                  "commit --local changed the master (tip %r -> %r)" % (before["tip"]["m"], after["tip"]["m"]), detail)
        touched = [e.op + " " + e.path for e in w.world.log if e.mut and e.path.startswith("m/")]
        ctx.check(not touched, "commit:local:master-touched", "commit --local performed mutating transport ops under the master: %r" % touched[:5], detail)
    elif expect == "ok-unbound":
        mdl.tip[t] = newrev
        ctx.check(after["tip"][t] == (new_revno, newrev), "commit:unbound:tip", "after unbound commit local %r" % (after["tip"][t],), detail)
        ctx.check(after["tip"]["m"] == before["tip"]["m"] and after["revs"]["m"] == before["revs"]["m"], "commit:unbound:master-changed", "unbound commit changed the master", detail)
    else:
        mdl.tip["m"] = newrev
        ctx.check(after["tip"]["m"] == (new_revno, newrev), "commit:master:tip", "after commit in %s master %r" % (t, after["tip"]["m"]), detail)
        for c in CHECKOUTS:
            ctx.check(after["tip"][c] == before["tip"][c] and after["revs"][c] == before["revs"][c], "commit:master:checkout-changed",
                      "a commit to the master changed checkout %s" % c, detail)
    ctx.note(("commit", t, local, expect, rel, len(parents), tuple(sorted(mdl.bound.items())), mdl.rel("c2" if t == "c1" else "c1")), nontrivial=expect in ("ok-bound", "ok-local"),
             sample={"op": detail["op"], "relation_before": rel, "outcome": expect, "tip_writes_in_order": [e.path for e in tw], "tree_parents_before": len(parents)}
             if expect == "ok-bound" and len(parents) > 1 else None)


def _do_update(ctx, rng, w, mdl, t, before, detail):
    via = rng.choice(["api", "cmd"])
    old_local = mdl.tip[t] if t in CHECKOUTS else None
    rel = mdl.rel(t) if t in CHECKOUTS else "-"

    def run():
        if via == "api":
            return w.tree(t).update()
        from breezy.builtins import cmd_update

        c = cmd_update()
        c.outf = _Out()
        c._setup_outf = lambda: None
        return c.run_argv_aliases([w.p[t] if t == "lw" else lurl(w.p[t])])

    out, nconf = _classify(run)
    after = w.observe()
    detail = dict(detail, via=via, outcome=out, conflicts=nconf, relation_before=rel)
    ctx.hist("update:%s:%s" % ("checkout" if t in CHECKOUTS else t, out))
    if out != "ok":
        ctx.fail("update:raised:" + out, "update in %s (%s) raised %s" % (t, rel, out), detail, stop=True)
    try:
        gen.resolve_all(w.tree(t))
    except Exception:
        pass
    ctx.check(after["tip"]["m"] == before["tip"]["m"] and after["revs"]["m"] == before["revs"]["m"], "update:master-changed", "update changed the master", detail)
    if t in CHECKOUTS and mdl.bound[t]:
        ctx.count("update_sync")
        mdl.tip[t] = mdl.tip["m"]
        ctx.check(after["tip"][t] == after["tip"]["m"], "update:local-not-equal-master", "after update local %r master %r" % (after["tip"][t], after["tip"]["m"]), detail)
        if rel in ("ahead", "diverged"):
            ctx.count("update_local_commits_pending")
            ctx.check(old_local in after["parents"][t][1:] or (after["parents"][t] and mdl.anc(old_local, after["parents"][t][0])), "update:local-commits-not-pending",
                      "local tip %r is neither a pending merge nor merged after update: parents %r" % (old_local, after["parents"][t]), detail)
            ctx.check(old_local in after["revs"][t], "update:local-commits-lost", "local revision gone from the local repository", detail)
        if not nconf:
            ctx.check(after["parents"][t][:1] == [mdl.tip["m"]], "update:tree-basis", "tree basis %r after conflict-free update, master tip %r" % (after["parents"][t][:1], mdl.tip["m"]), detail)
    else:
        bk = t if t in CHECKOUTS else "m"
        for b in mdl.tip:
            ctx.check(after["tip"][b] == before["tip"][b], "update:tip-moved", "update of %s moved the tip of %s" % (t, b), detail)
        if not nconf:
            ctx.check(after["parents"][t][:1] == [mdl.tip[bk]], "update:tree-basis", "tree basis %r after update, branch tip %r" % (after["parents"][t][:1], mdl.tip[bk]), detail)
    ctx.note(("update", t, mdl.bound.get(t), rel, bool(nconf), via, len(before["parents"][t])), nontrivial=t in CHECKOUTS and rel != "equal")


def _do_pull(ctx, rng, w, mdl, t, src, before, detail, stop=False):
    from breezy.branch import Branch

    rel = mdl.rel(t)
    src_tip = mdl.tip[src]
    stop_rev = None
    if stop:
        # pull -r: a left-hand ancestor of the source's tip that the target does not have yet (if there is one)
        lh = [r for r in H.lefthand(mdl.pm, src_tip) if r != H.NULL and not mdl.anc(r, mdl.tip[t])]
        below = [r for r in lh if r != src_tip]
        if below:
            stop_rev = rng.choice(below)
            src_tip = stop_rev
            ctx.count("pull_stop_below_tip")
    sb = Branch.open(w.world.url(w.p[src]))
    wt = w.tree(t)
    out, _ = _classify(lambda: wt.pull(sb, stop_revision=stop_rev) if stop_rev is not None else wt.pull(sb))
    after = w.observe()
    detail = dict(detail, source=src, outcome=out, relation_before=rel, stop_revision=stop_rev.decode() if stop_rev else None)
    ctx.hist("pull:%s:%s:%s" % ("master" if src == "m" else "sibling", rel, out))
    try:
        gen.resolve_all(w.tree(t))
    except Exception:
        pass
    if out == "LockContention":
        ctx.fail("pull:self-deadlock-on-master-lock", "pull from %s into bound checkout %s raised LockContention on the master this very process had locked (tips %r)"
                 % (src, t, after["tip"]), detail)
        for b in mdl.tip:  # resync the model from what happened
            mdl.tip[b] = after["tip"][b][1]
        return
    if out not in ("ok", "DivergedBranches"):
        ctx.fail("pull:raised:" + out, "pull raised %s" % out, detail, stop=True)
    # invariants: tips move only to the source's tip; the source does not move
    for b in mdl.tip:
        allowed = {before["tip"][b][1], src_tip} if b in (t, "m") and b != src else {before["tip"][b][1]}
        if not (mdl.bound[t] or b == t):
            allowed = {before["tip"][b][1]}
        ctx.check(after["tip"][b][1] in allowed, "pull:tip-moved-elsewhere", "pull %s<-%s: tip of %s went %r -> %r" % (t, src, b, before["tip"][b], after["tip"][b]), detail)
    if src == "m":
        ctx.check(after["tip"]["m"] == before["tip"]["m"] and after["revs"]["m"] == before["revs"]["m"], "pull:master-changed", "pull from the master changed the master", detail)
        if out == "ok" and rel in ("equal", "behind"):
            ctx.count("pull_sync")
            ctx.check(after["tip"][t] == after["tip"]["m"], "pull:local-not-equal-master", "after pull from master local %r master %r" % (after["tip"][t], after["tip"]["m"]), detail)
        if out == "DivergedBranches":
            ctx.check(rel == "diverged", "pull:diverged-raised-on-%s" % rel, "DivergedBranches although local is %s the master" % rel, detail)
            # (the local repository may have fetched the master's revisions before the divergence was noticed: not a branch change)
            for b in mdl.tip:
                ctx.check(after["tip"][b] == before["tip"][b], "pull:refused-but-tip-moved", "pull refused with DivergedBranches but the tip of %s moved" % b, detail)
        if out == "ok" and rel == "diverged":
            ctx.fail("pull:diverged-not-refused", "pull from master succeeded although the local branch had diverged: local %r master %r" % (after["tip"][t], after["tip"]["m"]), detail)
    else:
        if mdl.bound[t]:
            if out == "ok" and rel == "equal":
                ctx.count("pull_sync")
                ctx.check(after["tip"][t] == after["tip"]["m"], "pull:sibling:local-not-equal-master",
                          "checkout was in step, pull from %s left local %r master %r" % (src, after["tip"][t], after["tip"]["m"]), detail)
            if rel in ("equal", "behind"):
                pm = mdl.pm
                ctx.check(H.is_ancestor(pm, after["tip"][t][1], after["tip"]["m"][1]), "pull:sibling:local-ahead-of-master",
                          "checkout was not ahead of its master before, after pull from %s local %r master %r" % (src, after["tip"][t], after["tip"]["m"]), detail)
    for b in mdl.tip:
        mdl.tip[b] = after["tip"][b][1]
    ctx.note(("pull", t, src, mdl.bound[t], rel, out, mdl.rel(src) if src != "m" else "-"), nontrivial=rel != "equal" or src != "m")


def _do_race(ctx, rng, w, mdl, a, b, before, detail):
    """Checkout `a` commits; when it is about to take the master's branch lock (after its unlocked comparison of local and master
    tips) checkout `b` - another process in reality - commits through the master.  The master has moved: a's commit must be refused
    and change nothing; whatever happens, an accepted revision never drops out of the master's history."""
    if not (mdl.bound[a] and mdl.bound[b] and mdl.rel(a) == "equal" and mdl.rel(b) == "equal"
            and before["parents"][a][:1] == [mdl.tip["m"]] and before["parents"][b][:1] == [mdl.tip["m"]]
            and len(before["parents"][a]) == 1 and len(before["parents"][b]) == 1):
        ctx.hist("race:precondition-not-met")
        return
    mdl.n += 1
    _edit(w, a, rng, mdl.n)
    rev_a = b"%s-%d" % (a.encode(), mdl.n)
    mdl.n += 1
    _edit(w, b, rng, mdl.n)
    rev_b = b"%s-%d" % (b.encode(), mdl.n)
    old_tip = mdl.tip["m"]
    state = {"fired": False, "out_b": None, "mid": None}

    def before_op(ev):
        if state["fired"] or ev.actor != "A" or ev.op != "mkdir" or not ev.path.startswith("m/.bzr/branch/lock"):
            return
        state["fired"] = True
        with w.world.actor("B"):
            wtb = w.tree(b)
            state["out_b"], _ = _classify(lambda: wtb.commit("racing commit in %s" % b, rev_id=rev_b))
        from breezy.branch import Branch

        state["mid"] = {k: Branch.open(w.p[k]).last_revision_info() for k in ("m", "c1", "c2")}

    w.world.before = before_op
    try:
        wta = w.tree(a)
        out_a, _ = _classify(lambda: wta.commit("commit in %s raced by %s" % (a, b), rev_id=rev_a))
    finally:
        w.world.before = None
    after = w.observe()
    detail = dict(detail, outcome_a=out_a, outcome_b=state["out_b"], mid=repr(state["mid"]), tips_after=repr(after["tip"]))
    if not state["fired"]:
        ctx.hist("race:hook-not-reached")
        for k in mdl.tip:
            mdl.tip[k] = after["tip"][k][1]
        if out_a == "ok":
            mdl.pm[rev_a] = (old_tip,)
        return
    ctx.count("race_runs")
    ctx.hist("race:%s/%s" % (out_a, state["out_b"]))
    if state["out_b"] == "ok":
        mdl.pm[rev_b] = (old_tip,)
    if out_a == "ok":
        mdl.pm[rev_a] = (old_tip,) if state["out_b"] != "ok" else tuple(after["parents"][a][:0]) or (old_tip,)
    if state["out_b"] == "ok":
        ctx.check(state["mid"]["m"][1] == rev_b and state["mid"][b][1] == rev_b, "race:racer-commit:tips", "racing bound commit returned but tips are %r" % (state["mid"],), detail)
        # the master moved under a's feet: the statement demands a refusal that changes nothing
        if out_a == "ok":
            ctx.fail("race:commit-accepted-although-master-moved", "commit in %s was accepted although %s had moved the master between its comparison and its lock; master %r" % (
                a, b, after["tip"]["m"]), detail)
        else:
            ctx.count("race_refused")
            ctx.check(after["tip"]["m"] == state["mid"]["m"] and after["tip"][a] == state["mid"][a] and after["tip"][b] == state["mid"][b],
                      "race:refused-but-tip-moved", "commit refused with %s but tips went %r -> %r" % (out_a, state["mid"], after["tip"]), detail)
            ctx.check(rev_a not in after["revs"]["m"], "race:refused-but-revision-in-master", "refused revision %r is in the master repository" % rev_a, detail)
        # an accepted revision never drops out of the master's left-hand history
        with w.master_branch().lock_read():
            pass
        from breezy.branch import Branch

        mb = Branch.open(w.p["m"])
        with mb.lock_read():
            hist = set(mb.repository.get_graph().iter_lefthand_ancestry(mb.last_revision(), [H.NULL]))
        ctx.check(rev_b in hist, "race:accepted-revision-dropped-from-master", "revision %r was accepted by the master and is no longer in its history (tip %r)" % (rev_b, after["tip"]["m"]), detail)
    for k in mdl.tip:
        mdl.tip[k] = after["tip"][k][1]
    ctx.note(("race", a, out_a, state["out_b"]), nontrivial=True)


# ---------------------------------------------------------------- fault half

def _repoint(root, world):
    """A copied world still names the template's master: re-point bound locations and the lightweight reference."""
    from breezy.branch import Branch
    from breezy.bzr.branch import BranchReferenceFormat
    from breezy.controldir import ControlDir

    murl = world.url(os.path.join(root, "m"))
    for c in CHECKOUTS:
        Branch.open(os.path.join(root, c)).set_bound_location(murl)
    BranchReferenceFormat().set_reference(ControlDir.open(os.path.join(root, "lw")), None, Branch.open(murl))


def fault_case(ctx):
    from breezy import errors
    from breezy.branch import Branch
    from dromedary import errors as terr

    rng = ctx.rng
    w = build_world(ctx, rng)
    # some history first, so that the bound commit has to fetch / carries a pending merge now and then
    t = rng.choice(CHECKOUTS)
    other = "c2" if t == "c1" else "c1"
    n = 0
    with w.world.active(), w.world.actor("A"):
        for _ in range(rng.randint(0, 2)):
            n += 1
            _edit(w, other, rng, n)
            w.tree(other).commit("pre %d" % n, rev_id=b"pre-%d" % n)
        with_pending = rng.random() < 0.4
        if with_pending:
            n += 1
            _edit(w, t, rng, n)
            w.tree(t).commit("local %d" % n, rev_id=b"loc-%d" % n, local=True)
        w.tree(t).update()
        gen.resolve_all(w.tree(t))
    _edit(w, t, rng, 99)
    tpl = w.root
    old = Branch.open(w.p[t]).last_revision_info()
    assert Branch.open(w.p["m"]).last_revision_info() == old
    newrev = b"faulted-1"

    def fresh(tag):
        root = os.path.join(ctx.tmp(tag), "w")
        shutil.copytree(tpl, root, symlinks=True)
        w2 = W(root)
        _repoint(root, w2.world)
        return w2

    dry = fresh("dry")
    with dry.world.active(), dry.world.actor("A"):
        dry.tree(t).commit("faulted", rev_id=newrev)
    muts = dry.world.mutating_events("A")
    tipk = [i + 1 for i, e in enumerate(muts) if e.op.startswith("put_") and e.path.endswith(".bzr/branch/last-revision")]
    if len(tipk) != 2 or not muts[tipk[0] - 1].path.startswith("m/"):
        ctx.fail("fault:dry-run-tip-writes", "dry run shows tip writes %r" % [muts[k - 1].path for k in tipk], None, stop=True)
    km, kl = tipk
    nm = len(muts)
    if ctx.tier == "quick":
        ks = set(range(max(1, km - 1), min(nm, kl + 2) + 1))
        rest = [k for k in range(1, nm + 1) if k not in ks]
        rng.shuffle(rest)
        ks |= set(rest[:4])
    else:
        ks = set(range(max(1, km - 3), min(nm, kl + 3) + 1))
        rest = [k for k in range(1, nm + 1) if k not in ks]
        rng.shuffle(rest)
        ks |= set(rest[:16])
    ctx.hist("fault:mutating-ops-in-bound-commit=%d" % (nm // 10 * 10))
    ctx.hist("fault:ops-between-tip-writes=%d" % (kl - km - 1))
    kinds = [("error:TransportError", lambda ev: terr.TransportError("injected at %s %s" % (ev.op, ev.path))),
             ("error:PermissionDenied", lambda ev: terr.PermissionDenied(ev.path)),
             ("crash", None)]
    for k in sorted(ks):
        for kname, fac in (kinds if ctx.tier != "quick" else [kinds[k % 2], kinds[2]]):
            w2 = fresh("flt")
            if fac is None:
                w2.world.crash_at["A"] = k
            else:
                w2.world.fail_at["A"] = (k, fac)
            raised = None
            with w2.world.active(), w2.world.actor("A"):
                try:
                    w2.tree(t).commit("faulted", rev_id=newrev)
                except instr.SimulatedCrash as e:
                    raised = e
                except Exception as e:
                    raised = e
            ctx.count("fault_runs")
            ev = muts[k - 1]
            where = "before-master-write" if k < km else ("master-write" if k == km else ("between" if k < kl else ("local-write" if k == kl else "after-local-write")))
            # judge with fresh, uninstrumented objects (reads only)
            lt = Branch.open(w2.p[t]).last_revision_info()
            mb = Branch.open(w2.p["m"])
            mt = mb.last_revision_info()
            lb = Branch.open(w2.p[t])
            new = (old[0] + 1, newrev)
            detail = {"position": k, "of": nm, "op": ev.op, "path": ev.path, "where": where, "kind": kname, "raised": repr(raised)[:200],
                      "local": repr(lt), "master": repr(mt), "old": repr(old), "ops": ["%s %s" % (e.op, e.path) for e in muts[max(0, km - 3):kl + 2]]}
            ctx.hist("fault:%s:%s:%s" % (where, kname.split(":")[0], "raised" if raised is not None else "completed"))
            state = ("new" if mt == new else "old" if mt == old else "other", "new" if lt == new else "old" if lt == old else "other")
            ctx.distinct("fault_end_state", (where, kname, state))
            if "other" in state:
                ctx.fail("fault:tip-neither-old-nor-new", "after %s at %s: master %r local %r" % (kname, where, mt, lt), detail)
            elif state == ("old", "new"):
                ctx.fail("fault:local-ahead-of-master:" + where, "after %s at op %d (%s %s): local tip is the new revision, master still at the old one" % (kname, k, ev.op, ev.path), detail)
            if state[0] == "new":
                with mb.lock_read():
                    ctx.check(mb.repository.has_revision(newrev), "fault:master-tip-names-missing-revision", "master tip moved but its repository lacks the revision", detail)
            if state[1] == "new":
                with lb.lock_read():
                    ctx.check(lb.repository.has_revision(newrev), "fault:local-tip-names-missing-revision", "local tip moved but its repository lacks the revision", detail)
            if raised is None:
                ctx.check(state == ("new", "new"), "fault:completed-but-not-both-new", "commit returned normally but master %r local %r" % (mt, lt), detail)
            if where in ("between", "local-write") and raised is not None:
                # the master's tip is written, the local one is not (yet): the one state in which they may differ
                ctx.count("fault_after_master_before_local")
                ctx.check(state == ("new", "old"), "fault:between:not-master-ahead", "fault between the tip writes: master %r local %r" % (mt, lt), detail)
            ctx.note(("fault", where, kname, state, with_pending), nontrivial=True,
                     sample={"fault": kname, "position": "%d/%d" % (k, nm), "op": "%s %s" % (ev.op, ev.path), "where": where, "master": state[0], "local": state[1],
                             "commit_raised": type(raised).__name__ if raised is not None else None} if where in ("between", "local-write") else None)
            shutil.rmtree(os.path.dirname(w2.root), ignore_errors=True)


def case(ctx):
    _install()
    if ctx.index % 4 == 3:
        fault_case(ctx)
    else:
        program_case(ctx)
