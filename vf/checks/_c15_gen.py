"""C15 workload generator: a committed base tree with long text files, then a program of pending changes.

Structural ops come from vf.gen (gen_op / apply_real driven by the MWorld model, used here only for
legality); text edits with several separated hunks, symlink retargets and a few composite layouts
(replace a by b, swap two names, delete + re-add at the same path) are generated here.  Every op is a
JSON-able dict appended to `log`.
"""
import os

from vf import gen

WORDS = [b"alpha", b"beta", b"gamma", b"delta", b"eps", b"zeta", b"eta", b"theta"]
SYMLINK_TARGETS = ["nowhere", "../x", "tgt-a", "tgt b", "dir/é"]
COMMON = [b"\n", b"}\n", b"    return\n", b"# --\n", b"end\n", b"{\n"]

_n = [0]


def _uniq(tag=b"L"):
    _n[0] += 1
    return b"%s%d " % (tag, _n[0])


def long_lines(rng, n=None):
    """8-30 lines: mostly unique, with repeated 'common' lines and duplicates (ambiguous for diffs)."""
    n = n or rng.randint(8, 30)
    lines = []
    for _ in range(n):
        r = rng.random()
        if r < 0.22:
            lines.append(rng.choice(COMMON))
        elif r < 0.30 and lines:
            lines.append(rng.choice(lines))
        else:
            lines.append(_uniq() + rng.choice(WORDS) + b"\n")
    return lines


def flavour(rng, lines):
    """bytes of a file: sometimes without trailing newline, sometimes CRLF."""
    data = b"".join(lines)
    r = rng.random()
    if r < 0.10 and data.endswith(b"\n"):
        data = data[:-1]
    elif r < 0.16:
        data = data.replace(b"\n", b"\r\n")
    return data


def multi_edit(rng, old):
    """Edit with 1-5 changed regions spread over the file (replace / insert / delete / duplicate)."""
    lines = old.splitlines(True)
    if not lines:
        return flavour(rng, long_lines(rng, rng.randint(1, 6)))
    eol = b"\r\n" if lines[0].endswith(b"\r\n") else b"\n"
    k = rng.randint(1, 5)
    pos = sorted({rng.randrange(len(lines) + 1) for _ in range(k)}, reverse=True)
    for p in pos:
        r = rng.random()
        new = [_uniq(b"E") + rng.choice(WORDS) + eol for _ in range(rng.randint(1, 3))]
        if rng.random() < 0.2:
            new[0] = rng.choice(COMMON).replace(b"\n", eol)
        if r < 0.4 and p < len(lines):  # replace 1-3 lines
            lines[p:p + rng.randint(1, 3)] = new
        elif r < 0.7:  # insert
            lines[p:p] = new
        elif r < 0.9 and p < len(lines):  # delete 1-3 lines
            del lines[p:p + rng.randint(1, 3)]
        elif p < len(lines):  # duplicate a line
            lines.insert(p, lines[p])
        else:
            lines[p:p] = new
    out = b"".join(lines)
    if rng.random() < 0.08:
        out = out[:-1] if out.endswith(b"\n") else out + b"\n"
    if out == old:
        out = old + _uniq(b"E") + eol
    return out


def build_base(rng, wt, names):
    """Create + add + commit a base tree.  File ids are deterministic ("b<n>-name")."""
    base = wt.basedir
    paths, ids = [], []
    k = [0]

    def add(rel):
        k[0] += 1
        paths.append(rel)
        ids.append(("b%d-%s" % (k[0], "".join(c for c in rel if c.isalnum())[:10])).encode())

    dirs = [""]
    dn = list(names.dirs)
    rng.shuffle(dn)
    for d in dn[:rng.randint(1, len(dn))]:
        parent = rng.choice(dirs) if rng.random() < 0.4 else ""
        rel = (parent + "/" + d) if parent else d
        if rel.count("/") + 1 >= names.maxdepth or os.path.lexists(os.path.join(base, rel)):
            continue
        os.mkdir(os.path.join(base, rel))
        dirs.append(rel)
        add(rel)
    fn = list(names.files)
    rng.shuffle(fn)
    nfiles = rng.randint(3, min(7, len(fn)))
    for i in range(nfiles):
        d = rng.choice(dirs)
        rel = (d + "/" + fn[i]) if d else fn[i]
        if os.path.lexists(os.path.join(base, rel)):
            continue
        r = rng.random()
        ap = os.path.join(base, rel)
        if r < 0.08:
            # targets outside the namespace, so links can never form a loop: os.stat() on a symlink loop raises ELOOP inside
            # TreeTransform._set_mode (seen with a link to itself; a transform defect, not this property)
            os.symlink(rng.choice(SYMLINK_TARGETS), ap)
        else:
            if r < 0.14:
                data = b"bin\x00\x01" + _uniq(b"B") + b"\n" + b"".join(long_lines(rng, 3))
            elif r < 0.20:
                data = flavour(rng, long_lines(rng, rng.randint(0, 3)))
            else:
                data = flavour(rng, long_lines(rng))
            with open(ap, "wb") as f:
                f.write(data)
            if rng.random() < 0.25:
                os.chmod(ap, 0o755)
        add(rel)
    wt.add(paths, ids=ids)
    wt.commit("base", rev_id=b"base-1")
    return paths


WEIGHTS = {
    "mkfile": 4, "mkdir": 2, "symlink": 1, "add": 8, "edit": 0, "chmod": 3, "rename": 8,
    "remove": 3, "unversion": 0.7, "delete_disk": 0.4, "kindchange": 1.5,
}


def _files(w, kind="file"):
    return sorted(w.path(i) for i in gen._versioned(w, (kind,)))


def pending(rng, wt, names, nops, log, idprefix="n"):
    """Apply a program of pending changes to wt (no commit).  Returns number of ops applied.

    idprefix: prefix of the file ids given to added files (a second program on the same tree must not hand out the ids of the first).
    """
    w = gen.world_from_tree(wt)
    idn = [0]
    done = 0

    def real(op):
        if op["op"] == "add":
            idn[0] += 1
            op["id"] = "%s%d-%s" % (idprefix, idn[0], "".join(c for c in op["path"] if c.isalnum())[:10])
        try:
            gen.apply_real(wt, op)
        except Exception as e:  # refused by breezy (judged by C09, not here): resync the helper model
            log.append({"refused": gen.op_json(op), "err": type(e).__name__})
            return None
        log.append(gen.op_json(op))
        return True

    for _ in range(nops * 4):
        if done >= nops:
            break
        r = rng.random()
        ops = None
        if r < 0.30:  # multi-hunk text edit of a versioned file
            fl = _files(w)
            if fl:
                p = rng.choice(fl)
                old = w.ents[w.id_at(p)].content or b""
                if b"\x00" in old and rng.random() < 0.7:
                    new = old + _uniq(b"B") + b"\x00\n"
                else:
                    new = multi_edit(rng, old)
                ops = [{"op": "edit", "path": p, "content": new}]
        elif r < 0.34:  # symlink target change
            sl = _files(w, "symlink")
            if sl:
                p = rng.choice(sl)
                ops = [{"op": "kindchange", "path": p, "kind": "symlink", "content": rng.choice(["t1", "../t2", "tgt c", "été-t"])}]
        elif r < 0.37:  # replace: rm a; mv b a
            fl = _files(w)
            if len(fl) >= 2:
                a, b = rng.sample(fl, 2)
                ops = [{"op": "remove", "path": a}, {"op": "rename", "src": b, "dst": a}]
        elif r < 0.40:  # swap two names through a temporary
            fl = _files(w)
            if len(fl) >= 2:
                a, b = rng.sample(fl, 2)
                t = "swap.tmp"
                if w.free(t):
                    ops = [{"op": "rename", "src": a, "dst": t}, {"op": "rename", "src": b, "dst": a}, {"op": "rename", "src": t, "dst": b}]
        elif r < 0.43:  # delete then a new file (new id) at the same path
            fl = _files(w)
            if fl:
                a = rng.choice(fl)
                ops = [{"op": "remove", "path": a}, {"op": "mkfile", "path": a, "content": flavour(rng, long_lines(rng, rng.randint(2, 10)))},
                       {"op": "add", "path": a}]
        elif r < 0.47:  # new long file, added right away (sometimes executable)
            p = gen._new_path(rng, w, names, want_versioned_parent=True)
            if p:
                ops = [{"op": "mkfile", "path": p, "content": flavour(rng, long_lines(rng))}, {"op": "add", "path": p}]
                if rng.random() < 0.3:
                    ops.append({"op": "chmod", "path": p, "exec": True})
        if ops is None:
            op = gen.gen_op(rng, w, names, WEIGHTS)
            if op is None:
                continue
            if op["op"] == "mkfile" and rng.random() < 0.5:
                op["content"] = flavour(rng, long_lines(rng))
            if op["op"] == "symlink":
                op["target"] = rng.choice(SYMLINK_TARGETS)  # never a loop (see build_base)
            ops = [op]
        for op in ops:
            if real(op) is None:
                w = gen.world_from_tree(wt)
                break
            w.apply(op)
            done += 1
    return done
