"""C30 - a smart server never waits for bytes beyond the current request (and a client never
waits for bytes beyond the current response).

Liveness restated as safety on the read-size hints: while a well-formed message of length L is
being read with c bytes consumed, every read request n satisfies 0 < n <= L - c, and completion
(next_read_size() == 0 / medium request finished) is reported exactly at c == L.

Monitor 1 (in-process, exact) - same MWire messages as C29, bytes from the real encoders:
  stingy/direct   bare server protocol object: ask next_read_size(), check, deliver 1..n bytes
  pipe-loop       SmartServerPipeStreamMedium.serve() with _in = a file object whose read(n) checks
                  n <= bytes left in the CURRENT request and returns a short read; 2-3 requests in a
                  row; when the first byte of request k+1 is asked for, response k must be complete
                  (it decodes with the real client) and flushed
  socket-loop     SmartServerSocketStreamMedium.serve(), lock-step client (request k+1 is only sent
                  after response k): recv() with request k fully delivered and response k not yet
                  complete would block for ever
  client-pipe     _SmartClientRequest stack (v1/v2 read_line/read_bytes, v3 ConventionalResponseHandler
                  ._read_more) over SmartSimplePipesClientMedium whose pipe checks the same inequality
  rejected-body   (_c30_reject) well-formed v3 requests that carry a body (bytes / readv / stream / stream ending in
                  an error) for a verb that has already answered when the args arrived: harness verb answering ok /
                  failed / raising at do(), and ~20 real verbs against a path with no repository / branch / file
                  (Repository.get_parent_map, insert_stream, get, hello ...).  The real ConventionalRequestHandler
                  raises from every later part and ProtocolThreeDecoder.accept_bytes restarts its state machine;
                  the decoder must still stop exactly at the trailing 'e'.  Drivers: stingy/direct, then the pipe
                  loop with a FOLLOW-UP request (a regular exchange of any version, or hello; sometimes two
                  rejected bodies in a row first) that must be answered completely, then the lock-step socket loop.
                  An observer counts which handler callback raised in which handler state (handler_raised:*).
Monitor 2 (thorough, end-to-end): a real `python -m breezy serve --inet --allow-writes` child on
pipes, driven by the real client stack one request at a time, stdin kept open.  If a response does
not complete, the verdict is read from /proc/<pid>/syscall: blocked in read(0, ...) => violation;
anything else => inconclusive for that request (counted, not failed).
"""
import itertools
import os
import select
import subprocess
import time

from . import _c29_wire as W
from . import _c30_reject as RJ

ID = "C30"
LEVEL = "exploration"
TECHNIQUE = ("read-size monitor: stingy asserting pipe under the real protocol objects and the real pipe/socket serving "
             "loops and client media, including requests whose body the message handler rejects, each followed by a request "
             "that must still be answered; thorough: real `serve --inet` child, stall verdict from /proc/<pid>/syscall")
LEVEL_TEXT = ("on every generated message and every short-read pattern tried, no read request exceeded the bytes left in the "
              "current message and completion was signalled exactly at its last byte; sampled, not exhaustive")
RULE = ("messages: the C29 MWire grammar without extra bytes (v1/v2/v3 x request/response x body none/bytes 0..70000 "
        "crossing 64 KiB/readv/stream incl. empty chunk/stream erroring after j chunks x unknown verb), plus v3 requests whose "
        "body parts the server's message handler rejects because the verb answered at args time (harness verb ok/failed/"
        "raising, real verbs on a path with nothing there) each followed by a further request on the same medium; "
        "short-read patterns: "
        "always 1 byte (random <= 8 KiB when the hint is >= 600), always the full hint, seeded mix of 1 / n / n-1 / random; "
        "evaluation = one (message(s), driver, read pattern) run judged; non-trivial = at least one read was answered with "
        "fewer bytes than asked; distinct = distinct (message shape(s), driver, pattern, number of reads)")
CASES = {"quick": 96, "thorough": 1280}
PER_CASE = {"quick": 16, "thorough": 32}
REJECT_PER_CASE = {"quick": 4, "thorough": 8}     # rejected-body requests per case (see _c30_reject)
BUDGET_S = {"quick": 50, "thorough": 780}
MIN_EVALS = {"quick": 8000, "thorough": 200000}
FLOORS = {
    "quick": {"oracle_read_size_server_direct": 50000, "oracle_read_size_server_pipe_loop": 50000,
              "oracle_read_size_client_pipe": 50000, "oracle_finish_exactly_at_end": 8000,
              "oracle_response_complete_before_next_read": 1200, "oracle_socket_no_read_after_request_end": 600,
              "drv_server_stingy": 3000, "drv_server_pipe_loop": 600, "drv_client_pipe": 3000, "drv_server_socket_lockstep": 300,
              "shape_v1": 200, "shape_v2": 200, "shape_v3": 200, "shape_body_over_64k": 20, "shape_stream": 100,
              "shape_stream_error": 60, "shape_readv": 100,
              "shape_rejected_body": 200, "drv_rejected_body_stingy": 400, "drv_rejected_body_pipe_loop": 500,
              "drv_rejected_body_socket_lockstep": 150, "oracle_read_size_rejected_body_direct": 4000,
              "oracle_read_size_rejected_body_pipe_loop": 60000, "oracle_follow_up_answered_after_rejected_body": 1000,
              "handler_raised:bytes_part_received@end": 1000, "handler_raised:byte_part_received@end": 50,
              "handler_raised:structure_part_received@end": 50},
    "thorough": {"oracle_read_size_server_direct": 1200000, "oracle_read_size_server_pipe_loop": 1200000,
                 "oracle_read_size_client_pipe": 1200000, "oracle_finish_exactly_at_end": 200000,
                 "oracle_response_complete_before_next_read": 30000, "oracle_socket_no_read_after_request_end": 15000,
                 "drv_server_stingy": 80000, "drv_server_pipe_loop": 15000, "drv_client_pipe": 80000,
                 "drv_server_socket_lockstep": 8000,
                 "shape_v1": 5000, "shape_v2": 5000, "shape_v3": 5000, "shape_body_over_64k": 500, "shape_stream": 2500,
                 "shape_stream_error": 1500, "shape_readv": 2500,
                 "shape_rejected_body": 4000, "drv_rejected_body_stingy": 8000, "drv_rejected_body_pipe_loop": 12000,
                 "drv_rejected_body_socket_lockstep": 3500, "oracle_read_size_rejected_body_direct": 120000,
                 "oracle_read_size_rejected_body_pipe_loop": 2000000, "oracle_follow_up_answered_after_rejected_body": 25000,
                 "handler_raised:bytes_part_received@end": 25000, "handler_raised:byte_part_received@end": 2000,
                 "handler_raised:structure_part_received@end": 2000,
                 "e2e_requests": 150, "e2e_responses_complete": 150},
}
RUST = []   # the wire codec is pure Python; its compiled helpers live in third-party wheels (see ASSUMPTIONS)
EXHAUSTIVE = {"quick": False, "thorough": False}
ASSUMPTIONS = [
    "breezy/bzr/smart/protocol.py imports only version constants from bzrformats._bzr_rs.smart and bencode from "
    "fastbencode (third-party wheels, no source in the repo): RUST is empty, those are trusted",
    "a decode failure of the real client on a well-formed response is C29's subject: here it is counted "
    "(client_decode_error_see_C29) and only the read sizes observed up to that point are judged",
    "the first line of a request is read by the medium one byte at a time (SmartMedium._get_line); the direct stingy "
    "driver starts after that line, the pipe loop covers the line itself",
    "monitor 2: /repo/brz is an ELF launcher that cannot start in this sandbox (libpython3.12.so missing), so the child is "
    "`/venv/bin/python -m breezy serve --inet --directory=<dir> --allow-writes` with PYTHONPATH=$VERIF_REPO; x86_64 and "
    "aarch64 syscall numbers for read are known, other machines make a stall inconclusive; a stall is declared after "
    "15 s without a byte, 90 s for the first response of a fresh child (wall clock only decides WHEN to look at /proc, "
    "the verdict is the blocked read(0))",
    "monitor 2 uses real verbs (hello, Transport.is_readonly, BzrDir.open_2.1, Branch.last_revision_info, get, has, stat, "
    "readv, put, append, mkdir, Repository.get_parent_map, Repository.insert_stream_1.19 with a (garbage) body stream, "
    "an unregistered verb; v3: bodies for verbs that answer at args time); only completion of the response and successful "
    "decoding are judged there",
    "rejected-body class: a v3 request with a body for a verb that answers when its args arrive is taken as well-formed "
    "(the client cannot know the outcome before it has sent the body; e.g. Repository.get_parent_map on a path without a "
    "repository); its reference response is the one produced when the bare protocol object is fed exactly its hints; "
    "what the harness verbs saw is judged (dispatched once, no body delivered), real verbs only by their bytes; after a "
    "failed stingy/pipe run of such a request the socket driver is skipped for it (counted in the histogram)",
]
STALL_S = 15.0
START_S = 90.0      # patience for the first response of a fresh child (includes interpreter start-up + imports)


def worker_init(tier):
    W.install()
    RJ.install()


def _shape_counts(ctx, x):
    ctx.count("shape_v%d" % x["v"])
    ctx.hist(W.shape_class(x))
    ctx.distinct("exchange_shape", W.shape(x))
    ctx.distinct("exchange_class", W.shape_class(x))
    big = False
    for body in (x["qbody"], x["rbody"]):
        k = body[0]
        if k == "bytes" and len(body[1]) > 65536:
            big = True
        if k in ("stream", "stream_err"):
            ctx.count("shape_stream")
            if any(len(c) > 65536 for c in body[1]):
                big = True
        if k == "stream_err":
            ctx.count("shape_stream_error")
        if k == "readv":
            ctx.count("shape_readv")
    if big:
        ctx.count("shape_body_over_64k")


def _where(x, pos, total):
    """Coarse, stable description of where in the message an over-read happened."""
    if pos <= 40:
        return "head"
    if total - pos <= 12:
        return "tail"
    return "body"


def _qlabel(x):
    """Request-body class used in failure keys; the rejected-body class gets its own keys."""
    return ("body-rejected-by-handler:" if x.get("reject") else "") + x["qbody"][0]


def _judge_request(x, exp, fail, tag):
    if x.get("real") or x.get("reject"):
        RJ.judge_reject(x, exp, fail, tag)
    else:
        W.judge_request(x, exp, fail, tag)


def _server_stingy(ctx, x, R, S, modes, drv="drv_server_stingy", oracle="oracle_read_size_server_direct"):
    """Bare server protocol object, stingy feeding: next_read_size() against what is left of R.
    S = the reference response, or None: the response of the first run becomes the reference.
    Returns (S, clean)."""
    rng = ctx.rng
    sh = W.shape(x)
    vtag = "v%d" % x["v"]
    rej = bool(x.get("reject"))
    name = "server-stingy-rejected-body" if rej else "server-stingy"
    rsfx = ":body-rejected-by-handler" if rej else ""
    clean = True
    for mode in modes:
        if rej:
            RJ.drain()
        res = W.server_stingy(x, R, rng, mode)
        run = res["run"]
        ctx.count(drv)
        ctx.count(oracle, res["steps"])
        nontrivial = mode != "full"
        d = {"shape": sh, "driver": name + "/" + mode, "request_len": len(R)}
        if rej:
            raised = RJ.drain()
            d["family"] = x["family"]
            d["handler_raised"] = raised
            nontrivial = nontrivial and bool(raised)
            if not raised:
                ctx.hist("rejected-body: handler raised nothing (no part after the args)")
        ctx.note((sh, name, mode, res["steps"]), nontrivial=nontrivial,
                 sample={"exchange": sh, "driver": name + "/" + mode, "request_len": len(R), "read_size_queries": res["steps"]}
                 if mode == "mixed" and not rej else None)
        if run.error is not None:
            ctx.hist("server_decode_error_see_C29")
            ctx.fail("server:%s:raised-under-short-reads:%s%s" % (vtag, type(run.error).__name__, rsfx), repr(run.error)[:300], d)
            clean = False
            continue
        ctx.count("oracle_finish_exactly_at_end")
        for (n, rem, c) in res["over"][:1]:
            clean = False
            if rem == 0:
                ctx.fail("server:%s:not-finished-at-message-end%s" % (vtag, rsfx),
                         "all %d bytes consumed but next_read_size() = %d" % (len(R), n), d)
            elif n <= 0:
                ctx.fail("server:%s:non-positive-read-size-mid-message" % vtag, "next_read_size() = %d with %d bytes left" % (n, rem), d)
            else:
                ctx.fail("server:%s:read-size-exceeds-remaining:%s:%s" % (vtag, _qlabel(x), _where(x, c, len(R))),
                         "next_read_size() = %d with only %d bytes of the request left (consumed %d of %d)" % (n, rem, c, len(R)), d)
        if res["zero_early"] is not None:
            clean = False
            ctx.fail("server:%s:finished-before-message-end%s" % (vtag, rsfx),
                     "next_read_size() = 0 after %d of %d bytes" % (res["zero_early"], len(R)), d)
        _judge_request(x, run.exp, lambda k, m, dd=None: ctx.fail(name + ":" + k, m, dd), name + "/" + mode)
        if S is None:
            S = run.out.value()
        elif run.out.value() != S:
            ctx.fail(name + ":response-differs", "response under short reads differs from the %s run"
                     % ("first (exact-hint)" if rej else "one-piece"), d)
    return S, clean


def _one_exchange(ctx, x):
    rng = ctx.rng
    _shape_counts(ctx, x)
    R, _, _ = W.encode_request(x)
    run0 = W.server_direct(x, R, [len(R)], True)
    if run0.error is not None or not run0.out.size():
        ctx.hist("server_decode_error_see_C29")
        return None
    S = run0.out.value()
    sh = W.shape(x)
    vtag = "v%d" % x["v"]

    def fail(key, msg, detail=None):
        ctx.fail(key, msg, detail)

    # ---- server protocol object, stingy feeding
    _server_stingy(ctx, x, R, S, ("one", "mixed", "full"))

    # ---- client over a stingy pipe
    for mode in ("one", "mixed", "full"):
        co = W.client_pipe(x, S, rng, mode)
        inp = co.inp
        ctx.count("drv_client_pipe")
        ctx.count("oracle_read_size_client_pipe", inp.reads)
        ctx.note((sh, "client-pipe", mode, inp.reads), nontrivial=mode != "full")
        d = {"shape": sh, "driver": "client-pipe/" + mode, "response_len": len(S), "consumed": inp.pos}
        rk = x["rbody"][0] if (x["known"] and x["ok"]) else ("failed" if x["known"] else "unknown")
        if inp.over:
            n, rem, _, off = inp.over[0]
            fail("client:%s:read-size-exceeds-remaining:%s:%s" % (vtag, rk, _where(x, off, len(S))),
                 "read(%d) with only %d bytes of the response left (consumed %d of %d); %d such reads"
                 % (n, rem, off, len(S), len(inp.over)), d)
        if inp.bad:
            fail("client:%s:non-positive-read-size-mid-message" % vtag, "read(%r) with %d bytes left" % inp.bad[0][:2], d)
        if inp.eof_reads:
            fail("client:%s:read-after-message-end" % vtag, "%d read(s) issued after the last byte of the response" % inp.eof_reads, d)
        if co.error is not None:
            ctx.hist("client_decode_error_see_C29")
            continue
        ctx.count("oracle_finish_exactly_at_end")
        if inp.pos != len(S):
            fail("client:%s:finished-before-message-end" % vtag,
                 "caller got its complete answer after %d of %d bytes: the rest stays in the pipe" % (inp.pos, len(S)), d)
        elif co.state != "done":
            fail("client:%s:not-finished-at-message-end" % vtag, "all bytes consumed, medium request state %r" % co.state, d)
        W.judge_response(x, co.obs, lambda k, m, dd=None: fail("client-pipe:" + k, m, dd), "client-pipe/" + mode)
    return R, S


def _pipe_group(ctx, gx, Rs, Ss, modes, drv="drv_server_pipe_loop", oracle="oracle_read_size_server_pipe_loop",
                oracle_next="oracle_response_complete_before_next_read"):
    """The real SmartServerPipeStreamMedium.serve() over the requests gx back to back on one medium."""
    rng = ctx.rng
    shapes = [W.shape(x) for x in gx]
    rej = any(x.get("reject") for x in gx)
    sfx = ":group-with-handler-rejected-body" if rej else ""
    name = "server-pipe-loop-rejected-body" if rej else "server-pipe-loop"
    for mode in modes:
        if rej:
            RJ.drain()
        run = W.server_pipe_loop(gx, Rs, rng, mode)
        inp = run.inp
        tag = name + "/" + mode
        ctx.count(drv)
        ctx.count(oracle, inp.reads)
        nontrivial = mode != "full"
        d = {"shapes": shapes, "driver": tag, "request_lens": [len(r) for r in Rs]}
        if rej:
            raised = RJ.drain()
            d["families"] = [x.get("family", "regular") for x in gx]
            d["handler_raised"] = raised
            nontrivial = nontrivial and bool(raised)
            for k, v in raised.items():
                ctx.count("handler_raised:" + k, v)
        ctx.note((shapes, tag, inp.reads), nontrivial=nontrivial,
                 sample={"exchanges": shapes, "driver": tag, "reads": inp.reads, "request_lens": [len(r) for r in Rs]}
                 if mode == "one" else None)
        if inp.over:
            nn, rem, k, off = inp.over[0]
            x = gx[k]
            ctx.fail("server-pipe:v%d:read-size-exceeds-remaining:%s:%s" % (x["v"], _qlabel(x), _where(x, off, len(Rs[k]))),
                     "read(%d) with only %d bytes of request #%d left (consumed %d of %d); %d such reads"
                     % (nn, rem, k, off, len(Rs[k]), len(inp.over)), d)
        if inp.bad:
            ctx.fail("server-pipe:non-positive-read-size-mid-message" + sfx, "read(%r) with %d bytes left" % inp.bad[0][:2], d)
        if run.error is not None:
            ctx.fail("server-pipe:serve-raised:%s%s" % (type(run.error).__name__, sfx), repr(run.error)[:300], d)
            continue
        if run.terminated is not None:
            ctx.fail("server-pipe:terminated-due-to-error:%s%s" % (type(run.terminated).__name__, sfx), repr(run.terminated)[:300], d)
            continue
        if inp.pos != len(inp.data) or not inp.eof_reads:
            ctx.fail("server-pipe:stopped-reading-early" + sfx, "serve() returned after %d of %d bytes" % (inp.pos, len(inp.data)), d)
            continue
        out = run.out.value()
        snaps = run.snaps
        if len(snaps) != len(gx):
            ctx.fail("server-pipe:boundary-count" + sfx, "%d message boundaries seen for %d requests" % (len(snaps), len(gx)), d)
            continue
        starts = [0] + snaps[:-1]
        for k, x in enumerate(gx):
            ctx.count(oracle_next)
            ctx.count("oracle_finish_exactly_at_end")
            Sk = out[starts[k]:snaps[k]]
            if Sk != Ss[k]:
                key = "response-incomplete-when-next-request-is-read" if Ss[k].startswith(Sk) else "response-differs"
                ctx.fail("server-pipe:v%d:%s%s" % (x["v"], key, sfx),
                         "when the server asked for the first byte after request #%d it had written %d bytes, the complete "
                         "response has %d" % (k, len(Sk), len(Ss[k])), d)
            if run.dirty_at[k]:
                ctx.fail("server-pipe:v%d:response-not-flushed-when-next-request-is-read%s" % (x["v"], sfx),
                         "output not flushed when the server started waiting for the request after #%d" % k, d)
            _judge_request(x, run.exps[k], lambda kk, m, dd=None: ctx.fail("server-pipe:" + kk + sfx, m, dd), tag + "#%d" % k)
        if len(out) != snaps[-1]:
            ctx.fail("server-pipe:output-after-end-of-input" + sfx, "%d bytes written after EOF was seen" % (len(out) - snaps[-1]), d)


def _socket_group(ctx, gx, Rs, Ss, drv="drv_server_socket_lockstep", oracle="oracle_socket_no_read_after_request_end",
                  fams=("random", "struct")):
    """SmartServerSocketStreamMedium.serve(), lock-step client."""
    rng = ctx.rng
    shapes = [W.shape(x) for x in gx]
    rej = any(x.get("reject") for x in gx)
    sfx = ":group-with-handler-rejected-body" if rej else ""
    name = "server-socket-lockstep-rejected-body" if rej else "server-socket-lockstep"
    total = sum(len(r) for r in Rs)
    ends = list(itertools.accumulate(len(r) for r in Rs))
    for fam in fams:
        sizes = W.seg_random(rng, total) if fam == "random" else W.seg_struct(total, ends)
        run = W.server_socket_loop(gx, Rs, sizes, True)
        sock = run.inp
        tag = name + "/" + fam
        ctx.count(drv)
        ctx.note((shapes, tag, len(sizes)), nontrivial=True)
        d = {"shapes": shapes, "driver": tag, "request_lens": [len(r) for r in Rs]}
        if rej:
            d["families"] = [x.get("family", "regular") for x in gx]
        if run.error is not None:
            ctx.fail("server-socket:serve-raised:%s%s" % (type(run.error).__name__, sfx), repr(run.error)[:300], d)
            continue
        if run.terminated is not None:
            ctx.fail("server-socket:terminated-due-to-error:%s%s" % (type(run.terminated).__name__, sfx), repr(run.terminated)[:300], d)
            continue
        ctx.count(oracle, len(gx))
        if sock.blocked:
            k = next(j for j, e in enumerate(ends) if e >= sock.blocked[0])
            ctx.fail("server-socket:v%d:recv-after-request-end-before-response%s" % (gx[k]["v"], sfx),
                     "recv() issued with request #%d fully delivered and the client still waiting for its response" % k, d)
        out = run.out.value()
        if sock.sent_at_first_eof is not None and sock.sent_at_first_eof != len(out):
            ctx.fail("server-socket:output-after-end-of-input" + sfx, "response bytes written after the server had seen EOF", d)
        if out != b"".join(Ss):
            ctx.fail("server-socket:responses-differ" + sfx, "output differs from the stand-alone responses (len %d vs %d)"
                     % (len(out), sum(len(s) for s in Ss)), d)


def _loops(ctx, xs, wires):
    rng = ctx.rng
    i = 0
    while i < len(xs):
        n = rng.choice([2, 2, 3])
        idx = list(range(i, min(len(xs), i + n)))
        i += n
        if len(idx) < 2:
            break
        gx = [xs[k] for k in idx]
        Rs = [wires[k][0] for k in idx]
        Ss = [wires[k][1] for k in idx]
        _pipe_group(ctx, gx, Rs, Ss, ("one", "mixed", "full"))
        _socket_group(ctx, gx, Rs, Ss)


class _FailFlag:
    """ctx proxy that remembers whether an oracle failed."""

    def __init__(self, ctx):
        self._ctx = ctx
        self.failed = False

    def fail(self, *a, **kw):
        self.failed = True
        return self._ctx.fail(*a, **kw)

    def __getattr__(self, name):
        return getattr(self._ctx, name)


def _hello():
    return {"v": 3, "headers": {}, "verb": b"hello", "args": (), "qbody": ("none",), "known": True, "ok": True, "rargs": (),
            "rbody": ("none",), "expect_body": False, "real": True, "family": "follow-up:hello", "eq": b"", "er": b""}


def _rejected_bodies(ctx, n, xs, wires, big_p):
    """Well-formed v3 requests carrying a body for a verb that answers at args time (the message handler raises
    from every later part), each followed on the same medium by a request that must still be answered."""
    rng = ctx.rng
    prev = None
    for _ in range(n):
        x = RJ.gen_reject(rng, big_p)
        ctx.count("shape_rejected_body")
        ctx.hist("rejected-body family " + x["family"].split(":")[0])
        ctx.hist("rejected-body v3 %s" % x["qbody"][0])
        ctx.distinct("rejected_body_family", x["family"])
        ctx.distinct("rejected_body_shape", (x["family"], W.shape(x)))
        R, _, _ = W.encode_request(x)
        # bare protocol object first, fed exactly what it asks for (what the pipe medium does); its response is the
        # reference (no one-piece run here, see the socket driver below)
        fctx = _FailFlag(ctx)
        S, _ = _server_stingy(fctx, x, R, None, ("full", "mixed"), drv="drv_rejected_body_stingy",
                              oracle="oracle_read_size_rejected_body_direct")
        if not S:
            ctx.hist("server_decode_error_see_C29")
            continue
        # the response the verb gave at args time is the complete, decodable answer (real client, stingy pipe)
        co = W.client_pipe(x, S, rng, "mixed")
        if co.error is not None:
            ctx.hist("client_decode_error_see_C29")
        elif x.get("real"):
            ctx.hist("rejected-body real-verb answer:" + str(co.obs.get("status")))
        else:
            W.judge_response(x, co.obs, lambda k, m, dd=None: ctx.fail("client-pipe:" + k + ":request-body-rejected-by-handler", m, dd),
                             "client-pipe/mixed")
        # follow-up on the same medium: a regular exchange of this case (any version), or hello
        if xs and rng.random() < 0.8:
            j = rng.randrange(len(xs))
            fx, (fR, fS) = xs[j], wires[j]
        else:
            fx = _hello()
            fR, _, _ = W.encode_request(fx)
            fS = W.server_direct(fx, fR, [len(fR)], True).out.value()
        gx, Rs, Ss = [x, fx], [R, fR], [S, fS]
        if prev is not None and rng.random() < 0.35:
            gx, Rs, Ss = [prev[0]] + gx, [prev[1]] + Rs, [prev[2]] + Ss      # two rejected bodies in a row
        # (every rejected part costs the real server a formatted traceback: fewer patterns per exchange than in _loops)
        _pipe_group(fctx, gx, Rs, Ss, ("one", rng.choice(["mixed", "rand"]), "full"), drv="drv_rejected_body_pipe_loop",
                    oracle="oracle_read_size_rejected_body_pipe_loop", oracle_next="oracle_follow_up_answered_after_rejected_body")
        if fctx.failed:
            # the drivers above hand the decoder at most what it asked for.  The socket medium hands it whatever arrived;
            # a decoder that has lost its place then restarts itself once per buffered byte, formatting an ever longer
            # exception chain each time - CPU time, not more evidence.
            ctx.hist("rejected-body: socket driver skipped after a failed stingy / pipe run")
        else:
            _socket_group(ctx, gx, Rs, Ss, drv="drv_rejected_body_socket_lockstep",
                          oracle="oracle_socket_no_read_after_rejected_body", fams=(rng.choice(["random", "struct"]),))
        prev = (x, R, S)


# --------------------------------------------------------------------------
# monitor 2: real serve --inet child

class Stall(Exception):
    pass


class _PipeReader:
    """Readable end handed to SmartSimplePipesClientMedium: raw os.read with a stall watchdog."""

    def __init__(self, fd):
        self.fd = fd
        self.got = 0
        self.patience = STALL_S

    def read(self, n):
        r, _, _ = select.select([self.fd], [], [], self.patience)
        if not r:
            raise Stall()
        d = os.read(self.fd, n)
        self.got += len(d)
        return d

    def close(self):
        pass


class _PipeWriter:
    def __init__(self, fd):
        self.fd = fd
        self.sent = 0
        self.patience = STALL_S

    def write(self, b):
        mv = memoryview(b)
        while mv:
            _, w, _ = select.select([], [self.fd], [], self.patience)
            if not w:
                raise Stall()
            n = os.write(self.fd, mv[:65536])
            mv = mv[n:]
            self.sent += n

    def flush(self):
        pass

    def close(self):
        pass


_READ_NR = {"x86_64": 0, "aarch64": 63}


def _proc_state(pid):
    out = {}
    for f in ("syscall", "wchan", "stat"):
        try:
            with open("/proc/%d/%s" % (pid, f)) as fh:
                out[f] = fh.read().strip()[:200]
        except OSError as e:
            out[f] = "<%s>" % type(e).__name__
    return out


def _blocked_in_read0(st):
    import platform

    nr = _READ_NR.get(platform.machine())
    parts = st.get("syscall", "").split()
    if nr is None or len(parts) < 2:
        return None
    try:
        return int(parts[0]) == nr and int(parts[1], 16) == 0
    except ValueError:
        return False   # "running", "-1 ..." : not blocked in a syscall


_SELECT_NRS = {"x86_64": (23, 270, 7, 271), "aarch64": (72, 73)}


def _idle_in_select(st):
    import platform

    parts = st.get("syscall", "").split()
    try:
        return int(parts[0]) in _SELECT_NRS.get(platform.machine(), ())
    except (ValueError, IndexError):
        return False


def _make_served_dir(ctx):
    """A served directory with a small branch and some files (workload construction)."""
    from breezy import controldir

    d = ctx.tmp("srv")
    wt = controldir.ControlDir.create_standalone_workingtree(os.path.join(d, "b"), format=controldir.format_registry.make_controldir("2a"))
    with open(os.path.join(d, "b", "f.txt"), "wb") as f:
        f.write(b"hello\n" * 10)
    wt.add(["f.txt"])
    r1 = wt.commit("one", rev_id=b"rev-1")
    with open(os.path.join(d, "b", "f.txt"), "ab") as f:
        f.write(b"more\n")
    r2 = wt.commit("two", rev_id=b"rev-2")
    with open(os.path.join(d, "big.bin"), "wb") as f:
        f.write(ctx.rng.randbytes(70000))
    with open(os.path.join(d, "small.txt"), "wb") as f:
        f.write(b"0123456789" * 13)
    with open(os.path.join(d, "empty"), "wb") as f:
        pass
    return d, [r1, r2]


def _e2e_requests(rng, n):
    """(version, verb, args, kind, payload, expect_body) with real verbs."""
    from fastbencode import bencode

    reqs = []
    for _ in range(n):
        v = rng.choice([1, 2, 3, 3])
        size = rng.choice([0, 1, 5, 100, 4096, 65530, 65536, 65537, 70000, rng.randint(0, 70000)])
        pool = [
            (b"hello", (), "none", None, False),
            (b"Transport.is_readonly", (), "none", None, False),
            (b"BzrDir.open_2.1", (b"b/",), "none", None, False),
            (b"BzrDir.open_2.1", (b"nothing-here/",), "none", None, False),
            (b"Branch.last_revision_info", (b"b/",), "none", None, False),
            (b"Branch.get_config_file", (b"b/",), "none", None, True),
            (b"has", (b"big.bin",), "none", None, False),
            (b"stat", (b"small.txt",), "none", None, False),
            (b"get", (b"big.bin",), "none", None, True),
            (b"get", (b"small.txt",), "none", None, True),
            (b"get", (b"empty",), "none", None, True),
            (b"get", (b"missing",), "none", None, True),
            (b"list_dir", (b".",), "none", None, False),
            (b"readv", (b"big.bin",), "readv", [(rng.randint(0, 60000), rng.randint(0, 9000)) for _ in range(rng.randint(0, 12))], True),
            (b"readv", (b"small.txt",), "readv", [(0, 10), (20, 5)], True),
            (b"put", (b"w%d" % rng.randint(0, 3), b"0644"), "bytes", rng.randbytes(size), False),
            (b"append", (b"a%d" % rng.randint(0, 3), b"0644"), "bytes", rng.randbytes(size % 5000), False),
            (b"mkdir", (b"d%d" % rng.randint(0, 9999), b"0755"), "none", None, False),
            (b"Repository.get_parent_map", (b"b/", b"include-missing:", b"rev-2"), "bytes", b"", True),
            (b"vf.nosuch", (b"x",), "none", None, False),
        ]
        if v == 3:
            chunks = [rng.randbytes(rng.choice([0, 1, 30, 3000, 66000])) for _ in range(rng.randint(0, 4))]
            pool += [
                (b"Repository.insert_stream_1.19", (b"b/", b"", b"no-such-token"), "stream", chunks, False),
                (b"Repository.insert_stream_1.19", (b"b/", b"", b"no-such-token"), "stream_err", chunks, False),
                (b"vf.nosuch", (b"x",), "bytes", rng.randbytes(size), False),
                (b"get", (b"small.txt",), "none", None, True),
                # a body for a verb that answers at args time: the message handler rejects every later part
                (b"Repository.get_parent_map", (b"nothing-here/", b"include-missing:", b"rev-2"), "bytes", b"some-search-body", True),
                (b"hello", (), "bytes", rng.randbytes(size % 3000), False),
                (b"get", (b"missing",), "bytes", rng.randbytes(size % 300), True),
                (b"Repository.insert_stream_1.19", (b"nothing-here/", b"", b"tok"), "stream", chunks, False),
                (b"Repository.insert_stream_1.19", (b"nothing-here/", b"", b"tok"), "stream_err", chunks, False),
            ]
        verb, args, kind, payload, eb = rng.choice(pool)
        reqs.append((v, verb, args, kind, payload, eb))
    return reqs


def _e2e(ctx, nreq):
    """Monitor 2."""
    from breezy.bzr.smart import client as CL
    from breezy.bzr.smart import medium as M
    from breezy.bzr.smart import request as RQ
    from dromedary import errors as te
    from vf import boot

    try:
        d, _revs = _make_served_dir(ctx)
    except Exception as e:
        ctx.hist("e2e_setup_failed:%s" % type(e).__name__)
        return
    env = dict(os.environ)
    env["PYTHONPATH"] = boot.REPO + os.pathsep + env.get("PYTHONPATH", "")
    env["PYTHONDONTWRITEBYTECODE"] = "1"
    env["BRZ_LOG"] = os.devnull
    proc = subprocess.Popen(["/venv/bin/python", "-m", "breezy", "serve", "--inet", "--directory=" + d, "--allow-writes"],
                            stdin=subprocess.PIPE, stdout=subprocess.PIPE, stderr=subprocess.PIPE, cwd=d, env=env, bufsize=0)
    t_end = time.time() + 240
    rd, wr = _PipeReader(proc.stdout.fileno()), _PipeWriter(proc.stdin.fileno())
    rd.patience = wr.patience = START_S     # the first answer includes the start-up of the child (many seconds on a loaded machine)
    med = M.SmartSimplePipesClientMedium(rd, wr, "bzr://e2e/")
    cl = CL._SmartClient(med)
    try:
        for (v, verb, args, kind, payload, eb) in _e2e_requests(ctx.rng, nreq):
            if time.time() > t_end or proc.poll() is not None:
                ctx.hist("e2e_child_gone_or_deadline")
                break
            kw = {}
            if kind == "bytes":
                kw["body"] = payload
            elif kind == "readv":
                kw["readv_body"] = payload
            elif kind == "stream":
                kw["body_stream"] = iter(list(payload))
            elif kind == "stream_err":
                kw["body_stream"] = W._boom_stream(payload)
            creq = CL._SmartClientRequest(cl, verb, args, expect_response_body=eb, **kw)
            sig = {"v": v, "verb": verb.decode(), "kind": kind,
                   "size": len(payload) if isinstance(payload, bytes) else (len(payload) if payload else 0)}
            ctx.count("e2e_requests")
            ctx.hist("e2e v%d %s %s" % (v, verb.decode(), kind))
            outcome = None
            got0 = rd.got
            try:
                enc, handler = creq._construct_protocol(v)
                W._send(creq, enc)
                try:
                    tup = handler.read_response_tuple(expect_body=eb)
                    outcome = "ok"
                    if eb:
                        # like the real callers: a body is only read after an ok-tuple (v1 cannot flag failures)
                        if (verb in (b"get", b"readv", b"Branch.get_config_file", b"Repository.get_parent_map")
                                and tup[:1] in ((b"ok",), (b"readv",))):
                            body = handler.read_body_bytes()
                            sig["body"] = len(body)
                        else:
                            handler.cancel_read_body()
                except te.ErrorFromSmartServer as e:
                    outcome = "error:" + e.error_tuple[0].decode("ascii", "replace")[:30]
                except te.UnknownSmartMethod:
                    outcome = "unknown-method"
            except Stall:
                st1 = _proc_state(proc.pid)
                time.sleep(0.5)
                st2 = _proc_state(proc.pid)
                b1, b2 = _blocked_in_read0(st1), _blocked_in_read0(st2)
                det = {"request": sig, "proc": [st1, st2], "bytes_sent": wr.sent, "response_bytes_received": rd.got - got0}
                if b1 and b2 and proc.poll() is None:
                    ctx.count("e2e_stall_blocked_in_read0")
                    ctx.fail("e2e:server-blocked-in-read(0)-with-request-complete:v%d:%s" % (v, kind),
                             "no complete response for %s; the child sits in read(0, ...) although the whole request was written "
                             "and stdin is still open" % verb.decode(), det)
                else:
                    ctx.count("e2e_stall_inconclusive")
                    ctx.count("e2e_stall_inconclusive_syscall_%s_%s" % ((st2.get("syscall", "?").split() or ["?"])[0],
                                                                       "partial-response" if rd.got > got0 else "no-response"))
                    if _idle_in_select(st1) and _idle_in_select(st2) and rd.got == got0 and proc.poll() is None:
                        # not a verdict (by design only a blocked read(0) is): the child is between requests, waiting in
                        # select() on an empty pipe, while the request we wrote sits in sys.stdin.buffer's read-ahead
                        # (happens after a request that was answered before its body had been read) - see fixes/C30-*.md
                        ctx.count("e2e_stall_server_idle_in_select_request_in_stdin_readahead")
                        ctx.fail("e2e:server-idle-in-select-with-whole-request-written",
                                 "no response byte for %s; the child idles in select()/poll on stdin (sampled twice) although the whole request "
                                 "was written and stdin is open: the request is stuck in a read-ahead buffer" % verb.decode(), det)
                    ctx.hist("e2e_stall_inconclusive:syscall=%s:v%d %s %s" % ((st2.get("syscall", "?").split() or ["?"])[0], v, verb.decode(), kind))
                    ctx.distinct("e2e_inconclusive_stalls", det)
                    if os.environ.get("VERIF_C30_DEBUG"):
                        print("STALL", det, flush=True)
                ctx.note(("e2e", sig, "stall"), nontrivial=True)
                break     # the connection is unusable after a stall
            except (ConnectionError, OSError, te.SmartProtocolError) as e:
                ctx.count("e2e_connection_or_protocol_error")
                ctx.hist("e2e_error:%s" % type(e).__name__)
                ctx.note(("e2e", sig, "conn-error"), nontrivial=True)
                break
            ctx.count("e2e_responses_complete")
            rd.patience = wr.patience = STALL_S
            ctx.hist("e2e_outcome:" + outcome.split(":")[0])
            ctx.note(("e2e", sig, outcome), nontrivial=True,
                     sample={"e2e_request": sig, "outcome": outcome} if kind != "none" else None)
            # the response is complete: nothing more may arrive before we send the next request
            r, _, _ = select.select([rd.fd], [], [], 0)
            if r and proc.poll() is None:
                extra = os.read(rd.fd, 65536)
                if extra:
                    ctx.fail("e2e:bytes-after-complete-response:v%d" % v, "%d stray bytes after the response to %s"
                             % (len(extra), verb.decode()), {"request": sig, "stray": repr(extra[:80])})
                    break
    finally:
        try:
            proc.stdin.close()
        except Exception:
            pass
        try:
            proc.wait(timeout=10)
        except subprocess.TimeoutExpired:
            proc.kill()
            proc.wait()
        for f in (proc.stdout, proc.stderr):
            try:
                f.close()
            except Exception:
                pass
        med._readable_pipe = med._writeable_pipe = None


E2E_EVERY = 8          # thorough: every 8th case also runs monitor 2
E2E_REQUESTS = 12


def case(ctx):
    tier = ctx.tier
    n = PER_CASE[tier]
    xs, wires = [], []
    for _ in range(n):
        x = W.gen_exchange(ctx.rng, big_p=0.05 if tier == "quick" else 0.06, allow_extra=False)
        r = _one_exchange(ctx, x)
        if r is not None:
            xs.append(x)
            wires.append(r)
    _loops(ctx, xs, wires)
    _rejected_bodies(ctx, REJECT_PER_CASE[tier], xs, wires, 0.03)
    if tier == "thorough" and ctx.index % E2E_EVERY == 0:
        _e2e(ctx, E2E_REQUESTS)
