"""C29 - smart protocol messages survive the wire unchanged.

Real encoders (client: SmartClientRequestProtocolOne/Two, ProtocolThreeRequester through
_SmartClientRequest._send_no_retry; server: SmartServerRequestProtocolOne/Two._send_response,
ProtocolThreeResponder) write into recorders.  The recorded bytes, plus extra bytes E, are cut
by seeded adversarial segmentations and pushed through the real decoders:

  server  direct   _get_protocol_factory_for_bytes -> protocol.accept_bytes per segment
                   (feed-everything and stop-when-next_read_size()==0 modes)
          socket   SmartServerSocketStreamMedium.serve() over a fake socket, 2-3 requests back to
                   back (pipelined: segments span message boundaries -> real _push_back)
  client  socket   _SmartClientRequest stack over SmartClientAlreadyConnectedSocketMedium whose
                   recv() returns the prepared segments (read_response_tuple / read_body_bytes /
                   read_streamed_body / cancel_read_body)
          direct   ProtocolThreeDecoder+ConventionalResponseHandler, LengthPrefixedBodyDecoder,
                   ChunkedBodyDecoder fed every segment (unused_data must be exactly E)

Oracle (MWire): the value handed to the harness verb / returned to the caller == the generated
value; unused bytes == E; the response bytes do not depend on how the request was cut.
"""
import itertools

from . import _c29_wire as W

ID = "C29"
LEVEL = "exploration"
TECHNIQUE = ("round-trip monitor: real encoders -> recorder -> seeded adversarial segmentations -> real decoders / "
             "real socket media; decoded value and unused bytes compared with the generated message")
LEVEL_TEXT = ("every generated exchange (request + response, protocol v1/v2/v3) decoded identically under 4 segmentation "
              "families x several drivers on this run; sampled message space, not exhaustive")
RULE = ("MWire grammar: version{1,2,3} x request body{none,bytes 0..70000,readv list,v3 stream 0-5 chunks incl. empty,"
        "v3 stream raising after j chunks} x response{success/failure, body none/bytes/v2+ stream/stream erroring after j "
        "chunks (Failed chunk; v3 also raised exception)} x unknown verb x args in the version's domain x E (0-20 extra "
        "bytes); each message cut 4 ways (all-at-once, 1-byte[only near structure when > 4 KiB], random, every encoder "
        "piece boundary +-1). evaluation = one (message, driver, segmentation) decode judged; non-trivial = the bytes "
        "were delivered in >= 2 segments; distinct = distinct (message shape, driver, segmentation family, #segments)")
CASES = {"quick": 96, "thorough": 1280}
PER_CASE = {"quick": 16, "thorough": 32}
BUDGET_S = {"quick": 50, "thorough": 780}
MIN_EVALS = {"quick": 20000, "thorough": 500000}
FLOORS = {
    "quick": {"oracle_request_decoded": 8000, "oracle_response_decoded": 6000, "oracle_unused_data": 14000,
              "oracle_back_to_back": 600, "oracle_response_independent_of_cut": 8000,
              "drv_server_direct": 8000, "drv_server_socket_loop": 300, "drv_client_socket": 4000, "drv_client_direct": 1500,
              "shape_v1": 200, "shape_v2": 200, "shape_v3": 200, "shape_body_over_64k": 20, "shape_stream": 100,
              "shape_stream_error": 60, "shape_readv": 100, "shape_empty_chunk": 30},
    "thorough": {"oracle_request_decoded": 200000, "oracle_response_decoded": 150000, "oracle_unused_data": 350000,
                 "oracle_back_to_back": 15000, "oracle_response_independent_of_cut": 200000,
                 "drv_server_direct": 200000, "drv_server_socket_loop": 8000, "drv_client_socket": 100000,
                 "drv_client_direct": 40000,
                 "shape_v1": 5000, "shape_v2": 5000, "shape_v3": 5000, "shape_body_over_64k": 500, "shape_stream": 2500,
                 "shape_stream_error": 1500, "shape_readv": 2500, "shape_empty_chunk": 800},
}
RUST = []   # the wire codec is pure Python; its compiled helpers live in third-party wheels (see ASSUMPTIONS)
EXHAUSTIVE = {"quick": False, "thorough": False}
ASSUMPTIONS = [
    "breezy/bzr/smart/protocol.py imports only protocol-version constants from the compiled helper "
    "bzrformats._bzr_rs.smart and bencode from fastbencode; both live in third-party wheels (no source in the repo), "
    "so RUST is empty and those are trusted",
    "two harness verbs (vf.echo, vf.echob) are registered in request.request_handlers and "
    "SmartServerRequestHandler.post_body_error_received / the two body-decoder classes are wrapped by observers; "
    "no code of the codec is replaced",
    "v1/v2 arguments exclude 0x01 and newline and are non-empty tuples in responses (documented domain); a v1 failure is "
    "recognised by the client only through its fixed list of error codes, so v1 failures use those codes; "
    "failure responses carry no body; v1/v2 unknown-verb requests carry no body (the server cannot skip it)",
    "in pipelined socket loops a v1/v2 unknown-verb request is placed last (its effect on following bytes is judged by "
    "the direct driver under its own key)",
    "1-byte segmentation is applied to the whole message only up to 4 KiB; above that, 1-byte cuts within 300 bytes of "
    "both ends and 10 bytes of every structural boundary, random cuts elsewhere",
]


def worker_init(tier):
    W.install()


def _shape_counts(ctx, x):
    ctx.count("shape_v%d" % x["v"])
    ctx.hist(W.shape_class(x))
    ctx.distinct("exchange_shape", W.shape(x))
    ctx.distinct("exchange_class", W.shape_class(x))
    big = False
    for body in (x["qbody"], x["rbody"]):
        k = body[0]
        if k == "bytes" and len(body[1]) > 65536:
            big = True
        if k in ("stream", "stream_err"):
            ctx.count("shape_stream")
            if any(len(c) == 0 for c in body[1]):
                ctx.count("shape_empty_chunk")
            if any(len(c) > 65536 for c in body[1]):
                big = True
        if k == "stream_err":
            ctx.count("shape_stream_error")
        if k == "readv":
            ctx.count("shape_readv")
    if big:
        ctx.count("shape_body_over_64k")
    if not x["known"]:
        ctx.count("shape_unknown_verb")
    if not x["ok"]:
        ctx.count("shape_failure_response")


def _mk_fail(ctx):
    def fail(key, msg, detail=None):
        ctx.fail(key, msg, detail)
    return fail


def _err(ctx, where, e, x, extra=None):
    """The code under test raised while handling a well-formed message."""
    import traceback

    inner = e
    # SmartMessageHandlerError wraps the handler's exception: name the real one
    name = type(e).__name__
    ev = getattr(e, "exc_value", None)
    if ev is not None:
        name += "(" + type(ev).__name__ + ")"
    key = "%s:raised:%s" % (where, name)
    rb = x["rbody"]
    if (x["v"] == 3 and where.startswith("client") and x["known"] and x["ok"] and rb[0] == "stream_err" and not rb[1]
            and name == "SmartMessageHandlerError(SmartProtocolError)"):
        key = "response:v3:stream-error-before-first-chunk:client-rejects"
    ctx.fail(key, repr(inner)[:400], {"shape": W.shape(x), "extra": extra,
                                      "traceback": "".join(traceback.format_exception(e))[-1800:]})


def _one_exchange(ctx, x, tier):
    rng = ctx.rng
    fail = _mk_fail(ctx)
    _shape_counts(ctx, x)
    R, rb, _ = W.encode_request(x)
    ctx.count("enc_request")
    # reference run (no extra bytes, one piece) -> S
    run0 = W.server_direct(x, R, [len(R)], True)
    ctx.count("drv_server_direct")
    if run0.error is not None:
        _err(ctx, "server-direct", run0.error, x, "all")
        return None
    W.judge_request(x, run0.exp, fail, "server-direct/all/ref")
    ctx.count("oracle_request_decoded")
    ctx.note((W.shape(x), "server-direct", "ref"), nontrivial=False,
             sample={"exchange": W.shape(x), "request_len": len(R), "response_len": run0.out.size()})
    S = run0.out.value()
    ctx.count("enc_response")
    if not run0.finished:
        fail("request:decoder-not-finished-at-message-end", "next_read_size() != 0 after the whole request", {"shape": W.shape(x)})
    if not S:
        fail("response:nothing-written", "server wrote no response", {"shape": W.shape(x)})
        return None
    if run0.leftover:
        fail("request:unused-data-invented", "unused_data %r without extra bytes" % run0.leftover[:40], {"shape": W.shape(x)})
    sb_src = run0.out.bounds() if x["v"] < 3 else list(itertools.accumulate(run0.v3_piece_lens))

    # ---- request side: R + E under every segmentation, both feeding disciplines
    data = R + x["eq"]
    E = x["eq"]
    for name, sizes in W.segmentations(rng, data, W.structural_bounds(R, rb)):
        ctx.count("seg_" + name)
        for feed_all in (True, False):
            tag = "server-direct/%s/%s" % (name, "feed-all" if feed_all else "stop-at-0")
            run = W.server_direct(x, data, sizes, feed_all)
            ctx.count("drv_server_direct")
            ctx.note((W.shape(x), tag, len(sizes)), nontrivial=len(sizes) >= 2)
            if run.error is not None:
                _err(ctx, "server-direct", run.error, x, tag)
                continue
            W.judge_request(x, run.exp, fail, tag)
            ctx.count("oracle_request_decoded")
            d = {"shape": W.shape(x), "driver": tag, "nseg": len(sizes)}
            if not run.finished:
                fail("request:decoder-not-finished-at-message-end", "next_read_size() != 0 after all bytes", d)
            ctx.count("oracle_unused_data")
            if run.leftover != E:
                if x["v"] < 3 and not x["known"]:
                    fail("request:unused-data-lost:v12-error-path",
                         "bytes after a v1/v2 request answered through the error path are not in unused_data: %r != %r" % (run.leftover, E), d)
                else:
                    fail("request:unused-data-differs", "unused %r != appended %r" % (run.leftover[:60], E), d)
            ctx.count("oracle_response_independent_of_cut")
            if run.out.value() != S:
                fail("response:bytes-depend-on-request-segmentation", "response differs from the one-piece run (first diff at %d)"
                     % W._first_diff(run.out.value(), S), d)

    # ---- response side
    data = S + x["er"]
    E = x["er"]
    sbounds = W.structural_bounds(S, sb_src)
    want_kind = x["rbody"][0] if (x["known"] and x["ok"]) else "none"
    for name, sizes in W.segmentations(rng, data, sbounds):
        tag = "client-socket/" + name
        co = W.client_sock(x, data, sizes)
        ctx.count("drv_client_socket")
        ctx.note((W.shape(x), tag, len(sizes)), nontrivial=len(sizes) >= 2)
        if co.error is not None:
            _err(ctx, "client-socket", co.error, x, tag)
            continue
        W.judge_response(x, co.obs, fail, tag)
        ctx.count("oracle_response_decoded")
        d = {"shape": W.shape(x), "driver": tag, "nseg": len(sizes)}
        if co.sent != R:
            fail("request:encoding-not-deterministic", "same request encoded to different bytes", d)
        if co.state != "done":
            fail("response:client-request-not-finished", "medium request state %r after the whole response was consumed" % co.state, d)
        ctx.count("oracle_unused_data")
        if co.leftover != E:
            fail("response:unused-data-differs", "decoder.unused_data + push-back + unread = %r != appended %r" % (co.leftover[:60], E), d)
    # decoders fed directly, every byte (incl. E) goes into the decoder
    if x["v"] == 3 or want_kind in ("bytes", "stream", "stream_err"):
        if x["v"] == 3:
            st = 0
        else:
            st = W.response_body_start(x, S)
        ddata = S[st:] + E
        for name, sizes in W.segmentations(rng, ddata, [p - st for p in sbounds if p > st]):
            tag = "client-direct/" + name
            co = W.client_direct(x, ddata, sizes)
            ctx.count("drv_client_direct")
            ctx.note((W.shape(x), tag, len(sizes)), nontrivial=len(sizes) >= 2)
            if co.error is not None:
                _err(ctx, "client-direct", co.error, x, tag)
                continue
            d = {"shape": W.shape(x), "driver": tag, "nseg": len(sizes)}
            if x["v"] == 3:
                W.judge_response(x, co.obs, fail, tag)
            else:
                W.judge_response(x, co.obs, fail, tag, fields=("body", "chunks", "stream_err"))
            ctx.count("oracle_response_decoded")
            if not co.finished:
                fail("response:decoder-not-finished-at-message-end", "decoder not finished after all bytes", d)
            ctx.count("oracle_unused_data")
            if co.leftover != E:
                fail("response:decoder-unused-data-differs", "decoder.unused_data %r != appended %r" % (co.leftover[:60], E), d)
    return R, S


def _loops(ctx, xs, wires):
    """2-3 requests back to back through the real socket serving loop."""
    rng = ctx.rng
    fail = _mk_fail(ctx)
    i = 0
    while i < len(xs):
        n = rng.choice([2, 2, 3])
        idx = list(range(i, min(len(xs), i + n)))
        i += n
        if len(idx) < 2:
            break
        for lockstep in (False, True):
            order = list(idx)
            if not lockstep:
                bad = [k for k in order if xs[k]["v"] < 3 and not xs[k]["known"]]
                order = [k for k in order if k not in bad] + bad[:1]
                if len(order) < 2:
                    continue
            gx = [xs[k] for k in order]
            Rs = [wires[k][0] for k in order]
            total = sum(len(r) for r in Rs)
            ends = list(itertools.accumulate(len(r) for r in Rs))
            fam = rng.choice(["random", "struct", "one", "all"])
            if fam == "random":
                sizes = W.seg_random(rng, total)
            elif fam == "struct":
                sizes = W.seg_struct(total, ends)
            elif fam == "one":
                sizes = W.seg_one(rng, total, ends)
            else:
                sizes = [total]
            tag = "server-socket-loop/%s/%s" % ("lockstep" if lockstep else "pipelined", fam)
            run = W.server_socket_loop(gx, Rs, sizes, lockstep)
            ctx.count("drv_server_socket_loop")
            ctx.hist(tag)
            ctx.note(([W.shape(x) for x in gx], tag, len(sizes)), nontrivial=True)
            d = {"shapes": [W.shape(x) for x in gx], "driver": tag}
            if run.error is not None:
                ctx.fail("socket-loop:raised:%s" % type(run.error).__name__, repr(run.error)[:300], d)
                continue
            if run.terminated is not None:
                t = run.terminated
                if isinstance(t, AssertionError) and "_push_back called when" in str(t) and run.medium._push_back_buffer is not None:
                    # SmartMedium._push_back(b"") asserts before it notices there is nothing to push back:
                    # a request that is complete after its first line (v1, no body) followed by more bytes in
                    # the same recv() kills the connection
                    ctx.fail("socket-loop:push-back-of-nothing-asserts-over-pending-bytes",
                             "connection terminated although the next request was already buffered: " + str(t)[:160], d)
                else:
                    ctx.fail("socket-loop:terminated-due-to-error:%s" % type(t).__name__, repr(t)[:300], d)
                continue
            out = run.out.value()
            snaps = run.snaps[:len(gx)]
            if len(snaps) < len(gx):
                snaps = snaps + [len(out)] * (len(gx) - len(snaps))
            starts = [0] + snaps[:-1]
            for k, x in enumerate(gx):
                ctx.count("oracle_back_to_back")
                W.judge_request(x, run.exps[k], fail, tag + "#%d" % k)
                ctx.count("oracle_request_decoded")
                Sk = out[starts[k]:snaps[k]]
                if Sk != wires[order[k]][1]:
                    fail("socket-loop:response-differs", "response %d of %d differs from the stand-alone one (len %d vs %d)"
                         % (k, len(gx), len(Sk), len(wires[order[k]][1])), d)
            if len(out) != sum(len(wires[k][1]) for k in order):
                fail("socket-loop:output-length-differs", "total output %d != sum of stand-alone responses" % len(out), d)


def case(ctx):
    tier = ctx.tier
    n = PER_CASE[tier]
    big_p = 0.05 if tier == "quick" else 0.06
    xs, wires = [], []
    for _ in range(n):
        x = W.gen_exchange(ctx.rng, big_p=big_p)
        r = _one_exchange(ctx, x, tier)
        if r is not None:
            xs.append(x)
            wires.append(r)
    _loops(ctx, xs, wires)
