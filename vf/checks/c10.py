"""C10 - all tree-comparison implementations report the same changes.

Differential monitor (I8): for generated tree pairs the change list of the optimiser that
`InterTree.get(source, target)` really selects (InterDirStateTree, InterCHKRevisionTree,
InterGitTrees; the class is recorded and floors make a run without fast paths inconclusive) is
compared, as a set of normalised TreeChange tuples, with the generic inventory walk
`InterInventoryTree(source, target)`, for every (specific_files, include_unchanged,
want_unversioned, require_versioned) combination tried.
  * unfiltered: the two sets must be equal;
  * filtered: the entries at or below a named path (old or new path) must be equal; entries outside
    the named paths are dragged in by each implementation for consistency - which ones is judged
    by the closure oracle, a disagreement there is only counted (histogram `noncore-diff:*`);
  * unversioned entries are compared by the topmost unversioned ancestor, inside the named paths;
  * outcomes (exception class) must agree.
Independently of any twin, every change list (also the generic one, also git) is judged against
the two trees as read through the public Tree API: each side of each entry must describe the item
as it is in that tree; applying the unfiltered list to the source must give the target, and every
difference must be reported; a filtered list applied to the source must give a tree in which
every new parent exists, every directory above a really changed entry (up to the root, in the target)
is reported or sits unchanged where the source has it, every change at or below a named path is
present, and every really changed entry is either selected by the filter (its id, or an id above it,
sits at a named path in one of the two trees, or shares a path with such an id) or needed by an
accounted-for entry of the same list (filter:unrelated-entry-reported otherwise); git: path based, the filtered list must be a
subset of the unfiltered one and complete inside the filter, no file may end up with entries below it.
(`InterTree` itself has no iter_changes - it raises NotImplementedError - so the generic twin is
InterInventoryTree; git trees have no twin and are judged by the model oracles only.)
"""
import os

from vf import gen, model

ID = "C10"
LEVEL = "exploration"
TECHNIQUE = ("differential monitor: optimiser selected by InterTree.get vs generic InterInventoryTree walk, "
             "plus apply-to-source model oracle and filter-closure oracle on every reported change list")
LEVEL_TEXT = ("on generated histories (renames, reparenting, swaps, kind changes, missing and unversioned files) every change list produced by "
              "the dirstate fast path, the CHK fast path, the generic inventory walk and the git comparer was compared between implementations and "
              "against the trees themselves for sampled filters and all flag settings")
RULE = ("case = one generated history (2-4 commits + uncommitted delta) in a bzr 2a tree (2 of 3 cases) or a git tree; pairs = (basis, working tree), "
        "(pending-merge parent, working tree), (older revision, working tree), revision-tree pairs incl. reversed and null:; per pair 4 unfiltered flag settings "
        "+ 6 (quick) / 14 (thorough) filters of <= 3 paths x 2-3 flag settings + targeted filters (a file new in the target; an entry changed in place below a moved/new "
        "directory; an entry whose sibling directory's name merely starts with its name and has changes below); deltas also move a directory and change files below it in place, "
        "and create/modify prefix-named sibling directories (p, p0, p-b ...); one evaluation = one (pair, filter, flags) execution judged; "
        "non-trivial = the pair's change set has >= 2 entries incl. a rename/reparent/kind change/removal; distinct = pair kind + change-set shape + filter shape + flags")
CASES = {"quick": 48, "thorough": 1600}
BUDGET_S = {"quick": 50, "thorough": 800}
MIN_EVALS = {"quick": 800, "thorough": 20000}
FLOORS = {"selected:InterDirStateTree": 15, "selected:InterCHKRevisionTree": 15, "selected:InterGitTrees": 15,
          "diff_dirstate_vs_generic": 150, "diff_chk_vs_generic": 150, "apply_law": 100, "closure_law": 200,
          "filter_complete": 200, "git_filter_subset": 60, "diff_unversioned": 40,
          "closure_ancestors": 200, "filter_selection": 200, "targeted_in_place_below_changed_ancestor": 10, "targeted_prefix_named_sibling": 20}
ASSUMPTIONS = [
    "the trees as read through iter_entries_by_dir / kind / get_file_text / is_executable / get_symlink_target are taken as the truth the change lists are judged against (C09 checks those readers against the model)",
    "executable flags are compared for files only (the flag of a directory or symlink carries no meaning)",
    "git: paths stand for identities, directories are implied by their files, a rename may be reported as rename or as delete+add, changed_content=True is not judged (mode changes set it)",
    "specific_files=[] is not exercised (None means no filter; the meaning of an empty list is not stated)",
    "entries below a working-tree directory that is missing or no longer a directory on disk are not judged by the model oracle (only by the differential)",
    "with a filter, entries outside the named paths may differ between implementations (counted as noncore-diff); a reported entry landing on a place still occupied "
    "by an unreported source entry is counted (noncore:place-taken-twice), not judged: the statement speaks of parents only",
    "which ids a filter selects is read generously (named path in either tree, everything below in either tree, ids sharing a path with a selected id, entries on the way "
    "from the root to a named path); unchanged entries listed outside the selection are not judged",
    "the same entry listed twice in one change list is counted (duplicate-entries), not judged: the lists are compared as sets",
    "PathsNotVersionedError: only the class is compared, not the list of paths in the message",
]

W_COMMIT = {"mkfile": 6, "mkdir": 4, "symlink": 2, "add": 12, "edit": 6, "chmod": 3, "rename": 10, "remove": 2, "unversion": 1, "kindchange": 1}
W_WORK = dict(W_COMMIT, delete_disk=3, kindchange=2, unversion=2)


# ---------------------------------------------------------------- reading trees

def _view(tree, is_wt, git):
    """key -> dict(parent, name, kind, content, exec, path).  key = file id (bzr) or path (git)."""
    from breezy.transport import NoSuchFile

    out = {}
    for path, ie in tree.iter_entries_by_dir():
        kind = ie.kind
        if is_wt:
            try:
                kind = tree.kind(path)
            except (NoSuchFile, OSError):
                kind = None
        content, ex = None, None
        try:
            if kind == "file":
                content = tree.get_file_text(path)
                ex = bool(tree.is_executable(path))
            elif kind == "symlink":
                content = tree.get_symlink_target(path)
        except (NoSuchFile, OSError):
            kind, content, ex = None, None, None
        key = path if git else ie.file_id
        out[key] = {"parent": None if path == "" else (os.path.dirname(path) if git else ie.parent_id), "name": ie.name,
                    "kind": kind, "stored_kind": ie.kind, "content": content, "exec": ex, "path": path}
    if git and is_wt:
        # iter_entries_by_dir of a git working tree leaves out tracked symlinks that are missing on disk;
        # the index (all_versioned_paths) still has them
        allp = set(tree.all_versioned_paths())
        for path in allp:
            if path not in out:
                isdir = any(q.startswith(path + "/") for q in allp)  # (a directory implied by the files below it)
                out[path] = {"parent": os.path.dirname(path), "name": os.path.basename(path), "kind": None, "stored_kind": "directory" if isdir else "unlisted",
                             "content": None, "exec": None, "path": path}
    return out


def _x(kind, v):
    return bool(v) if kind == "file" else None


def _norm(c, git):
    """Normalised tuple of one TreeChange (exec only for files; git: no ids)."""
    k = c.kind
    ex = c.executable
    fid = getattr(c, "file_id", None)
    par = getattr(c, "parent_id", (None, None))
    if git:
        fid, par = None, (None, None)
    return (fid, tuple(c.path), bool(c.changed_content), tuple(c.versioned), tuple(par), tuple(c.name), tuple(k),
            (_x(k[0], ex[0]), _x(k[1], ex[1])), bool(getattr(c, "copied", False)))


def _j(t):
    """JSON-able rendering of a normalised tuple."""
    def d(x):
        if isinstance(x, bytes):
            return x.decode("utf-8", "replace")
        if isinstance(x, tuple):
            return [d(y) for y in x]
        return x
    return d(t)


def _run(inter, git, **kw):
    """('ok', [norm...]) or ('exc', name, detail) for one implementation."""
    from breezy import errors

    try:
        return ("ok", [_norm(c, git) for c in inter.iter_changes(**kw)])
    except errors.PathsNotVersionedError as e:
        return ("exc", "PathsNotVersionedError", sorted(e.paths))
    except (KeyboardInterrupt, SystemExit):
        raise
    except BaseException as e:
        return ("exc", type(e).__name__, repr(e)[:300])


# ---------------------------------------------------------------- oracles

def _shape(changes):
    """Order-free shape of a change list (no ids, no names): used for signatures and histograms."""
    sh = []
    for (fid, path, cc, ver, par, name, kind, ex, cp) in changes:
        tags = []
        if ver == (False, False):
            tags.append("unversioned")
        elif not ver[0]:
            tags.append("added")
        elif not ver[1]:
            tags.append("removed")
        else:
            if name[0] != name[1]:
                tags.append("renamed")
            if os.path.dirname(path[0]) != os.path.dirname(path[1]) or par[0] != par[1]:
                tags.append("reparented")
            if kind[0] != kind[1]:
                tags.append("missing" if kind[1] is None else "kindchange")
            elif cc:
                tags.append("modified")
            if ex[0] != ex[1]:
                tags.append("exec")
            if not tags:
                tags.append("unchanged")
        if cp:
            tags.append("copied")
        sh.append("%s:%s" % (kind[1] or kind[0], "+".join(tags)))
    return sorted(sh)


def _below_broken_dir(T, key, git):
    """True if an ancestor of key in working tree view T is missing or not a directory on disk."""
    e = T.get(key)
    seen = 0
    while e is not None and e["parent"] is not None and seen < 50:
        p = T.get(e["parent"])
        if p is None:
            return False
        if p["kind"] != "directory":
            return True
        e = p
        seen += 1
    return False


def _apply_bzr(ctx, S, T, changes, pk, fail, unfiltered, include_unchanged):
    """Apply an id-keyed change list to S.  Returns S' (id -> (parent, name)) or None after a failure."""
    S2 = _Places((i, (e["parent"], e["name"])) for i, e in S.items())
    K2 = {i: e["kind"] for i, e in S.items()}  # kinds after applying (kept beside S2 so the place comparison stays simple)
    seen = set()
    ok = True
    for c in changes:
        (fid, path, cc, ver, par, name, kind, ex, cp) = c
        if ver == (False, False):
            continue
        if fid in seen:
            continue  # the same entry twice (counted in the histogram by the differential): a set is a set
        seen.add(fid)
        s, t = S.get(fid), T.get(fid)
        # each side of the entry must describe the item as it is in that tree
        if ver[0] != (s is not None) or ver[1] != (t is not None):
            ok = fail("entry-wrong:versioned", "versioned=%r but source has it: %s, target has it: %s" % (ver, s is not None, t is not None), c)
            continue
        if s is not None:
            if (par[0], name[0], path[0]) != (s["parent"], s["name"], s["path"]):
                ok = fail("entry-wrong:old-place", "old side %r differs from the source tree %r" % ((par[0], name[0], path[0]), (s["parent"], s["name"], s["path"])), c)
            elif kind[0] != s["kind"] or ex[0] != _x(s["kind"], s["exec"]):
                ok = fail("entry-wrong:old-kind-exec", "old kind/exec %r/%r but the source tree has %r/%r" % (kind[0], ex[0], s["kind"], s["exec"]), c)
        if t is not None:
            if (par[1], name[1], path[1]) != (t["parent"], t["name"], t["path"]):
                ok = fail("entry-wrong:new-place", "new side %r differs from the target tree %r" % ((par[1], name[1], path[1]), (t["parent"], t["name"], t["path"])), c)
            elif not _below_broken_dir(T, fid, False) and (kind[1] != t["kind"] or ex[1] != _x(t["kind"], t["exec"])):
                ok = fail("entry-wrong:new-kind-exec", "new kind/exec %r/%r but the target tree has %r/%r" % (kind[1], ex[1], t["kind"], t["exec"]), c)
            S2[fid] = (par[1], name[1])
            K2[fid] = kind[1]
        else:
            S2.pop(fid, None)
            K2.pop(fid, None)
        if s is not None and t is not None and not _below_broken_dir(T, fid, False):
            differs = s["kind"] != t["kind"] or s["content"] != t["content"]
            if t["kind"] is not None or s["kind"] is None:
                if differs != cc:
                    ok = fail("entry-wrong:changed_content", "changed_content=%s but kind/content %s between the trees" % (cc, "differ" if differs else "are equal"), c)
            if not include_unchanged and not differs and (s["parent"], s["name"]) == (t["parent"], t["name"]) and _x(s["kind"], s["exec"]) == _x(t["kind"], t["exec"]) \
                    and unfiltered:
                ok = fail("spurious-entry", "entry reported without include_unchanged although nothing differs", c)
    S2.kinds = K2
    return S2 if ok else None


class _Places(dict):
    """id -> (parent, name) with the kinds after applying attached."""
    kinds = None


def _judge_bzr(ctx, S, T, res, pk, spec, flags, fail, thirds=None):
    changes = res[1]
    unfiltered = spec is None
    S2 = _apply_bzr(ctx, S, T, changes, pk, fail, unfiltered, flags["include_unchanged"])
    if S2 is None:
        return
    if unfiltered:
        ctx.count("apply_law")
        Tp = {i: (e["parent"], e["name"]) for i, e in T.items()}
        if S2 != Tp:
            bad = sorted(repr((i, S2.get(i), Tp.get(i))) for i in set(S2) | set(Tp) if S2.get(i) != Tp.get(i))
            fail("apply:unfiltered-not-target", "applying the unfiltered changes to the source does not give the target: %s" % bad[:3], None)
        # every difference in kind / content / exec must have been reported too
        rep = {c[0] for c in changes}
        for i in set(S) & set(T):
            if i in rep or _below_broken_dir(T, i, False):
                continue
            s, t = S[i], T[i]
            if s["kind"] != t["kind"] or s["content"] != t["content"] or _x(s["kind"], s["exec"]) != _x(t["kind"], t["exec"]):
                fail("apply:unreported-change", "%r differs between the trees (%r/%r -> %r/%r, content %s) but is not reported" % (
                    t["path"], s["kind"], s["exec"], t["kind"], t["exec"], "differs" if s["content"] != t["content"] else "same"), None)
        if flags["include_unchanged"]:
            ctx.count("unchanged_complete")
            miss = [T[i]["path"] for i in T if i not in rep]
            if miss:
                fail("include_unchanged:entry-missing", "include_unchanged=True but target entries %r are not reported" % sorted(miss)[:4], None)
        return
    # ---- filtered: the result applied to the source must be a valid tree
    ctx.count("closure_law")
    places = {}
    for i, (par, name) in S2.items():
        if par is None:
            continue
        if par not in S2:
            fail("closure:parent-missing", "after applying the filtered changes %r has parent %r which is not in the tree" % (name, par), {"id": _j(i)})
            return
        places.setdefault((par, name), []).append(i)
    # nothing may end up below something that is not a directory (judged when both trees themselves are sound in
    # that respect: a working tree whose versioned directory is a file on disk is not)
    def kind_sound(V):
        return all(e["parent"] is None or (V.get(e["parent"]) or {}).get("kind") == "directory" for e in V.values())
    if kind_sound(S) and kind_sound(T):
        ctx.count("closure_parent_kind")
        for i, (par, name) in S2.items():
            if par is not None and S2.kinds.get(par) != "directory":
                pe = next((c for c in changes if c[0] == par), None)
                reported = "reported as %r" % (S2.kinds.get(par),) if pe is not None else "not reported"
                # why the non-directory is in the list at all names the mechanism (inside-filter / source-occupant-of-new-path / parent-of-reported / other)
                fail("closure:parent-not-a-directory:%s" % (_role(pe, set(changes), spec) if pe is not None else "unreported"), "after applying the filtered changes %r sits below %r which is a %s (%s); %r itself is %s" % (
                    name, (S.get(par) or T.get(par) or {}).get("path"), S2.kinds.get(par), reported, name,
                    "reported" if any(c[0] == i for c in changes) else "not reported"), {"id": _j(i)})
                return
    if any(len(v) > 1 for v in places.values()):
        # a reported entry lands where an unreported source entry still sits: the statement only speaks of parents, so this is counted, not judged
        ctx.hist("noncore:place-taken-twice")
    # every ancestor in the target of a reported (really changed) entry is itself reported, or sits unchanged where the source
    # has it ("the parents in the target tree of the specific files up to and including the root are always evaluated for
    # changes too"): the direct parent is needed for a valid tree, the ones above it for the reported paths to be true
    rep = {c[0] for c in changes}
    ctx.count("closure_ancestors")
    for c in changes:
        if not c[3][1] or c[4][1] is None or _is_unchanged(c):
            continue  # (an unchanged entry listed because include_unchanged was asked needs nothing)
        P, depth = c[4][1], 0
        while P is not None and depth < 50:
            s, t = S.get(P), T.get(P)
            if t is None:
                if depth == 0:
                    fail("closure:parent-not-in-target", "new parent %r of %r is not in the target tree" % (P, c[1][1]), c)
                    return
                break
            if P not in rep:
                which = "parent" if depth == 0 else "ancestor"
                if s is None or (s["parent"], s["name"]) != (t["parent"], t["name"]):
                    fail("closure:%s-changed-unreported" % which, "%s %r of reported entry %r is %s between the trees but not reported" % (
                        "new parent" if depth == 0 else "target ancestor", t["path"], c[1][1],
                        "added" if s is None else "moved (%r -> %r)" % (s["path"], t["path"])), c)
                    return
                if t["kind"] == "directory" and s["kind"] != "directory" and not _below_broken_dir(T, P, False):
                    fail("closure:%s-kind-changed-unreported" % which, "target ancestor %r of reported entry %r was a %s in the source, is a directory in the target, but is not reported" % (
                        t["path"], c[1][1], s["kind"]), c)
                    return
            P, depth = t["parent"], depth + 1
    # ---- selection: a really changed entry is in the list because the filter selects it (its id sits at a named path in
    # either tree, or below such an entry in either tree) or because a reported entry needs it (see _unrelated)
    ctx.count("filter_selection")
    bad = _unrelated(spec, S, T, changes)
    if bad:
        why = [_why_unrelated(c, spec, S, T, changes, thirds) for c in bad]
        n = next((k for k, y in enumerate(why) if y != "no-relation"), 0)  # (the entries dragged in by an unrelated entry have no relation of their own)
        bad = [bad[n]]
        fail("filter:unrelated-entry-reported:%s" % why[n], "%r is reported although the filter does not select it (neither it nor an ancestor sits at a named path in either tree "
             "or shares a path with such an entry) and no reported entry needs it (not a target ancestor, not the other tree's occupant of a reported path, not a child of a directory that went away)" % (
                 [q for q in bad[0][1]],), bad[0])
        return
    # ---- completeness: everything at or below a named path that differs must be reported
    ctx.count("filter_complete")
    rep = {c[0] for c in changes}
    for i in set(S) | set(T):
        s, t = S.get(i), T.get(i)
        inside = any(e is not None and _inside_any(spec, e["path"]) for e in (s, t))
        if not inside or i in rep:
            continue
        if t is not None and _below_broken_dir(T, i, False):
            continue
        if s is None or t is None:
            differs = True
        else:
            differs = ((s["parent"], s["name"]) != (t["parent"], t["name"]) or s["kind"] != t["kind"] or s["content"] != t["content"]
                       or _x(s["kind"], s["exec"]) != _x(t["kind"], t["exec"]))
        if differs or flags["include_unchanged"]:
            fail("filter:change-inside-filter-missing", "%r is at/below a named path and %s but is not reported" % (
                (t or s)["path"], "differs" if differs else "include_unchanged was asked"), {"spec": spec})
            return


def _selected_ids(spec, *views):
    """The ids a filter may select - the documented rule, read generously: every id sitting at a named path in either tree,
    everything below such an id in either tree, and (what the path-driven searches of the dirstate do when they follow a
    renamed entry to its other path) whatever sits in the other tree at a path a selected id has in one of them;
    repeated until nothing is added."""
    kids = {}
    at = [{} for _ in views]
    for n, V in enumerate(views):
        for i, e in V.items():
            at[n][e["path"]] = i
            if e["parent"] is not None:
                kids.setdefault(e["parent"], set()).add(i)
    named = set(spec)
    sel = {i for V in views for i, e in V.items() if e["path"] in named or "" in named}
    todo = list(sel)
    while todo:
        i = todo.pop()
        more = set(kids.get(i, ()))
        for V in views:
            if i in V:
                more.update(a[V[i]["path"]] for a in at if V[i]["path"] in a)
        for k in more:
            if k not in sel:
                sel.add(k)
                todo.append(k)
    return sel


def _unrelated(spec, S, T, changes, thirds=()):
    """Really changed entries of a filtered list that nothing accounts for: not selected by the filter and not needed by an
    accounted-for entry of the same list (target ancestor of it; source occupant of its, or of one of its target ancestors',
    new path; target occupant of its old path (the path-driven
    walk of the dirstate looks at a path in both trees); source child of a reported directory that is no directory any more / is gone)."""
    sel = _selected_ids(spec, S, T, *thirds)
    byid = {}
    for c in changes:
        if c[3] != (False, False):
            byid.setdefault(c[0], c)
    # (an entry on the way from the root to a named path counts as selected too: "the parents in the target tree of the specific
    # files up to and including the root of the tree are always evaluated" - also when the named path itself is unversioned)
    ok = {i for i, c in byid.items() if i in sel or any(q is not None and (q == "" or n.startswith(q + "/")) for q in c[1] for n in spec)}
    pending = {i for i in byid if i not in ok and not _is_unchanged(byid[i])}
    if not pending:
        return []
    spath = {e["path"]: i for i, e in S.items()}
    progress = True
    while pending and progress:
        progress = False
        anc, newpaths, gone_dirs, oldpaths = set(), set(), set(), set()
        for i in ok:
            c = byid[i]
            if c[1][0] is not None:
                oldpaths.add(c[1][0])
            if c[6][0] == "directory" and c[6][1] != "directory":
                gone_dirs.add(i)
            t = T.get(i)
            n = 0
            while t is not None and n < 50:
                newpaths.add(t["path"])
                if t["parent"] is None:
                    break
                anc.add(t["parent"])
                t = T.get(t["parent"])
                n += 1
        for i in sorted(pending, key=repr):
            s, t = S.get(i), T.get(i)
            if i in anc or (s is not None and (spath.get(s["path"]) == i and s["path"] in newpaths or s["parent"] in gone_dirs)) \
                    or (t is not None and t["path"] in oldpaths):
                ok.add(i)
                pending.discard(i)
                progress = True
    return [byid[i] for i in sorted(pending, key=repr)]


def _why_unrelated(c, spec, S, T, changes, thirds):
    """Names what an unaccounted-for entry has to do with the filter after all (the mechanism part of the key)."""
    if thirds and c not in _unrelated(spec, S, T, changes, thirds):
        return "id-at-named-path-only-in-another-dirstate-parent"
    for q in c[1]:
        while q:
            d, _, b = q.rpartition("/")
            for n in spec:
                nd, _, nb = n.rpartition("/")
                if nd == d and b != nb and b.startswith(nb):
                    return "below-sibling-whose-name-starts-with-named-name"
            q = d
    return "no-relation"


def _inside_any(spec, path):
    for d in spec:
        if d == "" or path == d or path.startswith(d + "/"):
            return True
    return False


def _judge_git(ctx, S, T, res, pk, spec, flags, fail, full_unchanged, disk):
    """Path based.  Directories are implied; S/T: path -> entry."""
    changes = res[1]
    Sf = {p: (e["kind"], _x(e["kind"], e["exec"])) for p, e in S.items() if e["stored_kind"] != "directory"}
    # (a tracked file that is a directory on disk now counts as a directory: implied, not judged)
    Tf = {p: (e["kind"], _x(e["kind"], e["exec"])) for p, e in T.items() if e["stored_kind"] != "directory" and e["kind"] != "directory"}
    ok = True
    rm, add = [], []
    for c in changes:
        (fid, path, cc, ver, par, name, kind, ex, cp) = c
        if ver == (False, False) or ("directory" in kind and kind[0] in (None, "directory") and kind[1] in (None, "directory")):
            continue  # directories are implied by their files
        if ver[0]:
            if path[0] not in S:
                ok = fail("entry-wrong:old-place", "old path %r is not in the source tree" % (path[0],), c)
                continue
            s = S[path[0]]
            if s["stored_kind"] != "directory" and (kind[0] != s["kind"] or ex[0] != _x(s["kind"], s["exec"])):
                ok = fail("entry-wrong:old-kind-exec", "old kind/exec %r/%r but the source tree has %r/%r" % (kind[0], ex[0], s["kind"], s["exec"]), c)
            if not cp and s["stored_kind"] != "directory":
                rm.append(path[0])
        if ver[1]:
            if path[1] not in T:
                ok = fail("entry-wrong:new-place", "new path %r is not in the target tree" % (path[1],), c)
                continue
            t = T[path[1]]
            if t["stored_kind"] != "directory" and t["kind"] != "directory":
                if kind[1] != t["kind"] or ex[1] != _x(t["kind"], t["exec"]):
                    ok = fail("entry-wrong:new-kind-exec", "new kind/exec %r/%r but the target tree has %r/%r" % (kind[1], ex[1], t["kind"], t["exec"]), c)
                add.append((path[1], (kind[1], ex[1])))
        if ver[0] and ver[1] and path[0] in S and path[1] in T and not cc:
            s, t = S[path[0]], T[path[1]]
            if s["kind"] != t["kind"] or s["content"] != t["content"]:
                ok = fail("entry-wrong:changed_content", "changed_content=False but kind/content differ between %r and %r" % (path[0], path[1]), c)
    if not ok:
        return
    if spec is None:
        ctx.count("apply_law")
        S2 = dict(Sf)
        for p in rm:
            S2.pop(p, None)
        for p, v in add:
            S2[p] = v
        if S2 != Tf:
            bad = sorted(repr((p, S2.get(p), Tf.get(p))) for p in set(S2) | set(Tf) if S2.get(p) != Tf.get(p))
            stale = [p for p in S2 if p not in Tf]
            if stale and all(p in disk for p in stale) and flags["want_unversioned"] and len(stale) == len(bad):
                fail("apply:no-longer-versioned-but-kept-on-disk:removal-not-reported",
                     "%r are versioned in the source, unversioned (but still on disk) in the target, and no change reports them" % (sorted(stale)[:4],), None)
            else:
                fail("apply:unfiltered-not-target", "applying the unfiltered changes to the source does not give the target: %s" % bad[:3], None)
        newp = {c[1][1] for c in changes if c[3][1]}
        for p in set(Sf) & set(Tf):
            if p in newp:
                continue
            s, t = S[p], T[p]
            if s["kind"] != t["kind"] or s["content"] != t["content"]:
                fail("apply:unreported-change", "%r differs between the trees but is not reported" % (p,), None)
        if flags["include_unchanged"]:
            ctx.count("unchanged_complete")
            miss = [p for p in Tf if p not in newp]
            if miss:
                fail("include_unchanged:entry-missing", "include_unchanged=True but target entries %r are not reported" % sorted(miss)[:4], None)
        return
    # filtered: valid path tree after applying; subset of the full list; complete inside the filter
    ctx.count("closure_law")
    S2 = dict(Sf)
    for p in rm:
        S2.pop(p, None)
    for p, v in add:
        S2[p] = v
    for p in S2:
        q = os.path.dirname(p)
        while q:
            if q in S2:
                if _inside_any(spec, q) or any(x.startswith(q + "/") for x in spec):
                    fail("closure:file-used-as-directory", "after applying the filtered changes %r is a file and has %r below it" % (q, p), None)
                    return
                # the file arrived there through a rename whose other end was selected: as for bzr trees
                # (place-taken-twice) the statement only speaks of parents, so this is counted, not judged
                ctx.hist("noncore:file-used-as-directory")
            q = os.path.dirname(q)
    if full_unchanged is not None:
        ctx.count("git_filter_subset")
        extra = [c for c in changes if c not in full_unchanged and not (c[6][0] in (None, "directory") and c[6][1] in (None, "directory"))]
        if extra:
            fail("filter:entry-not-in-unfiltered", "the filtered list has an entry the unfiltered comparison does not have", extra[0])
            return
        ctx.count("filter_complete")
        got = set(changes)
        for c in full_unchanged:
            (fid, path, cc, ver, par, name, kind, ex, cp) = c
            if ver == (False, False) or (kind[0] in (None, "directory") and kind[1] in (None, "directory")):
                continue
            unchanged = ver == (True, True) and path[0] == path[1] and not cc and kind[0] == kind[1] and ex[0] == ex[1]
            if unchanged and not flags["include_unchanged"]:
                continue
            if any(p is not None and _inside_any(spec, p) for p in path) and c not in got:
                fail("filter:change-inside-filter-missing", "%r is at/below a named path and in the unfiltered list but not in the filtered one" % (path,), {"spec": spec, "entry": _j(c)})
                return


def _below_symlink(disk, p):
    """The nearest proper ancestor of p that is a symlink on disk (disk = snap_disk mapping), or None."""
    q = p
    while "/" in q:
        q = q.rpartition("/")[0]
        if disk.get(q, (None,))[0] == "symlink":
            return q
    return None


def _judge_unversioned(ctx, T, res, disk, git, spec, fail):
    """(False, False) entries must be real unversioned paths of the target working tree."""
    vp = {e["path"] for e in T.values()}
    for c in res[1]:
        if c[3] != (False, False):
            continue
        ctx.count("unversioned_entry")
        p = c[1][1]
        if p in vp and not git:
            fail("unversioned:is-versioned", "%r reported as unversioned but is versioned in the target" % (p,), c)
        elif p not in disk:
            if _below_symlink(disk, p):
                # reached by following a symlink that sits where a directory used to be (bzrformats dirstate fast path
                # lstat()s the old location of a moved directory): not a tree path at all
                fail("unversioned:path-reached-through-a-symlink", "%r reported as unversioned; %r is a symlink" % (p, _below_symlink(disk, p)), c)
            else:
                fail("unversioned:not-on-disk", "%r reported as unversioned but nothing is there" % (p,), c)


FIELDS = ("file_id", "path", "changed_content", "versioned", "parent_id", "name", "kind", "executable", "copied")


def _is_unchanged(c):
    (fid, path, cc, ver, par, name, kind, ex, cp) = c
    return ver == (True, True) and not cc and par[0] == par[1] and name[0] == name[1] and kind[0] == kind[1] and ex[0] == ex[1]


def _role(e, others, spec):
    """Why an entry may be in a filtered change list (used to name the mechanism of a disagreement)."""
    if spec is None:
        return "unfiltered"
    paths = [q for q in e[1] if q is not None]
    if any(_inside_any(spec, q) for q in paths):
        return "inside-filter"
    if e[1][0] is not None and any(o[1][1] == e[1][0] and o[0] != e[0] for o in others):
        return "source-occupant-of-new-path"
    if any((o[4][1] == e[0] or o[4][0] == e[0]) and o[0] != e[0] for o in others):
        return "parent-of-reported"
    if any(s.startswith(q + "/") for q in paths for s in spec if q != ""):
        return "parent-of-named-path"
    if "" in paths:
        return "root"
    return "other"


def _top_unversioned(T_paths, p):
    parts = p.split("/")
    for n in range(1, len(parts) + 1):
        q = "/".join(parts[:n])
        if q not in T_paths:
            return q
    return p


def _differential(ctx, cls, r1, r2, spec, flags, S, T, pk, detail_base):
    """Compare the selected optimiser (r1) with the generic walk (r2).  Returns nothing; records failures."""
    fl = ",".join(k for k, v in flags.items() if v)

    def rec(key, msg, extra=None):
        ctx.fail("%s:differs-from-generic:%s" % (cls, key), "%s: %s [specific_files=%r, %s]" % (pk, msg, spec, fl), dict(detail_base, **(extra or {})))

    if r1[0] != r2[0] or (r1[0] == "exc" and r1[1] != r2[1]):
        rec("outcome:%s-vs-%s" % (r1[1] if r1[0] == "exc" else "ok", r2[1] if r2[0] == "exc" else "ok"),
            "optimiser %r, generic %r" % (r1[1:] if r1[0] == "exc" else "ok", r2[1:] if r2[0] == "exc" else "ok"))
        return
    if r1[0] != "ok":
        return

    def versioned_part(lst):
        """The part both implementations owe: everything unfiltered; with a filter, the entries at or below a named path."""
        core, rest = set(), set()
        for c in lst:
            if c[3] == (False, False):
                continue
            if spec is None or any(q is not None and _inside_any(spec, q) for q in c[1]):
                core.add(c)
            else:
                rest.add(c)
        return core, rest

    (a, ra), (b, rb) = versioned_part(r1[1]), versioned_part(r2[1])
    if len(r1[1]) != len(set(r1[1])):
        ctx.hist("duplicate-entries:%s" % cls)
    if len(r2[1]) != len(set(r2[1])):
        ctx.hist("duplicate-entries:InterInventoryTree(generic)")
    if ra != rb:
        # entries outside the named paths are dragged in for consistency; which ones is each implementation's business
        # (judged by the closure oracle), so a disagreement there is counted, not judged
        others = ra | rb | a | b
        for c in ra ^ rb:
            ctx.hist("noncore-diff:%s:%s%s" % ("optimiser-only" if c in ra else "generic-only", _role(c, others, spec), ":unchanged" if _is_unchanged(c) else ""))
    if a != b:
        oa = {c[0]: c for c in a - b}
        ob = {c[0]: c for c in b - a}
        others = a | b | ra | rb
        keys = {}
        for fid in sorted(set(oa) | set(ob)):
            x, y = oa.get(fid), ob.get(fid)
            if x is None and any(c[0] == fid for c in ra) or y is None and any(c[0] == fid for c in rb):
                # same item reported by both, but with a path that puts it inside the filter for one only: a field disagreement
                x = x or next(c for c in ra if c[0] == fid)
                y = y or next(c for c in rb if c[0] == fid)
            if x is not None and y is not None:
                df = [FIELDS[i] for i in range(9) if x[i] != y[i]]
                # name the mechanism by the leading field (an entry wrongly called added differs in all the others too)
                k = "field:" + ("versioned" if "versioned" in df else "path" if "path" in df else "+".join(df))
            elif x is not None:
                k = "extra-in-optimiser:" + _role(x, others, spec)
            else:
                k = "missing-in-optimiser:" + _role(y, others, spec)
            if _is_unchanged(y if y is not None else x):
                k += ":unchanged-entry"
            keys.setdefault(k, (x, y))
        for k, (x, y) in sorted(keys.items()):
            rec(k, "optimiser %s, generic %s" % (_j(x) if x else "-", _j(y) if y else "-"),
                {"optimiser_entry": _j(x) if x else None, "generic_entry": _j(y) if y else None,
                 "optimiser_only": [_j(c) for c in sorted(a - b, key=repr)[:6]], "generic_only": [_j(c) for c in sorted(b - a, key=repr)[:6]]})
    if flags["want_unversioned"]:
        tp = {e["path"] for e in T.values()}
        sp = {e["path"] for e in S.values()}

        def unv(lst):
            out = set()
            for c in lst:
                if c[3] == (False, False):
                    t = _top_unversioned(tp, c[1][1])
                    if spec is None or _inside_any(spec, t):
                        out.add(t)
            return out
        ua, ub = unv(r1[1]), unv(r2[1])
        ctx.count("diff_unversioned")
        for q in sorted(ua ^ ub)[:1]:
            side = "extra-in-optimiser" if q in ua else "missing-in-optimiser"
            links = {e["path"]: ("symlink",) for e in T.values() if e["kind"] == "symlink"}
            role = "path-versioned-in-source" if q in sp else "plain"
            if side == "extra-in-optimiser" and _below_symlink(links, q):
                role = "path-reached-through-a-symlink"
            rec("unversioned:%s:%s" % (side, role),
                "unversioned %r reported by %s only" % (q, "the optimiser" if q in ua else "the generic walk"),
                {"optimiser_unversioned": sorted(ua), "generic_unversioned": sorted(ub)})


# ---------------------------------------------------------------- workload

STAMP = {"timestamp": 1500000000, "timezone": 0, "committer": "C Ten <c10@example.com>"}


def _swap(rng, wt, w):
    """Swap two versioned entries through a temporary name (three renames)."""
    cands = sorted(w.path(i) for i, e in w.ents.items() if i != model.ROOT and not e.missing and not gen._under_missing(w, i) and not e.kc)
    rng.shuffle(cands)
    for a in cands:
        for b in cands:
            if a == b or a.startswith(b + "/") or b.startswith(a + "/"):
                continue
            tmp = "swp.tmp"
            if not w.free(tmp):
                return None
            for src, dst in ((a, tmp), (b, a), (tmp, b)):
                op = {"op": "rename", "src": src, "dst": dst}
                gen.apply_real(wt, op)
                w.apply(op)
            return (a, b)
    return None


def _dir_becomes_file_path_reused(ctx, rng, wt, w, counter, log):
    """A versioned directory x is renamed to y and turned into a FILE (keeping its id), a NEW directory takes the
    vacated path x, the old children are moved into it or removed, and a new file appears below the new directory."""
    import shutil

    dirs = sorted(w.path(i) for i, e in w.ents.items() if i != model.ROOT and e.kind == "directory" and not e.missing and not e.kc
                  and not gen._under_missing(w, i) and w.children(i))
    if not dirs:
        return False
    x = rng.choice(dirs)
    xi = w.id_at(x)
    parent = os.path.dirname(x)
    y = (parent + "/" if parent else "") + "was-dir"
    newf = "g.new"
    if not w.free(y) or any(w.ents[c].name == newf for c in w.children(xi)) or any(w.ents[c].missing or w.ents[c].kc for c in w.descendants(xi)):
        return False
    base = wt.basedir
    kids = sorted(w.ents[c].name for c in w.children(xi))
    with wt.lock_tree_write():
        wt.rename_one(x, y)
        os.mkdir(os.path.join(base, x))
        counter[0] += 1
        wt.add([x], ids=[b"a%d-newdir" % counter[0]])
        for k in kids:
            if rng.random() < 0.6:
                wt.rename_one(y + "/" + k, x + "/" + k)
            else:
                wt.remove([y + "/" + k], keep_files=False, force=True)
        with open(os.path.join(base, x, newf), "w") as f:
            f.write("new below the new directory %d\n" % counter[0])
        counter[0] += 1
        wt.add([x + "/" + newf], ids=[b"a%d-gnew" % counter[0]])
    shutil.rmtree(os.path.join(base, y))
    with open(os.path.join(base, y), "w") as f:
        f.write("was a directory\n")
    ctx.hist("shape:dir-to-file+rename+path-reuse")
    log.append({"op": "dir-becomes-file-path-reused", "dir": x, "now-file-at": y, "new-file": x + "/" + newf})
    return True


_UID = [0]


def _uid(name):
    """A file id never used before in this case (the model's new_id() restarts from the entry count after a resync, so it
    can hand out an id that an earlier revision has at another path)."""
    _UID[0] += 1
    return "s%d-%s" % (_UID[0], "".join(ch for ch in name if ch.isalnum())[:8])


def _do(wt, w, op, log):
    gen.apply_real(wt, op)
    w.apply(op)
    log.append(gen.op_json(op))


def _live(w, kinds=None):
    return sorted(i for i, e in w.ents.items() if i != model.ROOT and not e.missing and not e.kc and not gen._under_missing(w, i)
                  and (kinds is None or e.kind in kinds))


def _change_in_place(rng, wt, w, i, log, tag):
    """Content edit, rename inside the same directory, or exec flip of versioned file i: its parent id stays."""
    q = w.path(i)
    r = rng.random()
    if r < 0.45:
        op = {"op": "edit", "path": q, "content": gen.edit_content(rng, w.ents[i].content or b"")}
    elif r < 0.8:
        d = os.path.dirname(q)
        dst = next((x for x in ((d + "/" if d else "") + w.ents[i].name + sfx for sfx in (".k2", ".k3", ".k4")) if w.free(x)), None)
        if dst is None:
            return
        op = {"op": "rename", "src": q, "dst": dst}
    else:
        op = {"op": "chmod", "path": q, "exec": not w.ents[i].exec}
    _do(wt, w, op, log)


def _dir_moves_entries_below_change_in_place(ctx, rng, wt, w, names, log):
    """A versioned directory is renamed (or moved) and, in the same delta, versioned files at any depth below it change in
    place: in the comparison those files keep their parent id while their paths change through the ancestor."""
    dirs = [i for i in _live(w, ("directory",)) if any(w.ents[c].kind == "file" and not w.ents[c].missing and not w.ents[c].kc
                                                        and not gen._under_missing(w, c) for c in w.descendants(i))]
    if not dirs:
        return False
    x = rng.choice(dirs)
    src = w.path(x)
    parent = os.path.dirname(src)
    pool = [(parent + "/" if parent else "") + n for n in names.dirs + [w.ents[x].name + ".mv"]]
    if rng.random() < 0.3:  # into another directory, keeping the name
        pool = [w.path(d) + "/" + w.ents[x].name for d in _live(w, ("directory",)) if d != x and d not in w.descendants(x)] + pool
    dst = next((q for q in pool if w.free(q) and not q.startswith(src + "/")), None)
    if dst is None:
        return False
    _do(wt, w, {"op": "rename", "src": src, "dst": dst}, log)
    below = sorted(c for c in w.descendants(x) if w.ents[c].kind == "file" and not w.ents[c].missing and not w.ents[c].kc and not gen._under_missing(w, c))
    rng.shuffle(below)
    for c in below[:rng.randint(1, 2)]:
        _change_in_place(rng, wt, w, c, log, "below-moved-dir")
    ctx.hist("shape:dir-moved+in-place-change-below")
    return True


def _prefix_named_sibling(ctx, rng, wt, w, log):
    """A versioned entry p gets (or has) a sibling DIRECTORY whose name merely starts with p's name (p + '0', p + '-b', ...) with
    versioned content that changes: 'at or below p' is path containment, not a string prefix."""
    paths = w.paths()
    have = []
    for q, qi in sorted(paths.items()):
        e = w.ents.get(qi)
        if not q or e.kind != "directory" or e.missing or e.kc or gen._under_missing(w, qi):
            continue
        d = os.path.dirname(q)
        if any(p != q and p and os.path.dirname(p) == d and q.startswith(p) for p in paths):
            have.append(qi)
    if have and rng.random() < 0.7:
        qi = rng.choice(have)
        q = w.path(qi)
        files = sorted(c for c in w.descendants(qi) if w.ents[c].kind == "file" and not w.ents[c].missing and not w.ents[c].kc and not gen._under_missing(w, c))
        if files and rng.random() < 0.7:
            _change_in_place(rng, wt, w, rng.choice(files), log, "below-prefix-sibling")
        else:
            n = next((x for x in (q + "/" + f for f in ("f1", "f2", "g.txt", "h.c")) if w.free(x)), None)
            if n is None:
                return False
            _do(wt, w, {"op": "mkfile", "path": n, "content": gen.gen_content(rng)}, log)
            _do(wt, w, {"op": "add", "path": n, "id": _uid(os.path.basename(n))}, log)
        ctx.hist("shape:change-below-prefix-named-sibling")
        return True
    cands = [i for i in _live(w) if w.ents[w.ents[i].parent].kind == "directory" or w.ents[i].parent == model.ROOT]
    rng.shuffle(cands)
    for i in cands[:4]:
        p = w.path(i)
        for sfx in rng.sample(["0", "-b", "b", ".d"], 4):
            q = p + sfx
            if not w.free(q):
                continue
            _do(wt, w, {"op": "mkdir", "path": q}, log)
            _do(wt, w, {"op": "mkfile", "path": q + "/f1", "content": gen.gen_content(rng)}, log)
            _do(wt, w, {"op": "add", "path": q, "id": _uid(os.path.basename(q))}, log)
            _do(wt, w, {"op": "add", "path": q + "/f1", "id": _uid("f1")}, log)
            ctx.hist("shape:prefix-named-sibling-created")
            return True
    return False


def _delta(ctx, rng, wt, names, nops, weights, log, counter=None):
    w = gen.random_delta(rng, wt, names, nops, weights, log)
    for prob, step in ((0.45, lambda: _dir_moves_entries_below_change_in_place(ctx, rng, wt, w, names, log)),
                       (0.45, lambda: _prefix_named_sibling(ctx, rng, wt, w, log))):
        if rng.random() < prob:
            try:
                step()
            except Exception as e:  # refused by breezy (C09 judges refusals): resync the model and go on
                log.append({"step-refused": type(e).__name__})
                w = gen.world_from_tree(wt)
    if counter is not None and rng.random() < 0.4:
        try:
            if _dir_becomes_file_path_reused(ctx, rng, wt, w, counter, log):
                return gen.world_from_tree(wt)
        except Exception as e:
            log.append({"dir-becomes-file-refused": type(e).__name__})
            return gen.world_from_tree(wt)
    if rng.random() < 0.3:
        # retarget a versioned symlink (the shared generator never changes a link's target)
        links = sorted(w.path(i) for i, e in w.ents.items() if i != model.ROOT and e.kind == "symlink" and not e.missing and not gen._under_missing(w, i))
        if links:
            q = rng.choice(links)
            ap = os.path.join(wt.basedir, q)
            if os.path.islink(ap):
                tgt = os.readlink(ap) + "_x"
                os.unlink(ap)
                os.symlink(tgt, ap)
                ctx.hist("shape:symlink-retarget")
                log.append({"op": "retarget", "path": q, "target": tgt})
    if rng.random() < 0.35:
        try:
            sw = _swap(rng, wt, w)
        except Exception as e:
            log.append({"swap-refused": type(e).__name__})
            sw = None
        if sw:
            ctx.hist("shape:swap")
            log.append({"op": "swap", "a": sw[0], "b": sw[1]})
    return w


def _add_all(wt, git, counter, log):
    """Version every unversioned path, with generator-chosen file ids (auto ids would make replays differ)."""
    from vf import observe

    if git:
        wt.smart_add([wt.basedir])
        log.append({"op": "add_all"})
        return
    disk = observe.snap_disk(wt.basedir)
    with wt.lock_tree_write():
        for q in sorted(disk, key=lambda x: (x.count("/"), x)):
            if wt.is_versioned(q):
                continue
            parent = os.path.dirname(q)
            if parent and (not wt.is_versioned(parent) or wt.kind(parent) != "directory" or disk.get(parent, ("",))[0] != "directory"):
                continue
            counter[0] += 1
            fid = "a%d-%s" % (counter[0], "".join(ch for ch in os.path.basename(q) if ch.isalnum())[:8])
            try:
                wt.add([q], ids=[fid.encode()])
            except Exception as e:
                log.append({"add-refused": q, "err": type(e).__name__})
                continue
            log.append({"op": "add", "path": q, "id": fid})


def _commit(wt, git, name, n):
    kw = dict(STAMP, timestamp=STAMP["timestamp"] + 100 * n)
    if git:
        return wt.commit("c-%s" % name, **kw)
    return wt.commit("c-%s" % name, rev_id=name.encode(), **kw)


def _build(ctx, rng, git):
    from breezy import errors
    from breezy.workingtree import WorkingTree

    names = gen.Names(ctx.tier)
    d = ctx.tmp("c10")
    p = os.path.join(d, "t")
    wt = gen.make_tree(p, "git" if git else "2a")
    log = []
    revs = []
    counter = [0]
    nrev = rng.randint(2, 3) if ctx.tier == "quick" else rng.randint(2, 4)
    for n in range(nrev):
        _delta(ctx, rng, wt, names, rng.randint(4, 10) if n == 0 else rng.randint(2, 7), W_COMMIT, log, None if (git or n == 0) else counter)
        if n == 0 or rng.random() < 0.4:
            _add_all(wt, git, counter, log)
        try:
            rid = _commit(wt, git, "r%d" % n, n)
        except errors.PointlessCommit:
            continue
        revs.append(rid)
        log.append({"op": "commit", "rev": rid.decode("latin-1")})
        wt = WorkingTree.open(p)
    if len(revs) < 2:
        ctx.discard("fewer than two revisions")
    merged = None
    if not git and rng.random() < 0.45:
        # a real pending merge: a sibling revision made in a sprouted tree, merged (not committed) into the main tree
        base = rng.choice(revs[-2:])
        p2 = os.path.join(d, "o")
        try:
            wt.branch.controldir.sprout(p2, revision_id=base)
            wt2 = WorkingTree.open(p2)
            log.append({"op": "sprout", "at": base.decode()})
            _delta(ctx, rng, wt2, names, rng.randint(2, 6), W_COMMIT, log, counter)
            if rng.random() < 0.5:
                _add_all(wt2, git, counter, log)
            merged = _commit(wt2, git, "m0", 50)
            wt = WorkingTree.open(p)
            with wt.lock_write():
                wt.merge_from_branch(wt2.branch)
            log.append({"op": "merge", "rev": "m0"})
            wt = WorkingTree.open(p)
            if merged not in wt.get_parent_ids():
                merged = None
        except (errors.BzrError, OSError) as e:
            log.append({"merge-setup-refused": type(e).__name__})
            merged = None
            wt = WorkingTree.open(p)
    _delta(ctx, rng, wt, names, rng.randint(3, 9), W_WORK, log)
    return p, revs, merged, log


def _filters(rng, universe, n):
    out = []
    uni = sorted(universe)
    for _ in range(n):
        k = rng.choice([1, 1, 2, 2, 3])
        spec = sorted(set(rng.choice(uni) for _ in range(k)))
        out.append(spec)
    return out


def _differs(s, t):
    return (s is None or t is None or (s["parent"], s["name"]) != (t["parent"], t["name"]) or s["kind"] != t["kind"] or s["content"] != t["content"]
            or _x(s["kind"], s["exec"]) != _x(t["kind"], t["exec"]))


def _targeted_bzr(ctx, rng, S, T, n):
    """Filters aimed at the two places where "which entries does a filter bring in" is decided by something other than the
    named entry itself:
      * an entry that changed IN PLACE (same parent id: content, name, exec) while a directory above it moved or is new: the
        filter names only the entry (or its unchanged parent), the changed ancestor has to come from the parent walk;
      * a named entry with a sibling DIRECTORY whose name merely starts with the entry's name (d1 / d10, c / cd) and with
        changes below that sibling: path containment is not string prefix."""
    out = []
    deep = []
    for i in set(S) & set(T):
        s, t = S[i], T[i]
        if s["parent"] != t["parent"] or t["parent"] is None or not _differs(s, t):
            continue
        P, up, n_up = t["parent"], [], 0
        while P is not None and P in T and n_up < 50:
            if P not in S or (S[P]["parent"], S[P]["name"]) != (T[P]["parent"], T[P]["name"]):
                up.append(T[P]["path"])
            P, n_up = T[P]["parent"], n_up + 1
        if up:
            deep.append((t["path"], T[t["parent"]]["path"], up))
    deep.sort()
    rng.shuffle(deep)
    for path, parent, up in deep[:n]:
        ctx.count("targeted_in_place_below_changed_ancestor")
        # name the entry, or (when the parent itself kept its place) the parent
        out.append([parent] if (parent and parent not in up and rng.random() < 0.3) else [path])
    sib = set()
    dirs = {}
    for V in (S, T):
        for e in V.values():
            if e["stored_kind"] == "directory" and e["path"]:
                dirs.setdefault(os.path.dirname(e["path"]), set()).add(e["path"])
    changed_paths = [e["path"] for i in set(S) | set(T) if _differs(S.get(i), T.get(i)) for e in (S.get(i), T.get(i)) if e is not None]
    for V in (S, T):
        for e in V.values():
            p = e["path"]
            if not p:
                continue
            for q in dirs.get(os.path.dirname(p), ()):
                if q != p and q.startswith(p) and any(c.startswith(q + "/") for c in changed_paths):
                    sib.add(p)
    sib = sorted(sib)
    rng.shuffle(sib)
    for p in sib[:n]:
        ctx.count("targeted_prefix_named_sibling")
        out.append([p])
    return out


def _flag_sets(rng, n, can_unversioned):
    allf = [{"include_unchanged": iu, "want_unversioned": wu, "require_versioned": rv}
            for iu in (False, True) for wu in ((False, True) if can_unversioned else (False,)) for rv in (False, True)]
    rng.shuffle(allf)
    return allf[:n]


def _pair(ctx, rng, pk, src, tgt, tgt_is_wt, git, disk, revpair, log, thirds=None):
    """Judge one (source, target) pair over flag / filter combinations.  Trees are locked by the caller."""
    from breezy.bzr.inventorytree import InterInventoryTree
    from breezy.tree import InterTree

    try:
        S = _view(src, False, git)
        T = _view(tgt, tgt_is_wt, git)
    except OSError as e:
        # the tree readers themselves failed (C09's subject: e.g. a git working tree whose tracked symlink
        # became a regular file cannot be listed): nothing to judge the change lists against
        ctx.hist("pair-skipped:tree-reader-%s" % type(e).__name__)
        return
    inter = InterTree.get(src, tgt)
    cls = type(inter).__name__
    ctx.count("selected:" + cls)
    ctx.hist("pair:%s:%s" % (pk, cls))
    twin = None
    if not git and cls != "InterInventoryTree":
        twin = ("diff_dirstate_vs_generic" if cls == "InterDirStateTree" else "diff_chk_vs_generic" if cls == "InterCHKRevisionTree" else "diff_other_vs_generic")
    universe = {e["path"] for e in S.values()} | {e["path"] for e in T.values()} | (set(disk) if tgt_is_wt else set())
    universe.discard("")
    universe.add("nosuch")
    if disk.get("d1", ("",))[0] != "symlink":  # (below a self-referencing symlink lstat says ELOOP: not this property's business)
        universe.add("d1/nosuch")
    nfil = 6 if ctx.tier == "quick" else 14
    combos = [(None, f) for f in _flag_sets(rng, 8, tgt_is_wt) if not f["require_versioned"]]
    for spec in _filters(rng, universe, nfil):
        for f in _flag_sets(rng, 2 if ctx.tier == "quick" else 3, tgt_is_wt):
            combos.append((spec, f))
    # targeted filters: a single file that is new in the target (its parents then have to come from the closure
    # rules alone), preferring files whose directory is new as well
    newfiles = sorted((0 if e["parent"] not in S else 1, e["path"]) for k, e in T.items() if k not in S and e["kind"] in ("file", "symlink"))
    for _rank, q in newfiles[:3 if ctx.tier == "quick" else 6]:
        ctx.count("targeted_new_file_filter")
        for f in _flag_sets(rng, 2, tgt_is_wt):
            combos.append(([q], f))
    if not git:
        for spec in _targeted_bzr(ctx, rng, S, T, 3 if ctx.tier == "quick" else 6):
            for f in _flag_sets(rng, 2, tgt_is_wt):
                combos.append((spec, f))
    full_shape = None
    full_cache = {}
    for spec, flags in combos:
        kw = dict(flags)
        if spec is not None:
            kw["specific_files"] = list(spec)
        detail_base = {"pair": pk, "revs": revpair, "class": cls, "specific_files": spec, "flags": flags, "program": log[-40:]}

        def fail(key, msg, entry=None, _d=detail_base):
            d = dict(_d)
            if entry is not None:
                d["entry"] = _j(entry) if isinstance(entry, tuple) else entry
            ctx.fail("%s:%s" % (cls, key), "%s [%s, specific_files=%r, %s]" % (msg, pk, spec, ",".join(k for k, v in flags.items() if v)), d)
            return False

        r1 = _run(inter, git, **kw)
        ctx.hist("outcome:%s:%s" % (cls, r1[0] if r1[0] == "ok" else r1[1]))
        if twin:
            r2 = _run(InterInventoryTree(src, tgt), git, **kw)
            ctx.count(twin)
            _differential(ctx, cls, r1, r2, spec, flags, S, T, pk, detail_base)
            # the generic walk is judged against the trees as well
            if r2[0] == "ok":
                def fail2(key, msg, entry=None, _d=detail_base):
                    d = dict(_d)
                    if entry is not None:
                        d["entry"] = _j(entry) if isinstance(entry, tuple) else entry
                    ctx.fail("InterInventoryTree:%s" % key, "%s [%s, specific_files=%r, %s]" % (msg, pk, spec, ",".join(k for k, v in flags.items() if v)), d)
                    return False
                _judge_bzr(ctx, S, T, r2, pk, spec, flags, fail2, thirds)
        if r1[0] == "exc":
            if r1[1] == "PathsNotVersionedError":
                ctx.count("refusal_checked")
                known = {e["path"] for e in S.values()} | {e["path"] for e in T.values()}
                if not flags["require_versioned"]:
                    fail("refusal:without-require_versioned", "PathsNotVersionedError%r although require_versioned=False" % (r1[2],))
                elif spec is not None and all(q in known for q in spec) and not git:
                    fail("refusal:all-paths-versioned", "PathsNotVersionedError%r but every named path is versioned in source or target" % (r1[2],))
            elif not twin or (r2[0] == "exc" and r2[1] == r1[1]):
                # (when only the optimiser raises, the differential has recorded it already)
                fail("unexpected:%s" % r1[1], "iter_changes raised %s" % (r1[2],))
            ctx.note((pk, "exc", r1[1], len(spec or ()), sorted(flags.items())), nontrivial=False)
            continue
        if flags["require_versioned"] and spec is not None and not git:
            known = {e["path"] for e in S.values()} | {e["path"] for e in T.values()}
            notv = [q for q in spec if q not in known]
            ctx.count("refusal_checked")
            if notv:
                fail("refusal:missing", "require_versioned=True, %r is versioned in neither tree, but no PathsNotVersionedError" % (notv,))
        if git:
            key = (flags["want_unversioned"],)
            if spec is None and flags["include_unchanged"]:
                full_cache[key] = r1[1]
            fu = full_cache.get(key)
            if spec is not None and fu is None:
                rf = _run(inter, git, include_unchanged=True, want_unversioned=flags["want_unversioned"], require_versioned=False)
                if rf[0] == "ok":
                    fu = full_cache[key] = rf[1]
            _judge_git(ctx, S, T, r1, pk, spec, flags, fail, fu, disk)
        else:
            _judge_bzr(ctx, S, T, r1, pk, spec, flags, fail, thirds)
        if flags["want_unversioned"]:
            _judge_unversioned(ctx, T, r1, disk, git, spec, fail)
        sh = _shape(r1[1])
        for tag in set(t for s in sh for t in s.split(":", 1)[1].split("+")):
            ctx.hist("shape:" + tag)
        if spec is None and not flags["include_unchanged"] and not flags["want_unversioned"]:
            full_shape = sh
        base = full_shape if full_shape is not None else sh
        interesting = len(base) >= 2 and any(t in s for s in base for t in ("renamed", "reparented", "kindchange", "removed", "missing"))
        ctx.note((pk, cls, sh, None if spec is None else [("in" if q in {e["path"] for e in T.values()} else "out") for q in spec], sorted(flags.items())),
                 nontrivial=interesting,
                 sample={"pair": pk, "class": cls, "specific_files": spec, "flags": flags, "changes": [_j(c) for c in r1[1][:8]]}
                 if (spec is not None and len(r1[1]) >= 2 and not getattr(ctx, "_c10_sampled", False)) else None)
        if spec is not None and len(r1[1]) >= 2:
            ctx._c10_sampled = True


def case(ctx):
    from breezy import revision as _mod_revision
    from breezy.workingtree import WorkingTree

    from vf import observe

    rng = ctx.rng
    git = ctx.index % 3 == 2
    _UID[0] = 0  # (ids are unique per case and the same on replay)
    try:
        p, revs, merged, log = _build(ctx, rng, git)
    except (KeyboardInterrupt, SystemExit):
        raise
    except Exception as e:
        if type(e).__name__ == "Discard":
            raise
        ctx.discard("workload construction: %s" % type(e).__name__)
    ctx.info["program"] = log
    ctx.hist("mode:git" if git else "mode:bzr")
    wt = WorkingTree.open(p)
    disk = observe.snap_disk(p)
    repo = wt.branch.repository
    null = _mod_revision.NULL_REVISION

    def rname(r):
        return "null:" if r == null else "m0" if r == merged else "r#%d" % revs.index(r)
    with wt.lock_read():
        basis = wt.basis_tree()
        other = wt.revision_tree(merged) if merged else None
        with basis.lock_read():
            # (with a pending merge the dirstate holds a third tree: its view only serves to name the mechanism of a finding)
            thirds = None
            if other is not None:
                with other.lock_read():
                    thirds = [_view(other, False, git)]
            _pair(ctx, rng, "basis-vs-working" + ("(2 parents)" if merged else ""), basis, wt, True, git, disk, ["basis", "wt"], log, thirds)
            if merged:
                # second parent stored in the dirstate: the fast path runs with source_index 2
                thirds = [_view(basis, False, git)]
                with other.lock_read():
                    _pair(ctx, rng, "pending-parent-vs-working", other, wt, True, git, disk, ["m0", "wt"], log, thirds)
        # revision tree pairs: adjacent, distant, reversed, against the empty tree
        ids = list(revs) + ([merged] if merged else [])
        pairs = []
        for _ in range(3 if ctx.tier == "quick" else 5):
            a, b = rng.choice(ids + [null]), rng.choice(ids)
            if a != b and (a, b) not in pairs:
                pairs.append((a, b))
        if rng.random() < 0.3:
            pairs.append((ids[-1], null))
        for a, b in pairs:
            ta, tb = repo.revision_tree(a), repo.revision_tree(b)
            with ta.lock_read(), tb.lock_read():
                pk = "rev-vs-rev" if null not in (a, b) else "null-vs-rev" if a == null else "rev-vs-null"
                _pair(ctx, rng, pk, ta, tb, False, git, disk, [rname(a), rname(b)], log)
        # an older, non-parent revision against the working tree (no fast path: the generic walk is what users get)
        if len(revs) >= 2 and rng.random() < 0.5:
            old = repo.revision_tree(revs[0])
            with old.lock_read():
                _pair(ctx, rng, "old-rev-vs-working", old, wt, True, git, disk, [rname(revs[0]), "wt"], log)
