"""C52 - format upgrades and reconfigurations preserve history and trees.

Before/after monitor on the real `breezy.upgrade.upgrade` (ConvertMetaToMeta / CopyConverter / branch and
working-tree converters / ConvertMetaToColo) and `breezy.reconfigure.Reconfigure.to_* + apply`.

Two case families, chosen per case index:

* U (upgrade): a generated multi-branch history (merges, tags, optional ghosts) in one of {knit, pack-0.92,
  rich-root-pack, 1.9, 1.9-rich-root, 1.14, 1.14-rich-root, 2a} laid out as {standalone tree, tree-less branch,
  heavyweight checkout, lightweight checkout, shared repository with dependent branches}, with uncommitted changes and
  optionally a pending merge in the tree, is upgraded with `upgrade(url, format, clean_up)` to a newer format
  (2a most of the time, intermediate pack formats, then 2a -> development-colo).
* R (reconfigure): a location in one of the six layouts {standalone tree, tree-less branch, heavyweight checkout,
  lightweight checkout, branch in shared repository with / without tree} with pending changes is driven through
  1-3 steps drawn from {to_tree, to_branch, to_checkout, to_lightweight_checkout, to_use_shared, to_standalone},
  each with force on or off.  Locations with their own repository often hold revisions outside the tip's ancestry (commit +
  tag + uncommit, a reverted merge, a fetched and tagged foreign head); the step is drawn with a bias towards transitions
  that change the layout, and towards those that must carry such revisions / pending-merge revisions into another repository.

Oracle (each step): a snapshot of the location read with fresh objects before and after must agree on branch tip +
revno, tags, the testament of every revision of the location's history (Testament v1 when the root model
changes, StrictTestament3 otherwise), the working tree's files on disk, its parent ids (pending merges), its
canonical iter_changes against every parent tree and its conflicts; Repository.check() must be clean; a
refused step (Already*, UncommittedChanges, UnsyncedBranches, NoBindLocation ...) must leave every byte of the
area unchanged; backup.bzr must be a byte-for-byte copy of the old .bzr when kept and absent after clean_up.
"""
import hashlib
import os
import shutil

from vf import gen
from vf.observe import check_repo, norm_changes, snap_disk, snap_tree

ID = "C52"
LEVEL = "exploration"
TECHNIQUE = ("before/after snapshot oracle (tip, tags, testaments, tree disk content, pending merges, canonical "
             "iter_changes, check, byte-level no-change on refusal, backup.bzr fidelity) around the real upgrade() "
             "and Reconfigure.apply()")
LEVEL_TEXT = ("held on the sampled (history, source format, layout, pending changes, target format) upgrades and "
              "(layout, pending changes, reconfigure step, force) transitions listed in the histogram")
RULE = ("case = family U: history (3-8 revisions, 2-3 branches, merges, tags, ghosts) x source format x layout x pending "
        "changes x pending merge x target format x clean_up, optionally followed by a second upgrade; family R: history x "
        "format x start layout x ahead/tag-conflict x dead heads in the own repository (uncommit / reverted merge / fetch, tagged "
        "or not) x pending changes x 1-3 reconfigure steps x force x bind/reference location; an evaluation "
        "= one upgrade() or one to_*+apply() judged; non-trivial = the location had history (>= 2 revisions) and the step "
        "either converted something or was refused; distinct = (family, source format/layout, target format/step, outcome, "
        "pending-state class)")
CASES = {"quick": 120, "thorough": 1400}
BUDGET_S = {"quick": 35, "thorough": 800}
MIN_EVALS = {"quick": 100, "thorough": 1200}
FLOORS = {
    "oracle_tip": 60,
    "oracle_tags": 60,
    "oracle_testaments": 60,
    "oracle_tree_disk": 40,
    "oracle_tree_changes": 40,
    "oracle_pending_merges": 10,
    "oracle_check": 60,
    "oracle_refusal_changes_nothing": 15,
    "oracle_backup_faithful": 10,
    "oracle_backup_removed": 5,
    "upgrade_runs": 30,
    "reconfigure_steps": 50,
    "oracle_own_repository_revisions": 30,
    "own_repository_dead_heads_judged": 10,
    "dead_heads_carried_to_other_repository": 4,
}
EXHAUSTIVE = {"quick": False, "thorough": False}
RUST = []
ASSUMPTIONS = [
    "testaments are computed by the real Testament / StrictTestament3 classes on both sides of the step (C41 judges them)",
    "'every revision' = for upgrades all revisions of the repository; for reconfigurations the ancestry of the branch tip and "
    "of the tree's pending merges and, when the location has a repository of its own (not shared), every revision in that "
    "repository (dead heads left by uncommit / reverted merges / fetches, revisions only named by tags); revisions of unrelated "
    "branches in a shared repository need not follow a branch out of it",
    "a step applied with force=True that destroys a tree with uncommitted changes is only judged on history, tags and check",
    "when a reconfiguration merges tags into another branch (to_lightweight_checkout) the location's tags must survive with "
    "their values; extra tags of the reference branch are allowed",
    "byte-level 'nothing changed' ignores lock directories and the dirstate file (its stat/sha cache may be refreshed by a read)",
    "formats knit (WorkingTreeFormat3) .. 2a; stacked branches, colocated branches and remote locations are not driven",
]

U_SOURCES = {
    "knit": ["pack-0.92", "1.9", "2a", "2a", None],
    "pack-0.92": ["1.9", "1.14", "2a", "2a", "rich-root-pack", None],
    "rich-root-pack": ["1.9-rich-root", "1.14-rich-root", "2a", "2a", None],
    "1.9": ["1.14", "2a", "2a", None],
    "1.9-rich-root": ["1.14-rich-root", "2a"],
    "1.14": ["2a", "2a", None],
    "1.14-rich-root": ["2a"],
    "2a": ["development-colo"],
}
U_WEIGHTS = [("knit", 3), ("pack-0.92", 4), ("rich-root-pack", 3), ("1.9", 3), ("1.9-rich-root", 1), ("1.14", 3),
             ("1.14-rich-root", 1), ("2a", 3)]
U_LAYOUTS = ["tree", "tree", "branch", "checkout", "lightweight", "shared"]
R_FORMATS = ["2a", "2a", "2a", "1.9", "pack-0.92", "1.14-rich-root", "development-colo"]
R_LAYOUTS = ["tree", "branch", "checkout", "lightweight", "repo-tree", "repo-branch"]
R_STEPS = ["to_tree", "to_branch", "to_checkout", "to_lightweight_checkout", "to_use_shared", "to_standalone"]
TAGS = ["v1", "rel 2", "t/x", "über"]
SKIP_DISK = (".bzr", ".git", "backup.bzr")


# ------------------------------------------------------------------ snapshots

def tree_fingerprint(root, skip_names=("lock", "dirstate", "held", "stat-cache")):
    """{relpath: sha1 | 'dir' | 'link:target'} of everything under root (control dirs included)."""
    out = {}
    for dp, dns, fns in os.walk(root):
        dns.sort()
        rel = os.path.relpath(dp, root)
        for d in list(dns):
            p = os.path.join(dp, d)
            if d in ("lock", "held") and ".bzr" in p:
                dns.remove(d)
                continue
            if os.path.islink(p):
                out[os.path.join(rel, d)] = "link:" + os.readlink(p)
                dns.remove(d)
            else:
                out[os.path.join(rel, d)] = "dir"
        for f in fns:
            if f in skip_names and ".bzr" in dp:
                continue
            p = os.path.join(dp, f)
            if os.path.islink(p):
                out[os.path.join(rel, f)] = "link:" + os.readlink(p)
            else:
                with open(p, "rb") as fh:
                    out[os.path.join(rel, f)] = hashlib.sha1(fh.read()).hexdigest()
    return out


def _disk(path):
    """Files of the location outside control directories (upgrade backups are named backup.bzr.~N~)."""
    return {k: v for k, v in snap_disk(path, skip=SKIP_DISK).items() if not k.startswith("backup.bzr")}


def backups_of(path):
    return sorted(n for n in os.listdir(path) if n.startswith("backup.bzr"))


def layout_of(path):
    from breezy import errors
    from breezy.controldir import ControlDir

    cd = ControlDir.open(path)
    has_tree = cd.has_workingtree()
    ref = cd.get_branch_reference()
    if ref is not None:
        return "lightweight" if has_tree else "reference-only"
    try:
        br = cd.open_branch()
    except errors.NotBranchError:
        return "no-branch"
    try:
        cd.open_repository()
        own_repo = True
    except errors.NoRepositoryPresent:
        own_repo = False
    bound = br.get_bound_location() is not None
    if own_repo:
        if bound:
            return "checkout" if has_tree else "bound-branch"
        return "tree" if has_tree else "branch"
    if bound:
        return "repo-checkout" if has_tree else "repo-bound-branch"
    return "repo-tree" if has_tree else "repo-branch"


def snap_location(path, all_revs=False, want=()):
    """Everything the statement wants preserved, read through fresh objects.

    `want`: revision ids (of an earlier snapshot) whose testaments are wanted too when the location's repository has them.
    """
    from breezy import errors
    from breezy.bzr.testament import StrictTestament3, Testament
    from breezy.controldir import ControlDir

    cd = ControlDir.open(path)
    d = {"layout": layout_of(path), "cd_format": type(cd._format).__name__}
    br = cd.open_branch()
    repo = br.repository
    wt = None
    if cd.has_workingtree():
        wt = cd.open_workingtree(recommend_upgrade=False)
    with br.lock_read():
        d["tip"] = br.last_revision_info()
        try:
            d["tags"] = dict(br.tags.get_tag_dict())
        except errors.TagsNotSupported:
            d["tags"] = {}
        d["bound"] = br.get_bound_location()
        d["branch_format"] = type(br._format).__name__
        d["repo_format"] = type(repo._format).__name__
        d["rich_root"] = bool(repo._format.rich_root_data)
        heads = [d["tip"][1]]
        if wt is not None:
            with wt.lock_read():
                heads += list(wt.get_parent_ids())
        g = repo.get_graph()
        present = set()
        for rev, parents in g.iter_ancestry([h for h in heads if h != b"null:"]):
            if parents is not None and rev != b"null:":
                present.add(rev)
        d["tip_ancestry"] = {rev for rev, parents in g.iter_ancestry([h for h in heads[:1] if h != b"null:"])
                             if parents is not None and rev != b"null:"}
        d["heads_ancestry"] = set(present)
        # a repository of its own (not shared with other branches): every revision in it belongs to this location
        try:
            d["own_repo"] = not cd.open_repository().is_shared()
        except errors.NoRepositoryPresent:
            d["own_repo"] = False
        if all_revs:
            d["all_revs"] = set(repo.all_revision_ids())
            present |= d["all_revs"]
        if d["own_repo"]:
            d["own_revs"] = set(repo.all_revision_ids())
            present |= d["own_revs"]
        extra = [r for r in want if r not in present]
        if extra:
            present |= set(repo.has_revisions(extra))
        t = {}
        for r in sorted(present):
            rev = repo.get_revision(r)
            t[r] = (tuple(rev.parent_ids), Testament.from_revision(repo, r).as_short_text(),
                    StrictTestament3.from_revision(repo, r).as_short_text())
        d["testaments"] = t
        d["signatures"] = {r: repo.get_signature_text(r) for r in present if repo.has_signature_for_revision_id(r)}
    d["check"] = check_repo(repo)
    if wt is not None:
        with wt.lock_read():
            td = {"format": type(wt._format).__name__, "parents": list(wt.get_parent_ids()), "last": wt.last_revision()}
            td["disk"] = _disk(path)
            td["snap"] = snap_tree(wt)
            td["conflicts"] = sorted(str(c) for c in wt.conflicts())
            ch = {}
            for p in td["parents"]:
                try:
                    pt = repo.revision_tree(p)
                    ch[p] = norm_changes(wt, pt)
                except errors.NoSuchRevision:
                    ch[p] = "absent"
            if not td["parents"]:
                ch[b"null:"] = norm_changes(wt, repo.revision_tree(b"null:"))
            td["changes"] = ch
            td["has_changes"] = wt.has_changes()
        d["tree"] = td
    else:
        d["tree"] = None
        d["disk_no_tree"] = _disk(path)
    return d


def strip_root_changes(ch, rich_before, rich_after):
    """iter_changes records for the tree root differ legitimately when the root model changes."""
    if rich_before == rich_after or not isinstance(ch, set):
        return ch
    return {c for c in ch if c[1] not in (("", ""), (None, ""), ("", None))}


def judge_preserved(ctx, pre, post, what, label, tree_expected=True, tags_superset=False, all_revs=False):
    """The heart of the oracle: compare two snapshots of one location around a successful step."""
    det = {"step": label}
    ctx.count("oracle_tip")
    ctx.check(pre["tip"] == post["tip"], "%s:tip-changed" % what, "%s: tip %r -> %r" % (label, pre["tip"], post["tip"]), det)
    ctx.count("oracle_tags")
    if tags_superset:
        lost = {k: v for k, v in pre["tags"].items() if post["tags"].get(k) != v}
        ctx.check(not lost, "%s:tags-lost" % what, "%s: tags %r became %r" % (label, lost, {k: post["tags"].get(k) for k in lost}), det)
    else:
        ctx.check(pre["tags"] == post["tags"], "%s:tags-changed" % what, "%s: tags %r -> %r" % (label, pre["tags"], post["tags"]), det)
    ctx.count("oracle_testaments")
    same_root = pre["rich_root"] == post["rich_root"]
    # (revisions reachable only from the tree's pending merges are judged with the tree, below)
    missing = sorted((set(pre["testaments"]) & pre["tip_ancestry"]) - set(post["testaments"]))
    ctx.check(not missing, "%s:revisions-lost" % what, "%s: revisions of the branch's history absent afterwards: %r" % (label, missing[:5]), det)
    if all_revs:
        lost = sorted(pre["all_revs"] - post["all_revs"])
        ctx.check(not lost, "%s:repository-revisions-lost" % what, "%s: %r" % (label, lost[:5]), det)
    elif pre.get("own_repo"):
        # The location had a repository of its own: all its revisions are the location's (dead heads left by uncommit or
        # a reverted merge, revisions only named by tags ...), wherever the step moves them.  (post was read with want=)
        ctx.count("oracle_own_repository_revisions")
        lost = sorted(pre["own_revs"] - set(post["testaments"]))
        dead = pre["own_revs"] - pre["heads_ancestry"]
        if dead:
            ctx.count("own_repository_dead_heads_judged")
            if not post.get("own_repo"):
                ctx.count("own_repository_with_dead_heads_destroyed")
        tagged = sorted(k for k, v in post["tags"].items() if v in lost)
        ctx.check(not lost, "%s:repository-revisions-lost" % what,
                  "%s: revisions of the location's own repository outside the tip's ancestry are absent afterwards: %r%s"
                  % (label, lost[:5], (" (still named by tags %r)" % tagged) if tagged else ""), det)
    for r, (parents, t1, t3) in pre["testaments"].items():
        if r not in post["testaments"]:
            continue
        p2, u1, u3 = post["testaments"][r]
        ctx.check(parents == p2, "%s:revision-parents-changed" % what, "%s: %r parents %r -> %r" % (label, r, parents, p2), det)
        ctx.check(t1 == u1, "%s:testament-v1-changed" % what, "%s: %r" % (label, r), det)
        if same_root:
            ctx.check(t3 == u3, "%s:testament-strict3-changed" % what, "%s: %r" % (label, r), det)
    ctx.hist("root-model:%s" % ("same" if same_root else "changed"))
    for r, s in pre["signatures"].items():
        ctx.hist("signature:%s" % ("kept" if post["signatures"].get(r) == s else "lost"))
    ctx.count("oracle_check")
    ctx.check(not post["check"], "%s:check-unclean" % what, "%s: %r" % (label, post["check"]), det)
    if not tree_expected:
        return
    a, b = pre["tree"], post["tree"]
    if a is None or b is None:
        return
    ctx.count("oracle_tree_disk")
    if a["disk"] != b["disk"]:
        diff = sorted(k for k in set(a["disk"]) | set(b["disk"]) if a["disk"].get(k) != b["disk"].get(k))
        ctx.fail("%s:tree-files-changed" % what, "%s: %r" % (label, [(k, a["disk"].get(k), b["disk"].get(k)) for k in diff[:4]]), det)
    ctx.count("oracle_pending_merges")
    if len(a["parents"]) > 1:
        ctx.hist("pending-merge-judged")
    ctx.check(a["parents"] == b["parents"], "%s:tree-parents-changed" % what, "%s: %r -> %r" % (label, a["parents"], b["parents"]), det)
    ctx.count("oracle_tree_changes")
    if a["snap"] != b["snap"]:
        diff = sorted(k for k in set(a["snap"]) | set(b["snap"]) if a["snap"].get(k) != b["snap"].get(k))
        ctx.fail("%s:tree-inventory-changed" % what, "%s: %r" % (label, [(k, a["snap"].get(k), b["snap"].get(k)) for k in diff[:4]]), det)
    for p, cha in a["changes"].items():
        chb = b["changes"].get(p)
        if chb is None:
            continue
        if chb == "absent" and cha != "absent":
            ctx.fail("%s:pending-merge-revision-lost" % what, "%s: tree parent %r is no longer in the repository" % (label, p), det)
            continue
        ca, cb = strip_root_changes(cha, pre["rich_root"], post["rich_root"]), strip_root_changes(chb, pre["rich_root"], post["rich_root"])
        if ca != cb:
            only_a = sorted(ca - cb, key=repr)[:3] if isinstance(ca, set) and isinstance(cb, set) else ca
            only_b = sorted(cb - ca, key=repr)[:3] if isinstance(ca, set) and isinstance(cb, set) else cb
            ctx.fail("%s:iter-changes-changed" % what, "%s: against %r only before %r only after %r" % (label, p, only_a, only_b), det)
    ctx.check(a["conflicts"] == b["conflicts"], "%s:conflicts-changed" % what, "%s: %r -> %r" % (label, a["conflicts"], b["conflicts"]), det)


# ------------------------------------------------------------------ workload construction

def add_pending(rng, wt, other_branch, names, log, p_merge=0.45):
    """Uncommitted edits and optionally a pending merge; returns a class label."""
    from breezy import errors

    label = []
    if other_branch is not None and rng.random() < p_merge:
        try:
            with wt.lock_write():
                wt.merge_from_branch(other_branch)
            if rng.random() < 0.7:
                gen.resolve_all(wt)
            if len(wt.get_parent_ids()) > 1:
                label.append("merge")
                log.append({"pending-merge-from": other_branch.base.rstrip("/").rsplit("/", 1)[-1]})
        except errors.BzrError as e:
            log.append({"merge-refused": type(e).__name__})
            wt.revert()
            gen.resolve_all(wt)
    if rng.random() < 0.75:
        n = rng.randint(1, 4)
        gen.random_delta(rng, wt, names, n, None, log)
        label.append("edits")
    return "+".join(label) or "clean"


def tags_supported(branch):
    return branch._format.supports_tags()


def add_dead_heads(rng, cd, other_branch, names, log):
    """Leave revisions in the location's own repository that are not in the ancestry of its tip, the way users do: commit +
    tag + uncommit, a merge that is reverted, a fetch of somebody else's tagged revision.  Returns a class label."""
    from breezy import errors, uncommit
    from breezy.commit import PointlessCommit

    b = cd.open_branch()
    has_tree = cd.has_workingtree()
    kinds = ["fetch"]
    if has_tree:
        kinds += ["uncommit", "uncommit", "merge-revert"]
    kind = rng.choice(kinds)
    tag = tags_supported(b) and rng.random() < 0.7
    if kind == "uncommit":
        wt = cd.open_workingtree()
        gen.random_delta(rng, wt, names, rng.randint(1, 3), None, log)
        local = b.get_bound_location() is not None and rng.random() < 0.85
        try:
            rid = wt.commit("candidate", rev_id=b"c52-cand-1", timestamp=1600000500, timezone=0, committer="S <s@example.com>",
                            **({"local": True} if local else {}))
        except PointlessCommit:
            return "none"
        if tag:
            b.tags.set_tag("candidate", rid)
        wt = cd.open_workingtree()
        uncommit.uncommit(wt.branch, tree=wt, local=local, keep_tags=True)
        if rng.random() < 0.4:
            wt = cd.open_workingtree()
            wt.revert()
        log.append({"dead-head": "uncommit", "tagged": tag, "local": local})
        return "uncommit" + ("+tag" if tag else "")
    if other_branch is None:
        return "none"
    other_tip = other_branch.last_revision()
    if kind == "merge-revert":
        wt = cd.open_workingtree()
        try:
            with wt.lock_write():
                wt.merge_from_branch(other_branch)
        except errors.BzrError as e:
            log.append({"merge-refused": type(e).__name__})
        wt = cd.open_workingtree()
        wt.revert()
        gen.resolve_all(wt)
    else:
        b.repository.fetch(other_branch.repository, other_tip)
    if not b.repository.has_revision(other_tip):
        return "none"
    if tag:
        b.tags.set_tag("seen", other_tip)
    log.append({"dead-head": kind, "tagged": tag})
    return kind + ("+tag" if tag else "")


# steps that actually move something from a given layout (the uniform draw is kept beside them, for the refusals)
PRODUCTIVE = {
    "tree": ["to_branch", "to_checkout", "to_lightweight_checkout", "to_lightweight_checkout", "to_use_shared"],
    "branch": ["to_tree", "to_checkout", "to_lightweight_checkout", "to_lightweight_checkout", "to_use_shared"],
    "checkout": ["to_tree", "to_branch", "to_lightweight_checkout", "to_lightweight_checkout", "to_use_shared"],
    "bound-branch": ["to_tree", "to_branch", "to_checkout", "to_lightweight_checkout", "to_use_shared"],
    "lightweight": ["to_tree", "to_tree", "to_checkout", "to_checkout", "to_branch"],
    "reference-only": ["to_tree", "to_checkout", "to_branch", "to_lightweight_checkout"],
    "repo-tree": ["to_standalone", "to_standalone", "to_branch", "to_checkout", "to_lightweight_checkout"],
    "repo-branch": ["to_standalone", "to_standalone", "to_tree", "to_checkout", "to_lightweight_checkout"],
    "repo-checkout": ["to_standalone", "to_tree", "to_branch", "to_lightweight_checkout"],
    "repo-bound-branch": ["to_standalone", "to_tree", "to_checkout", "to_lightweight_checkout"],
}


def pick_step(rng, cur, pre):
    """Mostly a step that changes the layout; those that have to carry revisions nothing else reaches more often still."""
    r = rng.random()
    if r < 0.3 or cur not in PRODUCTIVE:
        return rng.choice(R_STEPS)
    if r < 0.65:
        if pre["tree"] is not None and len(pre["tree"]["parents"]) > 1 and not pre["own_repo"]:
            # the kept tree names revisions the branch does not: a new repository has to receive them
            return rng.choice(["to_tree", "to_checkout"] if cur == "lightweight" else ["to_standalone", "to_standalone", "to_checkout"])
        if pre["own_repo"] and pre["own_revs"] - pre["heads_ancestry"]:
            # the repository that is about to be destroyed holds more than the branch's history
            return rng.choice(["to_lightweight_checkout", "to_lightweight_checkout", "to_lightweight_checkout", "to_use_shared"])
    return rng.choice(PRODUCTIVE[cur])


def build(ctx, rng, fmt, nrevs):
    from breezy.branch import Branch

    tags_ok = fmt not in ("knit", "dirstate")
    hist = gen.build_history(ctx, rng, fmt=fmt, nrevs=nrevs, nbranches=3, ghosts=(rng.random() < 0.25), merges=True, tags=tags_ok)
    return hist


def sign_some(rng, repo):
    with repo.lock_write():
        revs = sorted(repo.all_revision_ids())
        if not revs:
            return
        repo.start_write_group()
        try:
            for r in rng.sample(revs, min(len(revs), 2)):
                repo.add_signature_text(r, b"pseudo signature of " + r + b"\n")
        except BaseException:
            repo.abort_write_group()
            raise
        repo.commit_write_group()


# ------------------------------------------------------------------ family U

def case_upgrade(ctx):
    from breezy import errors
    from breezy.branch import Branch
    from breezy.controldir import ControlDir, format_registry
    from breezy.upgrade import upgrade
    from breezy.workingtree import WorkingTree

    rng = ctx.rng
    names = gen.Names(ctx.tier)
    fmt = rng.choices([f for f, _ in U_WEIGHTS], [w for _, w in U_WEIGHTS])[0]
    layout = rng.choice(U_LAYOUTS)
    target = rng.choice(U_SOURCES[fmt])
    clean_up = rng.random() < 0.4
    log = []
    ctx.info = {"family": "U", "format": fmt, "layout": layout, "target": target, "clean_up": clean_up, "log": log}
    try:
        hist = build(ctx, rng, fmt, rng.randint(3, 7) if ctx.tier == "quick" else rng.randint(3, 10))
        log.extend(hist.log[-30:])
        area = ctx.tmp("area")
        bnames = sorted(hist.trees)
        main = rng.choice(bnames)
        others = [b for b in bnames if b != main]
        main_path = os.path.join(area, "main")
        shutil.copytree(hist.trees[main], main_path, symlinks=True)
        other_branch = None
        if others:
            op = os.path.join(area, "other")
            shutil.copytree(hist.trees[rng.choice(others)], op, symlinks=True)
            other_branch = Branch.open(op)
        subject = main_path
        watch = [main_path]  # locations whose history must be preserved
        if rng.random() < 0.5:
            sign_some(rng, Branch.open(main_path).repository)
        if layout == "branch":
            ControlDir.open(main_path).destroy_workingtree()
        elif layout == "checkout":
            subject = os.path.join(area, "co")
            Branch.open(main_path).create_checkout(subject, lightweight=False)
            watch = [subject]
        elif layout == "lightweight":
            subject = os.path.join(area, "lco")
            Branch.open(main_path).create_checkout(subject, lightweight=True)
            watch = [subject]
        elif layout == "shared":
            subject = os.path.join(area, "shared")
            cdf = format_registry.make_controldir(fmt)
            os.mkdir(subject)
            scd = cdf.initialize(subject)
            srepo = scd.create_repository(shared=True)
            srepo.set_make_working_trees(rng.random() < 0.7)
            watch = []
            for i, b in enumerate(bnames[:2]):
                p = os.path.join(subject, "br%d" % i)
                ControlDir.open(hist.trees[b]).sprout(p)
                watch.append(p)
        pend = "none"
        for p in watch:
            if ControlDir.open(p).has_workingtree():
                pend = add_pending(rng, WorkingTree.open(p), other_branch, names, log)
    except Exception as e:  # workload construction (generator-made trees can be odd): never judged
        ctx.discard("setup:%s" % type(e).__name__)
        return
    ctx.hist("U:format:" + fmt)
    ctx.hist("U:layout:" + layout)
    ctx.hist("U:pending:" + pend)
    steps = [target]
    if target not in ("development-colo",) and rng.random() < 0.35:
        steps.append("development-colo" if target in ("2a", None) and rng.random() < 0.7 else "2a")
    cur_fmt = fmt
    nfail0 = sum(ctx.acc["fail_counts"].values())
    for tgt in steps:
        if tgt == cur_fmt:
            continue
        if sum(ctx.acc["fail_counts"].values()) != nfail0:
            return
        label = "upgrade %s/%s %s -> %s%s" % (layout, pend, cur_fmt, tgt or "default", " clean_up" if clean_up else "")
        try:
            pre = {p: snap_location(p, all_revs=True) for p in watch}
        except Exception as e:  # the generated starting state itself cannot be read: outside the input class
            ctx.discard("pre-snapshot:%s" % type(e).__name__)
            return
        places = sorted(set(watch) | {subject})
        for pl in places:
            for n in backups_of(pl):
                shutil.rmtree(os.path.join(pl, n))
        old_bzr = {pl: tree_fingerprint(os.path.join(pl, ".bzr"), skip_names=("lock", "held")) for pl in places}
        area_before = tree_fingerprint(area)
        tf = format_registry.make_controldir(tgt) if tgt else None
        ctx.count("upgrade_runs")
        try:
            excs = upgrade(subject, tf, clean_up=clean_up)
        except OSError as e:
            # e.g. ELOOP while scanning a shared repository's working trees for dependent branches (a versioned symlink that
            # points at itself): upgrade gives up before converting anything; preservation is then trivially required
            ctx.hist("U:gave-up:OSError")
            ctx.count("oracle_refusal_changes_nothing")
            ctx.check(tree_fingerprint(area) == area_before, "upgrade:gave-up-but-changed", "%s: %r" % (label, e), {"step": label})
            ctx.note(("U", fmt, layout, tgt, "gave-up:OSError", pend), nontrivial=False)
            return
        ctx.hist("U:target:%s" % (tgt or "default"))
        if excs:
            cls = type(excs[0]).__name__
            ctx.hist("U:exception:" + cls)
            if isinstance(excs[0], (errors.BadConversionTarget, errors.UpToDateFormat)):
                ctx.note(("U", fmt, layout, tgt, "refused:" + cls, pend), nontrivial=False)
                post = {p: snap_location(p, all_revs=True) for p in watch}
                for p in watch:
                    judge_preserved(ctx, pre[p], post[p], "upgrade-refused", label + " [refused %s]" % cls, all_revs=True)
                return
            ctx.fail("upgrade:error:%s" % cls, "%s: %r" % (label, excs[0]), {"step": label})
            return
        post = {p: snap_location(p, all_revs=True) for p in watch}
        converted = False
        for p in watch:
            judge_preserved(ctx, pre[p], post[p], "upgrade", label + " @" + os.path.basename(p), all_revs=True)
            for k in ("cd_format", "repo_format", "branch_format"):
                if pre[p][k] != post[p][k]:
                    converted = True
            if pre[p]["tree"] and post[p]["tree"] and pre[p]["tree"]["format"] != post[p]["tree"]["format"]:
                converted = True
                ctx.hist("U:tree-converted:%s->%s" % (pre[p]["tree"]["format"], post[p]["tree"]["format"]))
            ctx.hist("U:repo:%s->%s" % (pre[p]["repo_format"], post[p]["repo_format"]))
        for pl in places:
            now = tree_fingerprint(os.path.join(pl, ".bzr"), skip_names=("lock", "held"))
            bks = backups_of(pl)
            if now == old_bzr[pl]:
                ctx.hist("U:control-dir-untouched")
                ctx.check(not bks or not clean_up, "upgrade:backup-left-after-clean-up", "%s @%s: %r" % (label, os.path.basename(pl), bks), {"step": label})
                continue
            if clean_up:
                ctx.count("oracle_backup_removed")
                ctx.check(not bks, "upgrade:backup-left-after-clean-up", "%s @%s: %r" % (label, os.path.basename(pl), bks), {"step": label})
            else:
                ctx.count("oracle_backup_faithful")
                if len(bks) != 1:
                    ctx.fail("upgrade:no-backup", "%s @%s: %r" % (label, os.path.basename(pl), bks), {"step": label})
                else:
                    new = tree_fingerprint(os.path.join(pl, bks[0]), skip_names=("lock", "held"))
                    if new != old_bzr[pl]:
                        diff = sorted(k for k in set(new) | set(old_bzr[pl]) if new.get(k) != old_bzr[pl].get(k))
                        ctx.fail("upgrade:backup-not-faithful", "%s @%s: %r" % (label, os.path.basename(pl), diff[:6]), {"step": label})
        nrev = max(len(pre[p]["testaments"]) for p in watch)
        ctx.note(("U", cur_fmt, layout, tgt, "converted" if converted else "unchanged", pend), nontrivial=nrev >= 2 and converted,
                 sample={"family": "U", "format": cur_fmt, "layout": layout, "target": tgt or "default", "pending": pend,
                         "clean_up": clean_up, "revisions": nrev, "tags": sorted(pre[watch[0]]["tags"]),
                         "tree_parents": [x.decode() for x in (pre[watch[0]]["tree"] or {}).get("parents", [])]}
                 if ctx.index % 13 == 0 else None)
        ctx.distinct("upgrade_paths", (cur_fmt, tgt, layout))
        cur_fmt = tgt or "2a"


# ------------------------------------------------------------------ family R

def make_layout(rng, area, main_path, layout, shared_trees):
    """Create the subject location in `layout`, derived from the branch at main_path.  Returns its path."""
    from breezy.branch import Branch
    from breezy.controldir import ControlDir

    mb = Branch.open(main_path)
    # standalone layouts sit either beside or (own repository forced) underneath the shared repository, so that
    # to_use_shared is a real transition that has to move history
    under = rng.random() < 0.5
    p = os.path.join(area, "shared", "subj") if under else os.path.join(area, "subj")
    if layout in ("tree", "branch"):
        mb.controldir.sprout(p, create_tree_if_local=(layout == "tree"), force_new_repo=True)
    elif layout == "checkout":
        if under:
            mb.controldir.sprout(p, force_new_repo=True)
            Branch.open(p).bind(mb)
        else:
            mb.create_checkout(p, lightweight=False)
    elif layout == "lightweight":
        mb.create_checkout(p, lightweight=True)
    else:
        p = os.path.join(area, "shared", "subj")
        mb.controldir.sprout(p, create_tree_if_local=(layout == "repo-tree"))
        cd = ControlDir.open(p)
        if layout == "repo-tree" and not cd.has_workingtree():
            cd.create_workingtree()
        if layout == "repo-branch" and cd.has_workingtree():
            cd.destroy_workingtree()
    return p


def case_reconfigure(ctx):
    from breezy import errors, reconfigure
    from breezy.branch import Branch
    from breezy.commit import PointlessCommit
    from breezy.controldir import ControlDir, format_registry
    from breezy.workingtree import WorkingTree

    rng = ctx.rng
    names = gen.Names(ctx.tier)
    fmt = rng.choice(R_FORMATS)
    layout = R_LAYOUTS[ctx.index % len(R_LAYOUTS)] if rng.random() < 0.8 else rng.choice(R_LAYOUTS)
    shared_trees = rng.random() < 0.5
    log = []
    ctx.info = {"family": "R", "format": fmt, "layout": layout, "shared_trees": shared_trees, "log": log, "steps": []}
    try:
        hist = build(ctx, rng, fmt, rng.randint(2, 6) if ctx.tier == "quick" else rng.randint(2, 9))
        log.extend(hist.log[-30:])
        area = ctx.tmp("area")
        bnames = sorted(hist.trees)
        main = rng.choice(bnames)
        main_path = os.path.join(area, "main")
        shutil.copytree(hist.trees[main], main_path, symlinks=True)
        other_branch = None
        others = [b for b in bnames if b != main]
        op = os.path.join(area, "other")
        if others:
            shutil.copytree(hist.trees[rng.choice(others)], op, symlinks=True)
            other_branch = Branch.open(op)
        else:
            # a single-branch history: somebody branches off main and commits, so that there is something to merge
            owt = Branch.open(main_path).controldir.sprout(op).open_workingtree()
            gen.random_delta(rng, owt, names, rng.randint(1, 3), None, log)
            try:
                owt.commit("other work", rev_id=b"c52-other-1", timestamp=1600000900, timezone=3600, committer="O <o@example.com>")
            except PointlessCommit:
                pass
            other_branch = Branch.open(op)
        sh = os.path.join(area, "shared")
        os.mkdir(sh)
        scd = format_registry.make_controldir(fmt).initialize(sh)
        srepo = scd.create_repository(shared=True)
        srepo.set_make_working_trees(shared_trees)
        subj = make_layout(rng, area, main_path, layout, shared_trees)
        # sometimes the subject gets ahead of (or tagged differently from) the branch it came from
        sync = "synced"
        cd = ControlDir.open(subj)
        if layout != "lightweight" and rng.random() < 0.25:
            if cd.has_workingtree():
                wt = cd.open_workingtree()
                gen.random_delta(rng, wt, names, rng.randint(1, 3), None, log)
                kw = {"local": True} if layout == "checkout" and rng.random() < 0.7 else {}
                wt.commit("subject commit", rev_id=b"c52-subj-1", timestamp=1600000000, timezone=0,
                          committer="S <s@example.com>", **kw)
                sync = "ahead-local" if kw else ("ahead" if layout != "checkout" else "synced")
        dead = "none"
        if layout in ("tree", "branch", "checkout") and rng.random() < 0.75:
            dead = add_dead_heads(rng, cd, other_branch, names, log)
            cd = ControlDir.open(subj)
        ctx.hist("R:dead-heads:" + dead)
        b = cd.open_branch()
        if tags_supported(b) and rng.random() < 0.5:
            b.tags.set_tag(rng.choice(TAGS), b.last_revision())
            if rng.random() < 0.3:
                # a conflicting value for the same tag name in the branch we may get attached to
                mbr = Branch.open(main_path)
                name = rng.choice(sorted(b.tags.get_tag_dict()))
                if mbr.tags.get_tag_dict().get(name) in (None, b.tags.lookup_tag(name)):
                    lh = [r for r in hist.order if r != b.tags.lookup_tag(name)]
                    if lh and layout != "lightweight":
                        mbr.tags.set_tag(name, rng.choice(lh))
                        sync += "+tag-conflict"
        pend = "none"
        if cd.has_workingtree():
            pend = add_pending(rng, cd.open_workingtree(), other_branch, names, log,
                               p_merge=0.8 if layout in ("lightweight", "repo-tree") else 0.45)
    except Exception as e:  # workload construction (generator-made trees can be odd): never judged
        ctx.discard("setup:%s" % type(e).__name__)
        return
    ctx.hist("R:format:" + fmt)
    nsteps = rng.randint(1, 3)
    nfail0 = sum(ctx.acc["fail_counts"].values())
    for si in range(nsteps):
        if sum(ctx.acc["fail_counts"].values()) != nfail0:
            return  # an oracle already failed on this location: later steps would only re-report its consequences
        cur = layout_of(subj)
        try:
            pre = snap_location(subj)
            if cur == "lightweight":
                # a lightweight checkout has no repository of its own: what it shows is the referenced branch's repository,
                # which a reconfiguration of the checkout leaves in place (thorough seed 2 case 2: dead heads carried there
                # by an earlier step need not come back into a new local repository)
                pre["own_repo"] = False
            pre_main = snap_location(main_path, want=set(pre["testaments"]))
        except Exception as e:
            if si == 0:
                ctx.discard("pre-snapshot:%s" % type(e).__name__)
            raise
        step = pick_step(rng, cur, pre)
        force = rng.random() < 0.25
        loc = None
        if step in ("to_checkout", "to_lightweight_checkout"):
            loc = rng.choice([main_path, main_path, None])
        label = "%s[%s,%s,%s,%s] %s%s%s" % (cur, fmt, pend, sync, "dead:" + dead, step, "(main)" if loc else "", " force" if force else "")
        ctx.info["steps"].append(label)
        want = set(pre["testaments"])
        before_bytes = tree_fingerprint(area)
        cd = ControlDir.open(subj)
        ctx.count("reconfigure_steps")
        outcome = None
        try:
            if step in ("to_checkout", "to_lightweight_checkout"):
                rc = getattr(reconfigure.Reconfigure, step)(cd, loc)
            else:
                rc = getattr(reconfigure.Reconfigure, step)(cd)
            rc.apply(force)
            outcome = "applied"
        except (reconfigure.AlreadyBranch, reconfigure.AlreadyTree, reconfigure.AlreadyCheckout,
                reconfigure.AlreadyLightweightCheckout, reconfigure.AlreadyUsingShared, reconfigure.AlreadyStandalone,
                reconfigure.ReconfigurationNotSupported) as e:
            outcome = "refused:" + type(e).__name__
        except (errors.UncommittedChanges, reconfigure.UnsyncedBranches, reconfigure.NoBindLocation) as e:
            outcome = "refused:" + type(e).__name__
            if force and not isinstance(e, reconfigure.NoBindLocation):
                ctx.fail("reconfigure:refused-despite-force:%s" % type(e).__name__, label, {"step": label})
        except errors.NotBranchError as e:
            if step != "to_use_shared":
                raise
            # no shared repository above the location: apply() gives up (before destroying anything) with NotBranchError
            outcome = "refused:NoSharedRepositoryAbove"
        except errors.DivergedBranches as e:
            # bind() refuses a master that has diverged: documented refusal of Branch.bind, raised after earlier sub-steps
            outcome = "bind-refused:DivergedBranches"
        except Exception as e:
            # apply() blew up half-way (e.g. the revert inside destroy_workingtree cannot cope with the generated tree).  The
            # statement speaks about preservation, so that is what is judged; the crash itself is only recorded.
            outcome = "bind-refused:crash:" + type(e).__name__
            ctx.hist("R:crash:%s:%s" % (step, type(e).__name__))
        ctx.hist("R:step:" + step)
        ctx.hist("R:outcome:" + outcome)
        ctx.hist("R:from:" + cur)
        had_changes = bool(pre["tree"] and pre["tree"]["has_changes"])
        if outcome.startswith("refused"):
            ctx.count("oracle_refusal_changes_nothing")
            after_bytes = tree_fingerprint(area)
            if after_bytes != before_bytes:
                diff = sorted(k for k in set(after_bytes) | set(before_bytes) if after_bytes.get(k) != before_bytes.get(k))
                ctx.fail("reconfigure:refused-but-changed:%s" % outcome.split(":")[1], "%s: %r" % (label, diff[:6]), {"step": label})
                ctx.note(("R", fmt, cur, step, outcome + ":changed", pend, sync, force), nontrivial=True)
                return  # one mechanism, one key: the half-applied location is not judged further
            post = snap_location(subj, want=want)
            judge_preserved(ctx, pre, post, "reconfigure-refused", label + " [" + outcome + "]")
            ctx.check(post["layout"] == pre["layout"], "reconfigure:refused-but-layout-changed", "%s: %s -> %s" % (label, pre["layout"], post["layout"]))
            if outcome == "refused:UncommittedChanges":
                ctx.check(had_changes and not force, "reconfigure:spurious-UncommittedChanges", label, {"step": label})
            ctx.note(("R", fmt, cur, step, outcome, pend, sync, force), nontrivial=len(pre["testaments"]) >= 2)
            continue
        if outcome.startswith("bind-refused"):
            # earlier sub-steps of apply() may already have happened; history must still be intact
            post = snap_location(subj, want=want)
            judge_preserved(ctx, pre, post, "reconfigure-bind-refused", label + " [" + outcome + "]",
                            tree_expected="crash" not in outcome, tags_superset=True)
            ctx.note(("R", fmt, cur, step, outcome, pend, sync, force), nontrivial=False)
            continue
        post = snap_location(subj, want=want)
        new = post["layout"]
        ctx.hist("R:transition:%s->%s" % (cur, new))
        ctx.distinct("layout_pairs", (cur, new))
        tree_destroyed = pre["tree"] is not None and post["tree"] is None
        if tree_destroyed and had_changes and not force:
            ctx.fail("reconfigure:uncommitted-changes-destroyed", "%s: the tree had uncommitted changes and force was not given" % label,
                     {"step": label})
        to_ref = step == "to_lightweight_checkout"
        tag_conflict = any(pre_main["tags"].get(k, v) != v for k, v in pre["tags"].items())
        forced_over = force and ((tree_destroyed and had_changes) or "ahead" in sync or (to_ref and tag_conflict)
                                 or (to_ref and pre["tip"] != pre_main["tip"]))
        if forced_over and to_ref:
            # force skips the in-sync check: the location adopts the reference branch's tip by request
            ctx.hist("R:forced-unsynced-reference")
            ctx.count("oracle_check")
            ctx.check(not post["check"], "reconfigure:check-unclean", "%s: %r" % (label, post["check"]), {"step": label})
            ctx.note(("R", fmt, cur, step, "forced-unsynced", pend, sync, force), nontrivial=False)
            return  # the tree now sits on a branch it is not in step with, by request: nothing further to preserve
        else:
            judge_preserved(ctx, pre, post, "reconfigure", label + " => " + new, tree_expected=not tree_destroyed, tags_superset=to_ref)
            if pre["own_repo"] and not post["own_repo"]:
                carried = pre["own_revs"] - pre["heads_ancestry"]
                if to_ref:
                    carried -= set(pre_main["testaments"])
                if carried:
                    # revisions no branch tip or tree reaches, which the repository taking over did not (need not) have
                    ctx.count("dead_heads_carried_to_other_repository")
                    ctx.hist("R:dead-heads-carried:" + step)
        if tree_destroyed and not (force and had_changes):
            # unversioned files are not the tree's to delete
            lost = [k for k, v in pre["tree"]["disk"].items() if k not in pre["tree"]["snap"] and v[0] == "file"
                    and not any(k.startswith(q + "/") for q in pre["tree"]["snap"]) and post["disk_no_tree"].get(k) != v]
            ctx.check(not lost, "reconfigure:unversioned-files-lost", "%s: %r" % (label, lost[:4]), {"step": label})
        if pre["tree"] is None and post["tree"] is not None:
            ctx.count("oracle_tree_disk")
            t = post["tree"]
            ctx.check(t["last"] == post["tip"][1] and not t["has_changes"], "reconfigure:new-tree-not-at-tip",
                      "%s: tree at %r tip %r changes %r" % (label, t["last"], post["tip"], t["has_changes"]), {"step": label})
        # the branch we attached to / detached from keeps its own history
        post_main = snap_location(main_path)
        if not (to_ref or step == "to_checkout"):
            ctx.check(pre_main["tip"] == post_main["tip"] and pre_main["tags"] == post_main["tags"], "reconfigure:other-branch-changed",
                      "%s: main %r/%r -> %r/%r" % (label, pre_main["tip"], pre_main["tags"], post_main["tip"], post_main["tags"]))
        else:
            lost = {k: v for k, v in pre_main["tags"].items() if post_main["tags"].get(k) != v}
            ctx.check(pre_main["tip"] == post_main["tip"] or force or step == "to_checkout", "reconfigure:reference-branch-tip-moved",
                      "%s: %r -> %r" % (label, pre_main["tip"], post_main["tip"]))
            ctx.check(not lost, "reconfigure:reference-branch-tags-lost", "%s: %r" % (label, lost))
        ctx.note(("R", fmt, cur, step, new, pend, sync, force), nontrivial=len(pre["testaments"]) >= 2,
                 sample={"family": "R", "format": fmt, "from": cur, "step": step, "force": force, "to": new, "pending": pend,
                         "sync": sync, "revisions": len(pre["testaments"]), "tags": sorted(pre["tags"])}
                 if ctx.index % 17 == 0 else None)


def case(ctx):
    if ctx.index % 5 < 2:
        case_upgrade(ctx)
    else:
        case_reconfigure(ctx)
