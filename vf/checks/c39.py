"""C39 - diffs apply back to the text they describe.

Every evaluation is one (old, new, context) triple: the REAL breezy.diff.internal_diff
produces the diff text, the REAL breezy.patches.parse_patch parses it, and the monitors
observe the real patcher / serialiser / statistics:

  apply        iter_patched_from_hunks(old, hunks) and iter_patched(old, difflines) == new
  reserialise  parse_patch(patch.as_bytes()) has equal hunks and header, and is idempotent
  stats        Patch.stats_values() == ('+' lines, '-' lines, '@@' lines) counted on the diff
               text itself (body lines are always prefixed, so first bytes are unambiguous)
  perturbed    the patch applied to a perturbed old text either raises PatchConflict or -
               when every hunk's old-side lines are still found at the hunk's position -
               yields the spliced text; never another text, never another exception class
  gnu_patch    (sampled) breezy.patch.iter_patched_from_hunks (the Rust wrapper that feeds the
               same diff to patch(1)) also yields new

The spliced-text reference model is 8 lines (replace [orig_pos-1, +orig_range) by the
hunk's new-side lines) and is only consulted when all hunks match, i.e. where the result
is fully determined by the diff format.
"""
import itertools
import os
from io import BytesIO

ID = "C39"
LEVEL = "exploration"
TECHNIQUE = ("law monitors (apply-back, re-serialise, statistics, conflict-or-splice) on the real "
             "internal_diff / parse_patch / iter_patched_from_hunks, freshly built _patch_rs")
LEVEL_TEXT = ("every pair of texts of <= K lines over {a,b,c} with/without final newline at every context "
              "0..5 (K=2 quick, K=4 thorough; exhaustive when all cases ran), plus seeded random pairs of up "
              "to 10 lines over an alphabet with empty lines, CR, and diff-header look-alikes; each with "
              "perturbations of the old text")
RULE = ("case i takes the exhaustive pairs with index = i mod CASES plus R random (old,new,context,label) "
        "triples (new derived from old by 1-3 line edits, or independent); one evaluation = one triple judged "
        "by all monitors; non-trivial = old != new; distinct = distinct (old,new,context)")
CASES = {"quick": 64, "thorough": 512}
BUDGET_S = {"quick": 50, "thorough": 800}
MIN_EVALS = {"quick": 6000, "thorough": 300000}
FLOORS = {
    "quick": {"apply": 5000, "apply_iter_patched": 5000, "reserialise": 5000, "stats": 5000,
              "perturbed": 5000, "perturbed_conflict_expected": 1000, "perturbed_splice_expected": 300,
              "equal_gives_empty_diff": 50, "gnu_patch": 100},
    "thorough": {"apply": 250000, "apply_iter_patched": 250000, "reserialise": 250000, "stats": 250000,
                 "perturbed": 250000, "perturbed_conflict_expected": 50000, "perturbed_splice_expected": 10000,
                 "equal_gives_empty_diff": 200, "gnu_patch": 2000},
}
RUST = ["breezy._patch_rs"]
EXHAUSTIVE = {"quick": False, "thorough": False}
ASSUMPTIONS = [
    "texts are lists of lines as breezy passes them (each line ends with LF except possibly the last); no NUL bytes",
    "diff text is split on LF only (file.readlines), as bundle_data and shelf_ui do",
    "the exhaustive part covers <=2 (quick) / <=4 (thorough) lines over {a,b,c}; longer texts are sampled",
    "gnu_patch monitor depends on /usr/bin/patch; it is sampled, and skipped (counted) if patch(1) cannot be invoked",
]

BASE = (b"a\n", b"b\n", b"c\n")
RICH = BASE + (b"\n", b"--- x\n", b"+++ y\n", b"@@ -1,2 +1,2 @@\n", b"\\ No newline at end of file\n",
               b" a\n", b"-a\n", b"+a\n", b"a\r\n", b"a\rb\n", b"\xff\xe9\n", b"a b\tc\n")
LABELS = ("old", "new", "a/dir/file name", "b/ünï", "x")
CONTEXTS = (0, 1, 2, 3, 4, 5)


# ------------------------------------------------------------------ generators

def small_texts(maxlen):
    """All texts of <= maxlen lines over BASE, and each non-empty one without its final LF."""
    out = []
    for n in range(maxlen + 1):
        for t in itertools.product(BASE, repeat=n):
            t = list(t)
            out.append(t)
            if t:
                out.append(t[:-1] + [t[-1][:-1]])
    return out


_small = {}


def small(maxlen):
    if maxlen not in _small:
        _small[maxlen] = small_texts(maxlen)
    return _small[maxlen]


def rand_text(rng, alphabet, maxlen):
    n = rng.choice((0, 1, 1, 2, 3, 4, 5, 6, 8, maxlen))
    t = [rng.choice(alphabet) for _ in range(n)]
    if t and rng.random() < 0.25:
        t[-1] = t[-1][:-1] or b"x"
    return t


def toggle_nl(line):
    if line.endswith(b"\n"):
        return line[:-1] if len(line) > 1 else line
    return line + b"\n"


def long_pair(rng, alphabet):
    """A 12-30 line text and a copy with 2-4 well separated single-line edits (several hunks)."""
    n = rng.randint(12, 30)
    old = [rng.choice(alphabet) for _ in range(n)]
    new = list(old)
    for i in sorted(rng.sample(range(n), rng.randint(2, 4)), reverse=True):
        op = rng.choice(("ins", "del", "rep"))
        if op == "ins":
            new.insert(i, rng.choice(alphabet))
        elif op == "del":
            del new[i]
        else:
            new[i] = rng.choice(alphabet)
    return old, new


def norm(t):
    """Re-establish the text invariant (only the last line may lack LF)."""
    t = [l if l.endswith(b"\n") else l + b"\n" for l in t[:-1]] + t[-1:]
    return t


def mutate(rng, t, alphabet):
    t = list(t)
    for _ in range(rng.choice((1, 1, 2, 3))):
        op = rng.choice(("ins", "del", "rep", "dup", "swap", "nl"))
        if op == "ins" or not t:
            t.insert(rng.randint(0, len(t)), rng.choice(alphabet))
        elif op == "del":
            del t[rng.randrange(len(t))]
        elif op == "rep":
            t[rng.randrange(len(t))] = rng.choice(alphabet)
        elif op == "dup":
            i = rng.randrange(len(t))
            t.insert(i, t[i])
        elif op == "swap" and len(t) > 1:
            i = rng.randrange(len(t) - 1)
            t[i], t[i + 1] = t[i + 1], t[i]
        elif op == "nl":
            t[-1] = toggle_nl(t[-1])
    return norm(t) if t else t


def perturbations(rng, old, alphabet, k):
    """k perturbed variants of old, each != old, tagged with the kind of edit."""
    out = []
    kinds = ["replace", "delete", "insert", "truncate", "final-newline", "append"]
    for _ in range(k * 3):
        if len(out) >= k:
            break
        kind = rng.choice(kinds)
        t = list(old)
        if kind == "replace" and t:
            i = rng.randrange(len(t))
            t[i] = rng.choice([l for l in alphabet if l != t[i]])
        elif kind == "delete" and t:
            del t[rng.randrange(len(t))]
        elif kind == "insert":
            t.insert(rng.randint(0, len(t)), rng.choice(alphabet))
        elif kind == "truncate" and t:
            t = t[:rng.randrange(len(t))]
        elif kind == "final-newline" and t:
            t[-1] = toggle_nl(t[-1])
        elif kind == "append":
            t = norm(t) if t else t
            if t and not t[-1].endswith(b"\n"):
                t[-1] += b"\n"
            t.append(rng.choice(alphabet))
        else:
            continue
        t = norm(t) if t else t
        if t != old:
            out.append((kind, t))
    return out


# ------------------------------------------------------------------ observation helpers

def make_diff(old, new, n, labels):
    from breezy.diff import internal_diff

    f = BytesIO()
    internal_diff(labels[0], old, labels[1], new, f, context_lines=n)
    return f.getvalue()


def hunk_view(h):
    return (h.orig_pos, h.orig_range, h.mod_pos, h.mod_range, h.tail,
            tuple((type(l).__name__, l.contents) for l in h.lines))


def old_side(h):
    return [l.contents for l in h.lines if type(l).__name__ in ("ContextLine", "RemoveLine")]


def new_side(h):
    return [l.contents for l in h.lines if type(l).__name__ in ("ContextLine", "InsertLine")]


def model_apply(text, hunks, zconv=0):
    """Reference: (True, spliced text) if every hunk's old side sits at its position, else (False, None).

    zconv: where an EMPTY old range 'p,0' sits - 0: before line p (breezy's historical generator),
    1: after line p (diff(1)/difflib).  The caller calibrates it on the unperturbed text.
    """
    out, pos = [], 0
    for h in hunks:
        want = old_side(h)
        if h.orig_range == 0 and h.orig_pos > 0:
            start = h.orig_pos - 1 + zconv
        else:
            start = max(h.orig_pos - 1, 0)
        if start < pos or start > len(text) or text[start:start + len(want)] != want or len(want) != h.orig_range:
            return False, None
        out += text[pos:start] + new_side(h)
        pos = start + len(want)
    return True, out + text[pos:]


_zconv = []


def empty_range_convention():
    """Observe, on one fixed probe, where the real generator locates an empty old range.

    old = a,b ; new = a,c,b ; context 0: the insertion sits between lines 1 and 2.  The generator says
    '-2,0' (0: the range is named by the line after it; breezy's historical form) or '-1,0' (1: by the
    line before it; diff(1), difflib).  The model follows the generator; the apply monitors then tell
    whether the patcher agrees with it, and the gnu_patch monitor whether patch(1) does.
    """
    if not _zconv:
        from breezy import patches

        text = make_diff([b"a\n", b"b\n"], [b"a\n", b"c\n", b"b\n"], 0, ("old", "new"))
        h = patches.parse_patch(iter(BytesIO(text).readlines())).hunks[0]
        _zconv.append({2: 0, 1: 1}[h.orig_pos])
    return _zconv[0]


def _show(t):
    return [l.decode("latin-1") for l in t]


def _detail(old, new, n, labels, **kw):
    d = {"old": _show(old), "new": _show(new), "context": n, "labels": list(labels)}
    d.update(kw)
    return d


_gnu = {"usable": None}


def judge(ctx, old, new, n, labels, alphabet, nperturb, gnu):
    """One evaluation: all monitors on one (old, new, context) triple."""
    from breezy import patches

    det = _detail(old, new, n, labels)
    try:
        text = make_diff(old, new, n, labels)
    except BaseException as e:  # includes pyo3 PanicException
        if isinstance(e, (KeyboardInterrupt, SystemExit)):
            raise
        if "ecursion" in repr(e):
            # patiencediff (third-party wheel) gives up after 10 nested unique-line recursions; its Rust
            # implementation turns that into a panic (pyo3 PanicException, a BaseException)
            ctx.fail("diff:patiencediff-max-recursion", "internal_diff raises %r" % (e,), det)
        else:
            ctx.fail("diff:raises:%s" % type(e).__name__, repr(e)[:300], det)
        ctx.note((_show(old), _show(new), n))
        return
    sig = (_show(old), _show(new), n)
    if old == new:
        ctx.count("equal_gives_empty_diff")
        ctx.check(text == b"", "diff:nonempty-for-equal-texts", "diff of identical texts is %r" % text[:200], det)
        ctx.note(sig, nontrivial=False)
        return
    if not ctx.check(text != b"", "diff:empty-for-different-texts", "no diff produced", det):
        ctx.note(sig)
        return
    lines = BytesIO(text).readlines()
    det["diff"] = text.decode("latin-1")
    try:
        patch = patches.parse_patch(iter(lines))
        hunks = list(patch.hunks)
    except BaseException as e:
        if isinstance(e, (KeyboardInterrupt, SystemExit)):
            raise
        ctx.fail("parse:raises:%s" % type(e).__name__, repr(e)[:300], det)
        ctx.note(sig)
        return
    want = b"".join(new)

    # -- apply
    ctx.count("apply")
    try:
        got = b"".join(patches.iter_patched_from_hunks(list(old), hunks))
        ctx.check(got == want, "apply:wrong-text", "iter_patched_from_hunks gave %r, wanted %r" % (got[:200], want[:200]), det)
    except BaseException as e:
        if isinstance(e, (KeyboardInterrupt, SystemExit)):
            raise
        ctx.fail("apply:raises:%s" % type(e).__name__, repr(e)[:300], det)
    ctx.count("apply_iter_patched")
    try:
        got = b"".join(patches.iter_patched(list(old), list(lines)))
        ctx.check(got == want, "apply:iter_patched:wrong-text", "iter_patched gave %r, wanted %r" % (got[:200], want[:200]), det)
    except BaseException as e:
        if isinstance(e, (KeyboardInterrupt, SystemExit)):
            raise
        ctx.fail("apply:iter_patched:raises:%s" % type(e).__name__, repr(e)[:300], det)

    # -- header names as given
    enc = [l.encode("utf8", "replace") for l in labels]
    ctx.check((patch.oldname, patch.newname) == (enc[0], enc[1]), "parse:names-differ",
              "names %r %r" % (patch.oldname, patch.newname), det)

    # -- reserialise
    ctx.count("reserialise")
    try:
        b2 = patch.as_bytes()
        p2 = patches.parse_patch(iter(BytesIO(b2).readlines()))
        same = ([hunk_view(h) for h in p2.hunks] == [hunk_view(h) for h in hunks]
                and (p2.oldname, p2.newname, p2.oldts, p2.newts) == (patch.oldname, patch.newname, patch.oldts, patch.newts))
        ctx.check(same, "reserialise:hunks-differ", "re-parsed %r" % b2[:300], det)
        ctx.check(p2.as_bytes() == b2, "reserialise:not-idempotent", "second serialisation differs", det)
        ctx.check(b"".join(bytes(h) for h in hunks) == b2[len(patch.get_header()):], "reserialise:hunk-bytes-differ",
                  "bytes(hunk) concatenation != patch body", det)
        ctx.hist("reserialise:" + ("byte-identical-to-diff" if b2 + b"\n" == text else "normalised-ranges"))
    except BaseException as e:
        if isinstance(e, (KeyboardInterrupt, SystemExit)):
            raise
        ctx.fail("reserialise:raises:%s" % type(e).__name__, repr(e)[:300], det)

    # -- stats
    ctx.count("stats")
    plus = sum(1 for l in lines[2:] if l[:1] == b"+")
    minus = sum(1 for l in lines[2:] if l[:1] == b"-")
    nh = sum(1 for l in lines[2:] if l[:2] == b"@@")
    sv = patch.stats_values()
    ctx.check(tuple(sv) == (plus, minus, nh), "stats:mismatch", "stats_values %r, counted (+%d,-%d,@@%d)" % (sv, plus, minus, nh), det)
    ctx.check(plus - minus == len(new) - len(old), "stats:balance",
              "inserts-removes=%d but len(new)-len(old)=%d" % (plus - minus, len(new) - len(old)), det)
    ctx.check(nh == len(hunks) and nh >= 1, "stats:hunk-count", "%d headers, %d hunks" % (nh, len(hunks)), det)
    ctx.hist("hunks:%d" % min(nh, 4))
    ctx.hist("context:%d" % n)
    if any(not l.endswith(b"\n") for l in old + new):
        ctx.hist("has-missing-final-newline")
    if any(h.orig_range == 0 or h.mod_range == 0 for h in hunks):
        ctx.hist("has-zero-length-range")

    # -- the reference model must agree on the unperturbed text (keeps the model honest)
    zconv = empty_range_convention()
    ok, spliced = model_apply(list(old), hunks, zconv)
    if not ctx.check(ok and b"".join(spliced) == want, "model:hunks-do-not-describe-old-to-new",
                     "splicing the hunks into old (empty ranges sit %s line p) gives %r" % (
                         "before" if zconv == 0 else "after", spliced), det):
        ctx.note(sig)
        return
    if any(h.orig_range == 0 and h.orig_pos > 0 for h in hunks):
        ctx.hist("empty-old-range-convention:%s" % ("before-line-p" if zconv == 0 else "after-line-p"))

    # -- perturbed old text
    for kind, bad in perturbations(ctx.rng, old, alphabet, nperturb):
        ctx.count("perturbed")
        matches, expect = model_apply(list(bad), hunks, zconv)
        pdet = dict(det, perturbed_old=_show(bad), perturbation=kind)
        try:
            got = b"".join(patches.iter_patched_from_hunks(list(bad), hunks))
            exc = None
        except patches.PatchConflict as e:
            exc = e
        except BaseException as e:
            if isinstance(e, (KeyboardInterrupt, SystemExit)):
                raise
            exc = e
        if matches:
            ctx.count("perturbed_splice_expected")
            if exc is not None:
                ctx.fail("perturbed:matching-context-refused:%s" % type(exc).__name__, repr(exc)[:300], pdet)
            else:
                ctx.check(got == b"".join(expect), "perturbed:wrong-text-outside-hunks",
                          "got %r, wanted %r" % (got[:200], b"".join(expect)[:200]), pdet)
            ctx.hist("perturbed:%s:applies" % kind)
        else:
            ctx.count("perturbed_conflict_expected")
            if exc is None:
                ctx.fail("perturbed:silent-wrong-text", "mismatching text patched without conflict: %r" % got[:200], pdet)
                ctx.hist("perturbed:%s:SILENT" % kind)
            elif isinstance(exc, patches.PatchConflict):
                ctx.hist("perturbed:%s:PatchConflict" % kind)
                try:
                    str(exc)
                except Exception as e2:
                    ctx.fail("conflict:unprintable", repr(e2)[:300], pdet)
            else:
                ctx.fail(conflict_key(exc), "expected PatchConflict, got %r (text %s)" % (
                    exc, "ends before the hunk does" if model_short(bad, hunks) else "differs from the hunk"), pdet)
                ctx.hist("perturbed:%s:%s" % (kind, type(exc).__name__))

    # -- patch(1) through the Rust wrapper (sampled)
    if gnu and _gnu["usable"] is not False:
        from breezy import patch as _patch

        try:
            got = b"".join(_patch.iter_patched_from_hunks(list(old), list(lines)))
        except _patch.PatchInvokeError as e:
            if _gnu["usable"] is None:
                _gnu["usable"] = False
            ctx.hist("gnu_patch:invoke-error")
            got = None
        except BaseException as e:
            if isinstance(e, (KeyboardInterrupt, SystemExit)):
                raise
            ctx.count("gnu_patch")
            zero = any(h.orig_range == 0 and h.orig_pos > 0 for h in hunks)
            ctx.fail("gnu_patch:%sraises:%s" % ("zero-length-old-range:" if zero else "", type(e).__name__), repr(e)[:300], det)
            got = None
        else:
            _gnu["usable"] = True
            ctx.count("gnu_patch")
            if got != want:
                zero = any(h.orig_range == 0 and h.orig_pos > 0 for h in hunks)
                ctx.fail("gnu_patch:zero-length-old-range-misplaced" if zero else "gnu_patch:wrong-text",
                         "patch(1) gave %r, wanted %r" % (got[:200], want[:200]), det)
    ctx.note(sig, sample=(_detail(old, new, n, labels, diff=text.decode("latin-1"), stats=list(sv))
                          if ctx.rng.random() < 0.002 else None))


def conflict_key(exc):
    """Mechanism key for 'a mismatch was reported, but not as PatchConflict'."""
    import traceback

    frames = traceback.extract_tb(exc.__traceback__)
    last = frames[-1] if frames else None
    if isinstance(exc, TypeError) and last is not None and last.name == "__init__" and last.filename.endswith("patches.py"):
        return "conflict:PatchConflict-init-TypeError"
    if isinstance(exc, RuntimeError) and isinstance(exc.__cause__, StopIteration):
        return "conflict:input-exhausted-RuntimeError"
    return "conflict:raises-%s" % type(exc).__name__


def model_short(text, hunks):
    """True if some hunk needs lines beyond the end of text (the patcher runs out of input)."""
    for h in hunks:
        if max(h.orig_pos - 1, 0) + h.orig_range > len(text) or (h.orig_range == 0 and h.orig_pos > len(text)):
            return True
    return False


# ------------------------------------------------------------------ case

def worker_init(tier):
    from .. import boot

    d = boot.fresh_dir("c39tmp")
    os.environ["TMPDIR"] = d
    import tempfile

    tempfile.tempdir = d


def case(ctx):
    rng = ctx.rng
    quick = ctx.tier == "quick"
    ncases = CASES[ctx.tier]
    texts = small(2 if quick else 4)
    nt = len(texts)
    # exhaustive slice: pair index p = i*nt + j ; this case takes p % ncases == index
    p = ctx.index
    total = nt * nt
    while p < total:
        old, new = texts[p // nt], texts[p % nt]
        for n in CONTEXTS:
            judge(ctx, old, new, n, ("old", "new"), BASE, 1, gnu=(quick and (p + n) % 11 == 0) or (not quick and (p * 6 + n) % 173 == 0))
        p += ncases
    # random part
    R = 90 if quick else 260
    for k in range(R):
        alphabet = BASE if rng.random() < 0.35 else RICH
        if k % 4 == 3:
            old, new = long_pair(rng, alphabet)
            n = rng.choice((0, 0, 1, 1, 2, 3))
        else:
            old = rand_text(rng, alphabet, 10)
            new = mutate(rng, old, alphabet) if rng.random() < 0.75 else rand_text(rng, alphabet, 10)
            n = rng.choice(CONTEXTS)
        labels = (rng.choice(LABELS), rng.choice(LABELS))
        judge(ctx, old, new, n, labels, alphabet, 2 if quick else 3, gnu=(k % (9 if quick else 25) == 0))
