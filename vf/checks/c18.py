"""C18 - merge decision rules: symmetry, LCA consistency, unchanged side never wins.

Exhaustive enumeration of value assignments over a finite domain, judged by
law oracles on the real Merge3Merger._three_way / _lca_multi_way.  The same
law monitor can be armed on live call sites (install_live) by C17.
"""
import itertools

ID = "C18"
LEVEL = "exploration"
TECHNIQUE = "exhaustive law monitor on the real decision functions (finite domain), plus live call-site monitor"
RULE = ("every assignment (base, lcas[0..k], other, this) over a D-element domain, k<=K (quick D=4,K=4; thorough D=5,K=5), "
        "x allow_overriding_lca in {True,False}; non-trivial = not all values equal; distinct = distinct assignment")
CASES = {"quick": 32, "thorough": 64}
BUDGET_S = {"quick": 60, "thorough": 900}
MIN_EVALS = {"quick": 40000, "thorough": 900000}
FLOORS = {"law_S_three_way": 1000, "law_S_lca": 1000, "law_L": 100, "law_L_lcas_identical": 300, "law_U": 1000}
EXHAUSTIVE = {"quick": True, "thorough": True}
ASSUMPTIONS = ["values compared with == only (domain of small ints stands for any equality-comparable values)",
               "documented tie-break: other == this => 'this' in both orders"]
VALID = ("this", "other", "conflict")


def laws(ctx, three_way, lca, b, lcas, o, t, allow):
    """Evaluate all laws on one assignment; returns number of failures."""
    r = three_way(b, o, t)
    r2 = three_way(b, t, o)
    ctx.count("law_S_three_way")
    d = {"base": b, "lcas": list(lcas), "other": o, "this": t, "allow": allow}
    if r not in VALID or r2 not in VALID:
        ctx.fail("three_way:bad-result", "%r %r" % (r, r2), d)
        return
    if o == t:
        ctx.check(r == "this" and r2 == "this", "three_way:tie-break", "other==this gave %s/%s" % (r, r2), d)
    else:
        ctx.check((r == "conflict") == (r2 == "conflict") and (r == "this") == (r2 == "other") and (r == "other") == (r2 == "this"),
                  "three_way:asymmetric", "f(b,o,t)=%s f(b,t,o)=%s" % (r, r2), d)
    # unchanged side never wins (plain three-way: ancestors = {base})
    if t == b and o != b:
        ctx.check(r != "this", "three_way:unchanged-this-wins", "this==base, other changed, got %s" % r, d)
    if o == b and t != b:
        ctx.check(r != "other", "three_way:unchanged-other-wins", "other==base, this changed, got %s" % r, d)
    q = lca((b, list(lcas)), o, t, allow_overriding_lca=allow)
    q2 = lca((b, list(lcas)), t, o, allow_overriding_lca=allow)
    ctx.count("law_S_lca")
    if q not in VALID or q2 not in VALID:
        ctx.fail("lca:bad-result", "%r %r" % (q, q2), d)
        return
    if o == t:
        ctx.check(q == "this" and q2 == "this", "lca:tie-break", "other==this gave %s/%s" % (q, q2), d)
    else:
        ctx.check((q == "conflict") == (q2 == "conflict") and (q == "this") == (q2 == "other") and (q == "other") == (q2 == "this"),
                  "lca:asymmetric", "g(o,t)=%s g(t,o)=%s" % (q, q2), d)
    if all(v == b for v in lcas):
        ctx.count("law_L")
        ctx.check(q == r, "lca:differs-from-three-way-when-uniform", "lca=%s three_way=%s" % (q, r), d)
    if lcas and all(v == lcas[0] for v in lcas):
        # the statement's "all ancestors carry the same value" in the reading of the function's own docstring ("if LCAs
        # are all identical, same as _three_way"): the common value takes the place of the base, whatever base_val is
        ctx.count("law_L_lcas_identical")
        r3 = three_way(lcas[0], o, t)
        ctx.check(q == r3, "lca:differs-from-three-way-when-lcas-identical", "lca=%s three_way(lca value)=%s" % (q, r3), d)
    anc = set(lcas)
    anc.add(b)
    if t in anc and o not in anc:
        ctx.count("law_U")
        ctx.check(q != "this", "lca:unchanged-this-wins", "this in ancestors, other new, got %s" % q, d)
    if o in anc and t not in anc:
        ctx.count("law_U")
        ctx.check(q != "other", "lca:unchanged-other-wins", "other in ancestors, this new, got %s" % q, d)


def case(ctx):
    from breezy.merge import Merge3Merger

    D, K = (4, 4) if ctx.tier == "quick" else (5, 5)
    n = CASES[ctx.tier]
    dom = range(D)
    idx = 0
    three_way, lca = Merge3Merger._three_way, Merge3Merger._lca_multi_way
    for k in range(K + 1):
        for vals in itertools.product(dom, repeat=3 + k):
            idx += 1
            if idx % n != ctx.index:
                continue
            b, o, t = vals[0], vals[1], vals[2]
            lcas = vals[3:]
            for allow in (True, False):
                laws(ctx, three_way, lca, b, lcas, o, t, allow)
                ctx.note((vals, allow), nontrivial=len(set(vals)) > 1,
                         sample={"base": b, "lcas": list(lcas), "other": o, "this": t, "allow_overriding_lca": allow,
                                 "three_way": three_way(b, o, t), "lca_multi_way": lca((b, list(lcas)), o, t, allow_overriding_lca=allow)}
                         if idx % 997 == 0 else None)


class _LiveCtx:
    """Adapter so the law monitor can run on live call sites inside another check."""

    def __init__(self, ctx):
        self.ctx = ctx

    def count(self, m, n=1):
        self.ctx.count("C18live_" + m, n)

    def fail(self, key, msg, detail=None):
        self.ctx.fail("C18live:" + key, msg, detail)

    def check(self, cond, key, msg, detail=None):
        if not cond:
            self.fail(key, msg, detail)
        return cond


_installed = {}


def install_live(get_ctx):
    """Wrap the two staticmethods so every real call is checked against the laws.

    get_ctx() returns the current case Ctx (or None).  Idempotent.
    """
    from breezy.merge import Merge3Merger

    if _installed:
        _installed["get_ctx"] = get_ctx
        return
    orig3, origl = Merge3Merger._three_way, Merge3Merger._lca_multi_way
    _installed.update(get_ctx=get_ctx, orig3=orig3, origl=origl)

    busy = [False]  # the originals look Merge3Merger._three_way up at run time = our wrapper: no re-entrancy

    def three_way(base, other, this):
        r = orig3(base, other, this)
        c = None if busy[0] else _installed["get_ctx"]()
        if c is not None:
            busy[0] = True
            try:
                laws(_LiveCtx(c), orig3, origl, base, (), other, this, True)
            except Exception:
                pass
            finally:
                busy[0] = False
        return r

    def lca_multi_way(bases, other, this, allow_overriding_lca=True):
        r = origl(bases, other, this, allow_overriding_lca=allow_overriding_lca)
        c = None if busy[0] else _installed["get_ctx"]()
        if c is not None:
            busy[0] = True
            try:
                laws(_LiveCtx(c), orig3, origl, bases[0], tuple(bases[1]), other, this, allow_overriding_lca)
            except Exception:
                pass
            finally:
                busy[0] = False
        return r

    Merge3Merger._three_way = staticmethod(three_way)
    Merge3Merger._lca_multi_way = staticmethod(lca_multi_way)
