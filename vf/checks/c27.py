"""C27 - lock operations leave recoverable state at every crash point.

Crash half: one real execution of a lock scenario through the vf+ transport; the lock directory
is copied after every mutating transport op (plus torn variants of the non-atomic info write);
each crash state is judged with a fresh LockDir.
Fault half: the same scenarios with a transport error injected at the k-th operation (reads and
writes), for every k the dry run observed.
"""
import os
import shutil

from vf import instr

ID = "C27"
LEVEL = "fault_enumeration"
TECHNIQUE = "crash-prefix enumeration + transport-error injection at every operation of real LockDir executions; recoverability judge on fresh objects"
LEVEL_TEXT = ("every crash prefix and every single injected transport error (all positions observed in a dry run) of attempt_lock, unlock, force_break, contended "
              "attempt, wait_lock and LockableFiles lock/unlock: afterwards a fresh locker sees a free lock or readable (or breakable-corrupt) holder info and can acquire "
              "directly or after an explicit break; a failed acquisition does not leave the lock held by the failing process")
RULE = ("case = (scenario, fault kind, position); all positions of each scenario are enumerated over the case indices; non-trivial = every case (each is a distinct "
        "crash/fault position); distinct = (scenario, kind, position, op name)")
CASES = {"quick": 30, "thorough": 90}
BUDGET_S = {"quick": 45, "thorough": 400}
MIN_EVALS = {"quick": 100, "thorough": 400}
FLOORS = {"crash_states": 40, "fault_runs": 40, "judge_acquire": 80, "memory_states": 40}
EXHAUSTIVE = {"quick": True, "thorough": True}
ASSUMPTIONS = ["crash model as C04: stop between transport operations, completed ops persist, plus truncated/half info file for the non-atomic info write",
               "error model: one TransportError/PathError-class exception raised instead of performing the k-th operation"]

SCENARIOS = ["attempt", "attempt-unlock", "contended-attempt", "break", "break-then-attempt", "wait-contended", "unlock-after-break", "lockable-files",
             "token-stale-then-lock", "token-valid"]


class MemSite:
    """A lock hosted on an in-memory transport (rename refuses an existing directory there, as on Windows)."""

    kind = "memory"

    def __init__(self, snap=None):
        from dromedary.memory import MemoryServer

        self.server = MemoryServer()
        self.server.start_server()
        self.url = self.server.get_url()
        if snap:
            t = self.transport()
            for p in sorted(snap, key=lambda x: x.count("/")):
                if snap[p] is None:
                    t.mkdir(p)
                else:
                    t.put_bytes(p, snap[p])

    def transport(self, world=None):
        from dromedary import get_transport_from_url

        return get_transport_from_url((instr.PREFIX if world is not None else "") + self.url)

    def ld(self, world=None):
        from breezy.lockdir import LockDir

        return LockDir(self.transport(world), "lock")

    def snapshot(self):
        t = self.transport()
        out = {}

        def walk(d):
            for n in t.list_dir(d or "."):
                p = (d + "/" + n) if d else n
                try:
                    sub = t.list_dir(p)
                    out[p] = None
                    walk(p)
                except Exception:
                    out[p] = t.get_bytes(p)
        walk("")
        return out

    def close(self):
        try:
            self.server.stop_server()
        except Exception:
            pass


def _ld(url_or_path, world=None):
    if isinstance(url_or_path, MemSite):
        return url_or_path.ld(world)
    from breezy.lockdir import LockDir
    from dromedary import get_transport_from_path, get_transport_from_url

    if world is not None:
        return LockDir(get_transport_from_url(world.url(url_or_path)), "lock")
    return LockDir(get_transport_from_path(url_or_path), "lock")


def _prepare(root, scen):
    """Uninstrumented pre-state: lock dir exists; some scenarios start with a foreign holder."""
    if not isinstance(root, MemSite):
        os.makedirs(root, exist_ok=True)
    base = _ld(root)
    base.create()
    other = None
    if scen in ("contended-attempt", "break", "break-then-attempt", "wait-contended"):
        other = _ld(root)
        other.attempt_lock()
    return other


def _run(scen, world, root, state):
    """The operation under test (instrumented). state collects what the actor believes."""
    from breezy import errors
    from breezy.lockdir import LockBreakMismatch

    ld = _ld(root, world)
    state["ld"] = ld
    if scen == "attempt":
        ld.attempt_lock()
    elif scen == "attempt-unlock":
        ld.attempt_lock()
        ld.unlock()
    elif scen == "contended-attempt":
        try:
            ld.attempt_lock()
        except errors.LockContention:
            state["contended"] = True
    elif scen == "wait-contended":
        try:
            ld.wait_lock(timeout=10 ** 6, poll=0, max_attempts=3)
        except errors.LockContention:
            state["contended"] = True
    elif scen == "break":
        ld.force_break(ld.peek())
    elif scen == "break-then-attempt":
        ld.force_break(ld.peek())
        ld.attempt_lock()
        ld.unlock()
    elif scen == "unlock-after-break":
        ld.attempt_lock()
        breaker = _ld(root, world)
        breaker.force_break(breaker.peek())
        try:
            ld.unlock()
        except errors.LockBroken:
            state["broken"] = True
    elif scen == "token-stale-then-lock":
        # a lock_write with a token that is not the holder's nonce is a failed acquisition; the same object is then
        # used normally and everything is unlocked: the lock must end free
        try:
            ld.lock_write(token=b"not-the-nonce-on-disk")
            state["token_accepted"] = True
        except errors.TokenMismatch:
            state["token_mismatch"] = True
        finally:
            state["held_after_failed_token_lock"] = bool(ld.is_held) and not state.get("token_accepted")
        ld.lock_write()
        ld.unlock()
        state["expect_free"] = True
    elif scen == "token-valid":
        # another object of this process holds the lock; this one joins with the right token and leaves again
        first = _ld(root, world)
        tok = first.lock_write()
        ld.lock_write(token=tok)
        ld.unlock()
        state["expect_held_by"] = tok
        first.unlock()
        state["expect_held_by"] = None
        state["expect_free"] = True
    elif scen == "lockable-files":
        from breezy.bzr.lockable_files import LockableFiles
        from breezy.lockdir import LockDir
        from dromedary import get_transport_from_url

        lf = LockableFiles(root.transport(world) if isinstance(root, MemSite) else get_transport_from_url(world.url(root)), "lock", LockDir)
        lf.lock_write()
        lf.lock_write()
        lf.unlock()
        lf.unlock()


def _judge(ctx, snap, label, detail):
    """A fresh locker on the crash/fault state: peek parsable (or breakable corrupt), acquire directly or after break."""
    from breezy import errors

    fresh = _ld(snap)
    try:
        info = fresh.peek()
        corrupt = None
    except errors.LockCorrupt as e:
        info, corrupt = None, e
    except Exception as e:
        ctx.fail("judge:peek-raised", "%s: peek raised %r" % (label, e), detail)
        return
    ctx.count("judge_peek")
    try:
        if corrupt is not None:
            ctx.count("corrupt_states")
            fresh.force_break_corrupt(corrupt.file_data)
        try:
            fresh.attempt_lock()
            how = "direct"
        except errors.LockContention:
            info = fresh.peek()
            if info is None:
                raise
            fresh.force_break(info)
            fresh.attempt_lock()
            how = "after-break"
        fresh.confirm()
        fresh.unlock()
        ctx.count("judge_acquire")
        ctx.hist("recover:" + how)
        if fresh.peek() is not None:
            ctx.fail("judge:lock-not-free-after-unlock", "%s: lock still held after recover+unlock" % label, detail)
    except Exception as e:
        ctx.fail("judge:cannot-recover", "%s: fresh locker cannot acquire: %r" % (label, e), detail)
    return


def _post(ctx, scen, state, root, raised, label, detail):
    """What the actor believes against what is on disk, for the token scenarios."""
    if state.get("held_after_failed_token_lock"):
        ctx.fail("fault:failed-acquire-believes-held:token", "%s: lock_write(token=<wrong>) failed but is_held is True" % label, detail)
    if state.get("token_accepted"):
        ctx.fail("token:wrong-token-accepted", "%s: lock_write accepted a token that is not the nonce on disk" % label, detail)
    # (only without an injected fault: unlock() swallows a transport error by design - @only_raises - and then leaves the
    # lock held with readable info, which is the recoverable state the statement allows)
    if raised is None and state.get("expect_free") and label.endswith("/unfaulted"):
        ctx.count("end_free_checked")
        info = _ld(root).peek()
        if info is not None:
            ctx.fail("end:lock-left-held-after-all-unlocks", "%s: every holder unlocked but the lock is still held (nonce %r)" % (label, info.nonce), detail)


def _dry(ctx, scen):
    root = os.path.join(ctx.tmp("c27d"), "l")
    _prepare(root, scen)
    w = instr.World(root)
    state = {}
    with w.active(), w.actor("A"):
        _run(scen, w, root, state)
    _post(ctx, scen, state, root, None, "%s/unfaulted" % scen, {"scenario": scen})
    return w


def crash_enum(ctx, scen):
    root = os.path.join(ctx.tmp("c27c"), "l")
    _prepare(root, scen)
    snapdir = ctx.tmp("c27s")
    snaps = []
    w = instr.World(root)

    def take(label):
        p = os.path.join(snapdir, "s%d" % len(snaps))
        shutil.copytree(root, p, symlinks=True)
        snaps.append((label, p))
        return p

    def before(ev):
        if ev.op in ("put_bytes_non_atomic", "put_file_non_atomic"):
            # a crash in the middle of the non-atomic info write: empty and half-written file
            ap = os.path.join(root, ev.path)
            for variant in ("torn-empty", "torn-half"):
                p = take("%s:%s" % (ev.op, variant))
                tp = os.path.join(p, ev.path)
                with open(tp, "wb") as f:
                    f.write(b"" if variant == "torn-empty" else b"hostname: x\nnonce: abc")

    def after(ev):
        take("after#%d:%s:%s" % (w.mut_count.get("A", 0), ev.op, ev.path.split("/")[-1][-12:] if "tmp" not in ev.path else ev.op))

    w.before, w.after = before, after
    with w.active(), w.actor("A"):
        take("initial")
        _run(scen, w, root, {})
    ops = [e.op for e in w.mutating_events()]
    for label, p in snaps:
        ctx.count("crash_states")
        _judge(ctx, p, "%s/crash/%s" % (scen, label), {"scenario": scen, "ops": ops, "state": label})
        ctx.note(("crash", scen, label), nontrivial=True, sample={"scenario": scen, "crash_state": label, "mutating_ops": ops} if len(snaps) > 3 and label.startswith("after#2") else None)
    ctx.hist("crash-scenario:" + scen)


def fault_enum(ctx, scen):
    from breezy import errors
    from dromedary import errors as terr

    dry = _dry(ctx, scen)
    n = dry.op_count.get("A", 0)
    names = [e.op for e in dry.log if e.actor == "A"]
    kinds = [("TransportError", lambda ev: terr.TransportError("injected at %s" % ev.op)),
             ("PermissionDenied", lambda ev: terr.PermissionDenied(ev.path)),
             ("NoSuchFile", lambda ev: terr.NoSuchFile(ev.path))]
    for k in range(1, n + 1):
        kname, fac = kinds[k % len(kinds)] if ctx.tier == "quick" else kinds[(k + ctx.index) % len(kinds)]
        for kname, fac in ([(kname, fac)] if ctx.tier == "quick" else kinds):
            root = os.path.join(ctx.tmp("c27f"), "l")
            _prepare(root, scen)
            w = instr.World(root)
            w.fail_any_at["A"] = (k, fac)
            state = {}
            raised = None
            with w.active(), w.actor("A"):
                try:
                    _run(scen, w, root, state)
                except Exception as e:
                    raised = e
            ctx.count("fault_runs")
            opname = names[k - 1] if k - 1 < len(names) else "?"
            label = "%s/fault#%d:%s:%s" % (scen, k, opname, kname)
            detail = {"scenario": scen, "position": k, "op": opname, "error": kname, "raised": repr(raised)[:200], "dry_ops": names}
            ctx.hist("fault-outcome:" + (type(raised).__name__ if raised is not None else "completed"))
            ld = state.get("ld")
            # a failed acquisition never leaves the lock held by the failing process
            if scen in ("attempt", "contended-attempt", "wait-contended") and raised is not None and ld is not None:
                ctx.count("failed_acquisitions")
                if ld.is_held:
                    ctx.fail("fault:failed-acquire-believes-held", "%s: acquisition raised %r but is_held is True" % (label, raised), detail)
                disk = _ld(root).peek()
                mine = getattr(ld, "nonce", None)
                if disk is not None and mine is not None and disk.nonce == mine:
                    ctx.fail("fault:failed-acquire-left-lock-held:%s" % opname, "%s: acquisition raised %r but the lock on disk is held with the failing process's nonce" % (label, raised), detail)
            _post(ctx, scen, state, root, raised, label, detail)
            _judge(ctx, root, label, detail)
            ctx.note(("fault", scen, k, kname), nontrivial=True,
                     sample={"scenario": scen, "fault_position": k, "op": opname, "error": kname, "outcome": repr(raised)[:80]} if k == 3 else None)
    ctx.hist("fault-scenario:" + scen)


def memory_enum(ctx, scen):
    """Crash prefixes and faults of the scenario on an in-memory transport."""
    from dromedary import errors as terr

    site = MemSite()
    _prepare(site, scen)
    w = instr.World("/")
    snaps = []
    w.after = lambda ev: snaps.append(("after#%d:%s" % (w.mut_count.get("A", 0), ev.op), site.snapshot()))
    snaps.append(("initial", site.snapshot()))
    with w.active(), w.actor("A"):
        _run(scen, w, site, {})
    ops = [e.op for e in w.mutating_events()]
    n = w.op_count.get("A", 0)
    names = [e.op for e in w.log if e.actor == "A"]
    site.close()
    for label, snap in snaps:
        ctx.count("crash_states")
        ctx.count("memory_states")
        js = MemSite(snap)
        _judge(ctx, js, "%s/memory-crash/%s" % (scen, label), {"scenario": scen, "transport": "memory", "ops": ops, "state": label})
        js.close()
        ctx.note(("mem-crash", scen, label), nontrivial=True)
    for k in range(1, n + 1):
        site = MemSite()
        _prepare(site, scen)
        w = instr.World("/")
        w.fail_any_at["A"] = (k, lambda ev: terr.TransportError("injected at %s" % ev.op))
        raised = None
        with w.active(), w.actor("A"):
            try:
                _run(scen, w, site, {})
            except Exception as e:
                raised = e
        ctx.count("fault_runs")
        ctx.count("memory_states")
        opname = names[k - 1] if k - 1 < len(names) else "?"
        _judge(ctx, site, "%s/memory-fault#%d:%s" % (scen, k, opname), {"scenario": scen, "transport": "memory", "position": k, "op": opname, "raised": repr(raised)[:200], "dry_ops": names})
        site.close()
        ctx.note(("mem-fault", scen, k), nontrivial=True)
    ctx.hist("memory-scenario:" + scen)


def case(ctx):
    instr.install()
    if ctx.index >= 2 * len(SCENARIOS) and ctx.index < 3 * len(SCENARIOS):
        return memory_enum(ctx, SCENARIOS[ctx.index % len(SCENARIOS)])
    scen = SCENARIOS[(ctx.index // 2) % len(SCENARIOS)]
    if ctx.index % 2 == 0:
        crash_enum(ctx, scen)
    else:
        fault_enum(ctx, scen)
