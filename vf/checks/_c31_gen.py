"""C31 request generator: hostile client paths x every registered verb.

Everything is drawn from ctx.rng.  A request is a dict
  {"verb": str, "args": [latin-1 strs of the raw bytes], "body": latin-1 | None,
   "chunks": [...] | None, "root": root_client_path, "paths": [indices of path args]}
(bytes are carried as latin-1 strings so that requests are JSON-able for samples/replays).
"""
from urllib.parse import quote

ROOTS = ("/", "/x/", "/served/")

SEPS = ["/", "/", "/", "/", "%2F", "%2f", "//", "/./", "%252F", "%5C", "\\", "/%2E/", "%2F%2F", "\u2215", "%2f/"]
UPS = ["..", "..", "..", "..", "%2e%2e", "%2E%2E", ".%2e", "%2e.", "%252e%252e", "..%00", "\uff0e\uff0e",
       "%c0%ae%c0%ae", "...", ".. ", "%2e%2e%2f..", "..;", "%u002e%u002e"]
INSIDE = ["file", "branch", "dir/sub/f", "dir", "dir/sub", "", ".", "branch/.bzr/branch-format", "repo", "repo/b1",
          "branch/.bzr", "home/u/inhome.txt", "~/x", "stk_abs", "stk_rel", "stk_enc", "stk_path", "ref_abs", "ref_rel",
          "branch-evil", "secret.txt", "nonexistent", "new/dir/x", "file/", "dir/"]
PREFIXES = ["", "", "", "/", "branch/", "dir/sub/", "nonexist/", "~/", "file/", ".bzr/", "branch/.bzr/", "./", "//",
            "dir/../", "%2e/", "home/u/", "~", "\u00e9t\u00e9/"]
TARGETS = ["secret.txt", "other", "other/.bzr/branch-format", "other/.bzr", "other/leak.txt", "served-evil/evil.txt",
           "served-evil", "home-out/u/priv.txt", "", "ZQ7OUTSIDEONLY-dir", "other/.bzr/branch/branch.conf",
           "served-evil/.bzr/branch-format", "../../../../../../etc/passwd", "newfile-outside", "other/newdir"]
SOUP = ["/", ".", "..", "%2F", "%2f", "%2E", "%2e", "%2e%2e", "~", "~root", "~nobody", "//", "%00", "\u00e9", "\u202e",
        "%25", "%252e", "%5c", "\\", "%7E", "%7e", "secret.txt", "other", "served", "served-evil", "outer", "branch", "file",
        ".bzr", "dir", "x", "%c0%af", "%e0%80%af", ":", "file:", "bzr:", "?", "#", ",", ";", "%2c", "+", " ", "%20",
        "\uff0f", "\u2216", "%uff0f", "%", "%2", "%zz"]
SCHEMES = ["file://", "file:", "readonly+file://", "vflog+file://", "bzr://localhost", "bzr://localhost:4155",
           "bzr+ssh://localhost", "http://localhost", "chroot-%(cid)s://", "filtered-%(fid)s://", "memory://",
           "FILE://", "file://localhost"]
MODES = ["", "", "420", "493", "0644", "0o644", "-1", "x", "511"]


def _updir(rng, k, target):
    """k up-steps then the target, each separator/up token drawn from the hostile sets."""
    parts = []
    for _ in range(k):
        parts.append(rng.choice(UPS))
        parts.append(rng.choice(SEPS))
    segs = target.split("/")
    for i, s in enumerate(segs):
        parts.append(s)
        if i + 1 < len(segs):
            parts.append(rng.choice(SEPS) if rng.random() < 0.5 else "/")
    return "".join(parts)


def _uniform(rng, k, target, up, sep):
    return (up + sep) * k + target.replace("/", sep if rng.random() < 0.5 else "/")


def hostile_path(rng, env):
    """A client path that tries to name something outside served/ (relative to the served root)."""
    r = rng.random()
    target = rng.choice(TARGETS)
    if r < 0.30:
        pre = rng.choice(PREFIXES)
        k = pre.strip("/").count("/") + (1 if pre.strip("/~.") or pre.startswith("~") else 0) + rng.choice((1, 1, 1, 2, 3, 5))
        return pre + _updir(rng, k, target)
    if r < 0.55:
        pre = rng.choice(PREFIXES)
        k = pre.strip("/").count("/") + (1 if pre.strip("/~.") or pre.startswith("~") else 0) + rng.choice((1, 1, 2, 4))
        return pre + _uniform(rng, k, target, rng.choice(UPS), rng.choice(SEPS))
    if r < 0.70:
        # absolute forms
        absp = env["outer"] + ("/" + target if target else "")
        form = rng.randrange(9)
        if form == 0:
            return absp
        if form == 1:
            return "/" + absp
        if form == 2:
            return quote(absp, safe="")
        if form == 3:
            return quote(absp, safe="").replace("%2F", "%2f")
        if form == 4:
            return "/" + quote(quote(absp, safe=""), safe="")
        if form == 5:
            return (rng.choice(SCHEMES) % env) + absp
        if form == 6:
            return (rng.choice(SCHEMES) % env) + "/" + _updir(rng, rng.choice((1, 2)), target)
        if form == 7:
            return rng.choice(("", "/", "branch/")) + (rng.choice(SCHEMES) % env) + quote(absp)
        return absp.replace("/", rng.choice(("//", "/./", "%2F")))
    if r < 0.82:
        # home-directory forms; HOME is inside or outside served/ depending on the case
        t = rng.choice(["priv.txt", "inhome.txt", "", "../..", "../../secret.txt", "../../../secret.txt", "..%2F..%2Fsecret.txt",
                        "../../other", "..", "%2e%2e/%2e%2e/secret.txt", "../../../other/.bzr/branch-format"])
        tilde = rng.choice(["~", "~", "~", "%7E", "%7e", "~root", "~nobody", "~daemon", "~%s" % env.get("user", "root"), "~~", "~.", "~/~"])
        lead = rng.choice(["", "", "/", "//", "./", "branch/../", "x/../"])
        return lead + tilde + rng.choice(["/", "/", "", "//", "%2F"]) + t
    # token soup
    n = rng.randrange(1, 9)
    return "".join(rng.choice(SOUP) for _ in range(n))


def benign_path(rng):
    return rng.choice(INSIDE)


def client_path(rng, env, root, hostile_p=0.8):
    """Path argument as the client would send it for a server whose root client path is `root`."""
    p = hostile_path(rng, env) if rng.random() < hostile_p else benign_path(rng)
    r = rng.random()
    if root == "/":
        if r < 0.25 and not p.startswith("/"):
            p = "/" + p
    else:
        if r < 0.75:
            p = root + p.lstrip("/") if rng.random() < 0.8 else root.rstrip("/") + p
        elif r < 0.85:
            p = root.rstrip("/") + "-evil/" + p          # sibling-prefix of the root client path
        elif r < 0.92:
            p = root + "../" + p
    return p


def hostile_url(rng, env):
    """Value for a secondary argument that names a location (stacked-on URL, parent location, ...)."""
    r = rng.random()
    other = env["outer"] + "/other"
    if r < 0.25:
        return "file://" + other
    if r < 0.4:
        return other
    if r < 0.6:
        return "../" * rng.choice((1, 2, 3)) + "other"
    if r < 0.7:
        return rng.choice(("..%2F..%2Fother", "%2e%2e/%2e%2e/other", "/../other", "//../../other"))
    if r < 0.8:
        return (rng.choice(SCHEMES) % env) + other
    return hostile_path(rng, env)


def _b(s):
    """str -> latin-1 carrier of the utf-8 bytes."""
    return s.encode("utf-8", "surrogateescape").decode("latin-1")


BRANCH_NET = "Bazaar Branch Format 7 (needs bzr 1.6)\n"
REPO_NET = "Bazaar repository format 2a (needs bzr 1.16 or later)\n"
DIR_NET = "Bazaar-NG meta directory, format 1\n"
REVS = ["rev-branch-1", "rev-branch-0", "null:", "rev-other-1", "junk", ""]

# verb -> argument kinds after which fillers are derived.  P = primary client path, Q = second client path,
# U = location-valued argument, M = mode, T = T/F, B = True/False/'' , R = revision id, bt/rt = lock tokens,
# N = name, S = misc string, I = int
VERBS = {
    "get": "P", "has": "P", "stat": "P", "list_dir": "P", "iter_files_recursive": "P", "delete": "P", "rmdir": "P",
    "mkdir": "PM", "put": "PM+", "append": "PM+", "put_non_atomic": "PMTM+", "readv": "P=", "rename": "PQ", "move": "PQ",
    "get_bundle": "PR", "hello": "", "Transport.is_readonly": "",
    "BzrDir.open": "P", "BzrDir.open_2.1": "P", "BzrDir.open_branch": "P", "BzrDir.open_branchV2": "P",
    "BzrDir.open_branchV3": "P", "BzrDir.find_repository": "P", "BzrDir.find_repositoryV2": "P",
    "BzrDir.find_repositoryV3": "P", "BzrDir.get_branches": "P", "BzrDir.get_config_file": "P",
    "BzrDir.checkout_metadir": "P", "BzrDir.has_workingtree": "P", "BzrDir.destroy_branch": "Pn",
    "BzrDir.destroy_repository": "P", "BzrDir.cloning_metadir": "PB", "BzrDir.create_branch": "Pb",
    "BzrDir.create_repository": "PrB", "BzrDirFormat.initialize": "P", "BzrDirFormat.initialize_ex_1.16": "dPBBBUUrBB",
    "Branch.break_lock": "P", "Branch.get_all_reference_info": "P", "Branch.get_config_file": "P", "Branch.get_parent": "P",
    "Branch.get_physical_lock_status": "P", "Branch.get_stacked_on_url": "P", "Branch.get_tags_bytes": "P",
    "Branch.heads_to_fetch": "P", "Branch.last_revision_info": "P", "Branch.lock_write": "Pkk",
    "Branch.put_config_file": "Pkk+", "Branch.revision_history": "P", "Branch.revision_id_to_revno": "PR",
    "Branch.set_config_option": "PkkUcS", "Branch.set_config_option_dict": "PkkScS", "Branch.set_last_revision": "PkkR",
    "Branch.set_last_revision_ex": "PkkRII", "Branch.set_last_revision_info": "PkkIR", "Branch.set_parent_location": "PkkU",
    "Branch.set_tags_bytes": "Pkk+", "Branch.unlock": "Pkk",
    "PackRepository.autopack": "P", "Repository.abort_write_group": "PkS", "Repository.add_signature_text": "PkR+",
    "Repository.all_revision_ids": "P", "Repository.annotate_file_revision": "PRS", "Repository.break_lock": "P",
    "Repository.check_write_group": "PkS", "Repository.commit_write_group": "PkS", "Repository.gather_stats": "PRS",
    "Repository.get_parent_map": "PR+", "Repository.get_physical_lock_status": "P", "Repository.get_rev_id_for_revno": "PIS",
    "Repository.get_revision_graph": "PR", "Repository.get_revision_signature_text": "PR", "Repository.get_stream": "Pr+",
    "Repository.get_stream_1.19": "Pr+", "Repository.get_stream_for_missing_keys": "Pr+", "Repository.has_revision": "PR",
    "Repository.has_signature_for_revision_id": "PR", "Repository.insert_stream": "PS*", "Repository.insert_stream_1.19": "PSk*",
    "Repository.insert_stream_locked": "PSk*", "Repository.is_shared": "P", "Repository.iter_files_bytes": "P+",
    "Repository.iter_revisions": "P+", "Repository.lock_write": "Pk", "Repository.make_working_trees": "P",
    "Repository.pack": "PkB+", "Repository.reconcile": "Pk", "Repository.revision_archive": "PRSSUU",
    "Repository.set_make_working_trees": "PB", "Repository.start_write_group": "Pk", "Repository.tarball": "PS",
    "Repository.unlock": "Pk", "VersionedFileRepository.get_inventories": "PS+",
    "VersionedFileRepository.get_serializer_format": "P",
}
VFS = {"get", "has", "stat", "list_dir", "iter_files_recursive", "delete", "rmdir", "mkdir", "put", "append",
       "put_non_atomic", "readv", "rename", "move"}
MUTATING = {"delete", "rmdir", "rename", "move", "BzrDir.destroy_branch", "BzrDir.destroy_repository"}
CONF_NAMES = ["stacked_on_location", "parent_location", "bound_location", "push_location", "public_branch", "submit_branch"]


def family(verb):
    if verb in VFS:
        return "vfs"
    if verb.startswith("BzrDir"):
        return "bzrdir"
    if verb.startswith("Branch."):
        return "branch"
    if "Repository" in verb:
        return "repository"
    return "other"


def make_request(rng, env, verb, root, tokens):
    """One request for `verb`.  tokens: {"b": branch token, "r": repo token} learnt earlier in the session."""
    spec = VERBS.get(verb)
    if spec is None:
        spec = "P"
    args, paths, body, chunks = [], [], None, None
    nk = 0
    hostile_p = 0.8
    # when a secondary location argument exists, aim the primary path inside more often so the secondary is reached
    if any(c in spec for c in "UQ") and rng.random() < 0.5:
        hostile_p = 0.15
    for c in spec:
        if c == "P":
            paths.append(len(args))
            args.append(_b(client_path(rng, env, root, hostile_p)))
        elif c == "Q":
            paths.append(len(args))
            args.append(_b(client_path(rng, env, root, 0.85)))
        elif c == "U":
            paths.append(len(args))
            args.append(_b(hostile_url(rng, env) if rng.random() < 0.85 else rng.choice(("", ".", "branch"))))
        elif c == "M":
            args.append(rng.choice(MODES))
        elif c == "T":
            args.append(rng.choice(("T", "F")))
        elif c == "B":
            args.append(rng.choice(("True", "False", "")))
        elif c == "R":
            args.append(rng.choice(REVS))
        elif c == "k":
            which = "b" if verb.startswith("Branch.") and nk == 0 else "r"
            nk += 1
            args.append(tokens.get(which, "") if rng.random() < 0.8 else rng.choice(("", "junk-token")))
        elif c == "n":
            if rng.random() < 0.5:
                args.append(_b(rng.choice(("", "colo", hostile_path(rng, env)))))
        elif c == "b":
            args.append(BRANCH_NET)
        elif c == "r":
            args.append(REPO_NET if rng.random() < 0.9 else "")
        elif c == "d":
            args.append(DIR_NET)
        elif c == "c":
            args.append(rng.choice(CONF_NAMES))
        elif c == "S":
            args.append(_b(rng.choice(("", "gz", "tgz", "tar", "dir", "x", "topological", "unordered", hostile_path(rng, env)))))
        elif c == "I":
            args.append(rng.choice(("0", "1", "2", "-1", "x")))
        elif c == "+":
            body = rng.choice(("", "C31WRITE body\n", "x" * 70, "a,b\n", "stacked_on_location = %s\n" % hostile_url(rng, env)))
            body = _b(body)
        elif c == "=":
            body = rng.choice(("0,10\n", "0,100\n5,5\n", "", "0,999999\n", "x"))
        elif c == "*":
            chunks = [_b(rng.choice(("", "junk", "Bazaar pack format 1 (introduced in 0.18)\n")))]
    return {"verb": verb, "args": args, "body": body, "chunks": chunks, "root": root, "paths": paths}


def to_bytes(s):
    return s.encode("latin-1")


FEATURES = (
    ("enc-slash", ("%2f",)),
    ("double-enc", ("%25",)),
    ("enc-dot", ("%2e",)),
    ("userdir", ("~", "%7e")),
    ("url-form", ("://", "file:")),
    ("nul", ("%00", "\x00")),
    ("backslash", ("\\", "%5c")),
    ("unicode", ()),
    ("dotdot", ("..",)),
)


def feature(path_bytes_list, outer):
    """Lexical class of the offending client path(s); used only to build mechanism keys."""
    joined = " ".join(p.lower() for p in path_bytes_list)
    for name, needles in FEATURES:
        if name == "unicode":
            if any(ord(ch) > 127 for ch in joined):
                return name
            continue
        if any(n in joined for n in needles):
            return name
    if outer.lower() in joined:
        return "absolute"
    return "plain"
