"""Shared private helpers of C03 / C08 / C21: plain graph algebra over what the generator
recorded (independent of vcsgraph), directory fingerprints, an in-process smart server."""
import contextlib
import hashlib
import os

NULL = b"null:"


class MGraph:
    """revid -> parents as recorded by the generator; a parent that was never recorded is a ghost."""

    def __init__(self, hist=None, parents=None):
        self.pm = {}
        if hist is not None:
            for r, rec in hist.recorded.items():
                self.pm[r] = tuple(rec["parents"])
        if parents:
            self.pm.update(parents)

    def add(self, revid, parents):
        self.pm[revid] = tuple(parents)

    def is_ghost(self, r):
        return r != NULL and r not in self.pm

    def ancestry(self, tip):
        """Non-ghost ancestors of tip, tip included (empty for null: or a ghost)."""
        out = set()
        todo = [tip]
        while todo:
            r = todo.pop()
            if r in out or r == NULL or r not in self.pm:
                continue
            out.add(r)
            todo.extend(self.pm[r])
        return out

    def ghosts_of(self, tip):
        g = set()
        for r in self.ancestry(tip):
            g.update(p for p in self.pm[r] if p not in self.pm and p != NULL)
        return g

    def lefthand(self, tip):
        """Left-hand history, newest first; stops (ghost=True) if the mainline runs into a ghost."""
        out = []
        r = tip
        while r != NULL:
            if r not in self.pm:
                return out, True
            out.append(r)
            ps = self.pm[r]
            r = ps[0] if ps else NULL
        return out, False

    def is_ancestor(self, a, b):
        """a in ancestry(b) (null: is an ancestor of everything)."""
        return a == NULL or a in self.ancestry(b)

    def relation(self, tip, req):
        """How req relates to tip: 'equal' | 'req-in-tip' | 'tip-in-req' | 'diverged'."""
        if tip == req:
            return "equal"
        if self.is_ancestor(req, tip):
            return "req-in-tip"
        if self.is_ancestor(tip, req):
            return "tip-in-req"
        return "diverged"


def fmt(name):
    from breezy.controldir import format_registry

    return format_registry.make_controldir(name)


def fingerprint(path, skip_dirs=("lock",)):
    """{relpath: (size, sha1)} of every file below path (lock directories skipped) + directory names."""
    out = {}
    for dp, dns, fns in os.walk(path):
        dns[:] = sorted(d for d in dns if d not in skip_dirs)
        rel = os.path.relpath(dp, path)
        for d in dns:
            out[os.path.join(rel, d) + "/"] = None
        for f in sorted(fns):
            p = os.path.join(dp, f)
            try:
                with open(p, "rb") as fh:
                    data = fh.read()
            except OSError:
                continue
            out[os.path.join(rel, f)] = (len(data), hashlib.sha1(data).hexdigest())
    return out


def fp_diff(a, b):
    return sorted(k for k in set(a) | set(b) if a.get(k, "absent") != b.get(k, "absent"))[:12]


def sign_some(repo, revids, rng, p=0.4):
    """Attach loopback signatures to a random subset of revids; returns the signed ones."""
    from breezy import gpg

    chosen = [r for r in sorted(revids) if rng.random() < p]
    if not chosen:
        return []
    strategy = gpg.LoopbackGPGStrategy(None)
    with repo.lock_write():
        repo.start_write_group()
        try:
            for r in chosen:
                repo.sign_revision(r, strategy)
        except BaseException:
            repo.abort_write_group()
            raise
        repo.commit_write_group()
    return chosen


def snap_rev(repo, revid):
    """Everything the property calls 'revision metadata' for one revision, from the real repository."""
    rev = repo.get_revision(revid)
    return {"parents": tuple(rev.parent_ids), "message": rev.message, "committer": rev.committer,
            "timestamp": rev.timestamp, "timezone": rev.timezone,
            "properties": dict(rev.properties)}


def text_keys_of(repo, revids, skip_root):
    """(file_id, last-changed revision) of every entry of the inventories of revids."""
    keys = set()
    for inv in repo.iter_inventories(sorted(revids)):
        root = inv.root
        for _path, ie in inv.iter_entries():
            if skip_root and root is not None and ie.file_id == root.file_id:
                continue
            keys.add((ie.file_id, ie.revision))
    return keys


@contextlib.contextmanager
def smart_server(root):
    """In-process bzr:// server over root (read-write); yields the base URL (ends with /)."""
    from breezy.bzr.smart import server as _srv
    from dromedary import chroot, get_transport_from_path, get_transport_from_url

    # as `brz serve` does: the backing transport is chrooted to the served directory
    chroot_server = chroot.ChrootServer(get_transport_from_path(root))
    chroot_server.start_server()
    t = get_transport_from_url(chroot_server.get_url())
    srv = _srv.SmartTCPServer(t, client_timeout=30.0)
    srv.start_server("127.0.0.1", 0)
    srv.start_background_thread("-vf")
    try:
        yield srv.get_url()
    finally:
        try:
            srv.stop_background_thread()
        except Exception:
            pass
        try:
            chroot_server.stop_server()
        except Exception:
            pass


def disconnect(*objs):
    """Close smart client media hanging off branches / repositories / controldirs."""
    for o in objs:
        try:
            cd = getattr(o, "controldir", o)
            t = cd.root_transport
            med = t.get_smart_medium()
            med.disconnect()
        except Exception:
            pass


def sha_mismatches(tree, paths):
    """Paths (files) of a revision tree whose stored bytes do not hash to the text_sha1 their inventory entry records."""
    bad = []
    for path in paths:
        try:
            if tree.kind(path) != "file":
                continue
            data = tree.get_file_text(path)
            want = tree.get_file_sha1(path)
        except Exception:
            continue
        if want is not None and hashlib.sha1(data).hexdigest().encode() != want:
            bad.append(path)
    return bad


def corruption_kind(stored, original):
    """Name the way `stored` differs from `original`: the known bzrformats RabinGroupCompressor defect lets a copy
    instruction run into the next record's header when an insert that follows a copy starts with NUL, so the NUL reads
    back as that record's type marker, b'd' (delta) or b'f' (fulltext): same length, every differing byte is
    0x00 -> 0x64/0x66.  Anything else is unexplained."""
    if isinstance(stored, bytes) and isinstance(original, bytes) and len(stored) == len(original) and stored != original:
        if all(o == 0 and s in (0x64, 0x66) for s, o in zip(stored, original) if s != o):
            return "nul-byte-read-back-as-group-record-marker"
    return "sha1-mismatch"
