"""C16 - uncommit undoes commit.

Two kinds of cases over generated histories with mainline merges, pending merges and tags
(standalone branches, tree-less branches, bound branches incl. --local and an out-of-date master):

* round trip: observe (tip, revno, tree parent list, disk, status, tags, master) ; commit ; uncommit ;
  observe again - everything must be as before;
* depth d: uncommit d mainline revisions at once and compare with a plain-set model of the revision
  graph (left-hand walk, removed merge parents, tag reachability) that never calls vcsgraph's searchers.

* refused tip change (a third of the variants, before the real uncommit of either kind): the same uncommit is first attempted while
  the tip may not move backwards - append_revisions_only on the branch that is asked first (the master of a bound branch), on the
  local branch of a bound one, or a pre_change_branch_tip hook that rejects (TipChangeRejected) / fails (injected exception).  The
  uncommit must raise and leave branch, master, tags, tree parent list, disk and status exactly as they were (in particular the
  tree stays in step with its branch); the restriction is lifted and the case goes on.

uncommit is driven through breezy.uncommit.uncommit() and through the real `uncommit` command.
"""
import io
import os

from vf import gen, observe
from vf.checks import _c16_hist as H

ID = "C16"
LEVEL = "exploration"
TECHNIQUE = "before/after monitor for commit;uncommit and plain-set graph model for uncommit to depth d (tip, pending merges, tags, master), API and command"
LEVEL_TEXT = ("on generated multi-branch histories with mainline merges (1-3 merged parents), ghosts, pending merges, uncommitted changes and tags on mainline / merged / "
              "unrelated / absent revisions: commit;uncommit restores tip, revno, parent list, disk bytes, status and tags; uncommit to every sampled depth gives the "
              "left-hand ancestor, the removed merge parents as pending merges, exactly the tags that became unreachable dropped (none with keep_tags); bound branches "
              "move the master too, --local does not, an out-of-date master refuses and changes nothing; an uncommit whose tip change is refused (append-only branch / "
              "append-only master / rejecting or failing pre_change_branch_tip hook) raises and changes nothing, and the same uncommit succeeds once the restriction is lifted")
RULE = ("case = history (3-7 generated revisions + 1-3 forced merge rounds) x setup {standalone, tree-less, bound, bound --local, bound out-of-date, unbound --local} x "
        "{round trip, depth d in 1..revno} x {API, command} x keep_tags x {no veto, tip change refused first by append_revisions_only / hook}; non-trivial = round trip with uncommitted changes or pending merges, or depth case that removes "
        "a merge revision, crosses a tag or has d >= 2; distinct = (mode, setup, via, d class, merges removed, tag classes, pending count)")
CASES = {"quick": 64, "thorough": 1600}
BUDGET_S = {"quick": 120, "thorough": 600}   # quick: 5 cases per worker, about 0.3 s each on an idle machine; the budget only matters under heavy load
MIN_EVALS = {"quick": 100, "thorough": 600}
FLOORS = {"quick": {"roundtrip": 30, "depth_model": 50, "tags_model": 50, "pending_model": 35, "master_moved": 10, "refusal_unchanged": 8, "tip_refusal_unchanged": 25},
          "thorough": {"roundtrip": 150, "depth_model": 300, "tags_model": 300, "pending_model": 200, "master_moved": 60, "refusal_unchanged": 40, "tip_refusal_unchanged": 150}}
ASSUMPTIONS = ["pending merges are compared as a set modulo WorkingTree.set_parent_ids' documented filtering (a merged parent that is an ancestor of another parent is "
               "absorbed); after a round trip the list must be identical",
               "round-trip workloads contain no versioned-but-missing files (commit unversions those, which is commit's documented side effect, not uncommit's)",
               "a refused tip change is produced with the public means only (append_revisions_only, Branch.hooks['pre_change_branch_tip']); faults inside "
               "set_last_revision_info's own writes (transport errors, crashes) are not injected here",
               "the oracle's graph algebra trusts Repository.get_parent_map / Revision.parent_ids"]

SETUPS = ["standalone", "standalone", "treeless", "bound", "bound", "bound-local", "bound-ood", "unbound-local"]


def worker_init(tier):
    # a pyo3 panic (PanicException) symbolises a debug-build backtrace when RUST_BACKTRACE is set: seconds per panic
    os.environ["RUST_BACKTRACE"] = "0"


def _status(wt):
    out = set()
    with wt.lock_read():
        basis = wt.basis_tree()
        with basis.lock_read():
            for c in wt.iter_changes(basis, want_unversioned=True):
                out.add((c.file_id, c.path, bool(c.changed_content), c.versioned, c.parent_id, c.name, c.kind, c.executable))
    return out


def _observe_pre(ctx, path, master_path=None, tree=True):
    """Pre-state observation is workload construction: a tree that cannot even be inspected is not a C16 input."""
    try:
        return _observe(path, master_path, tree)
    except Exception as e:
        ctx.discard("workload-observe:%s" % type(e).__name__)


def _observe(path, master_path=None, tree=True):
    from breezy.branch import Branch
    from breezy.workingtree import WorkingTree

    o = {}
    b = Branch.open(path)
    with b.lock_read():
        o["info"] = b.last_revision_info()
        o["tags"] = dict(b.tags.get_tag_dict())
        o["revs"] = frozenset(b.repository.all_revision_ids())
    if tree:
        wt = WorkingTree.open(path)
        o["parents"] = list(wt.get_parent_ids())
        o["disk"] = observe.snap_disk(path)
        o["status"] = _status(wt)
        o["conflicts"] = len(wt.conflicts())
    if master_path:
        m = Branch.open(master_path)
        with m.lock_read():
            o["m_info"] = m.last_revision_info()
            o["m_tags"] = dict(m.tags.get_tag_dict())
    return o


def _same(ctx, before, after, keys, key, what, detail):
    bad = [k for k in keys if k in before and before[k] != after.get(k)]
    if bad:
        d = dict(detail)
        for k in bad:
            if k in ("disk", "status", "revs"):
                bv, av = before[k], after[k]
                if isinstance(bv, dict):
                    d[k] = {"changed": sorted(p for p in set(bv) | set(av) if bv.get(p) != av.get(p))[:6]}
                else:
                    d[k] = {"only_before": sorted(map(repr, bv - av))[:4], "only_after": sorted(map(repr, av - bv))[:4]}
            else:
                d[k] = {"before": repr(before[k])[:400], "after": repr(after.get(k))[:400]}
        ctx.fail("%s:%s" % (key, "+".join(bad)), "%s: %s differ" % (what, ", ".join(bad)), d)
    return not bad


def _run_uncommit(via, path, tree, new_revno, old_revno, local, keep_tags):
    """The operation under test.  API: revno = first revno to remove; command: -r <revno to leave the branch at>."""
    from breezy.branch import Branch
    from breezy.workingtree import WorkingTree

    if via == "api":
        from breezy.uncommit import uncommit

        if tree:
            wt = WorkingTree.open(path)
            b = wt.branch
        else:
            wt, b = None, Branch.open(path)
        return uncommit(b, tree=wt, local=local, keep_tags=keep_tags, revno=new_revno + 1)
    from breezy.builtins import cmd_uncommit

    argv = ["--force", "-r", str(new_revno)]
    if new_revno + 1 == old_revno and via == "cmd-default":
        argv = ["--force"]
    if local:
        argv.append("--local")
    if keep_tags:
        argv.append("--keep-tags")
    argv.append(path)
    c = cmd_uncommit()
    c.outf = io.StringIO()
    c._setup_outf = lambda: None
    return c.run_argv_aliases(argv)


def _setup(ctx, rng, h, target, setup):
    """Returns (path, master_path, bound, local_flag, tree)."""
    from breezy.branch import Branch
    from breezy.workingtree import WorkingTree

    path = h.trees[target]
    master = None
    if setup.startswith("bound"):
        master = os.path.join(h.root, "master")
        Branch.open(path).controldir.sprout(master)
        Branch.open(path).bind(Branch.open(master))
    return path, master


def _prestate(ctx, rng, h, target, allow_real_merge=True, want_change=False):
    """Uncommitted changes and pending merges in the target tree (workload construction)."""
    from breezy import errors

    wt = h.wt(target)
    npend = 0
    pm = H.parent_map_of(wt.branch.repository)
    if rng.random() < 0.7:
        pool = [b for b in sorted(h.trees) if b != target]
        rng.shuffle(pool)
        for o in pool[:rng.choice([1, 2, 2])]:
            owt = h.wt(o)
            if rng.random() < 0.6:
                gen.random_delta(rng, owt, gen.Names(ctx.tier), rng.randint(1, 2), H.NO_MISSING, h.log)
                H.safe_commit(h, o, owt, rng)
            otip = owt.branch.last_revision()
            if otip == H.NULL or otip in H.ancestry(pm, wt.get_parent_ids()):
                continue
            if npend == 0 and allow_real_merge and rng.random() < 0.4:
                try:
                    with wt.lock_write():
                        wt.merge_from_branch(owt.branch)
                    gen.resolve_all(wt)
                    npend += 1
                    pm = H.parent_map_of(wt.branch.repository)
                    continue
                except errors.BzrError:
                    wt = h.wt(target)
                    wt.revert()
            wt.branch.repository.fetch(owt.branch.repository, otip)
            wt.add_pending_merge(otip)
            pm = H.parent_map_of(wt.branch.repository)
            npend += 1
    nch = 0
    if want_change or rng.random() < 0.7:
        gen.random_delta(rng, wt, gen.Names(ctx.tier), rng.randint(1, 4), H.NO_MISSING, h.log)
        nch = 1
    return npend, nch


def _outcome(fn):
    """Run the operation under test; classify documented refusals, let anything else escape."""
    from breezy import errors

    try:
        fn()
        return "ok"
    except errors.BoundBranchOutOfDate:
        return "BoundBranchOutOfDate"
    except errors.LocalRequiresBoundBranch:
        return "LocalRequiresBoundBranch"
    except errors.LockContention:
        return SELF_DEADLOCK
    except errors.GhostRevisionUnusableHere:
        return GHOST_LEFTMOST
    except errors.AppendRevisionsOnlyViolation:
        return "AppendRevisionsOnlyViolation"
    except errors.TipChangeRejected:
        return "TipChangeRejected"
    except InjectedHookFault:
        return "InjectedHookFault"
    except BaseException as e:  # pyo3 PanicException is a BaseException
        if type(e).__name__ == "PanicException" and "LockContention" in str(e):
            return SELF_DEADLOCK
        raise


SELF_DEADLOCK = "self-deadlock"
GHOST_LEFTMOST = "ghost-leftmost"


def _self_deadlock(ctx, out, setup, detail):
    """uncommit contended with a lock this very process holds (real use: waits for the lock timeout, then dies)."""
    if out != SELF_DEADLOCK:
        return False
    ctx.fail("bound:tag-removal-self-deadlock-on-master-lock",
             "uncommit (%s) raised LockContention on the master branch it had locked itself while removing a tag; tips were moved, the tag stays" % setup, detail)
    return True


class InjectedHookFault(Exception):
    """Raised by the failing pre_change_branch_tip hook (stands for any plugin hook / tip write that dies)."""


# veto kind -> outcome the uncommit must end with
VETO_OUTCOME = {"append-only": "AppendRevisionsOnlyViolation", "append-only-local": "AppendRevisionsOnlyViolation",
                "hook-reject": "TipChangeRejected", "hook-error": "InjectedHookFault"}
HOOK_NAME = "c16 tip veto"


def _pick_veto(rng, setup, local, bound):
    """Which restriction refuses the tip change.  'append-only' sits on the branch whose tip uncommit moves first."""
    kinds = ["append-only", "append-only", "hook-reject", "hook-error"]
    if bound and not local:
        kinds.append("append-only-local")   # the master accepts, the bound branch itself refuses
    return rng.choice(kinds)


def _install_veto(kind, path, master, local):
    """Returns lift().  Only public means: the append_revisions_only setting and the pre_change_branch_tip hook point."""
    from breezy import errors
    from breezy.branch import Branch

    if kind.startswith("append-only"):
        where = master if (master and not local and kind == "append-only") else path
        Branch.open(where).set_append_revisions_only(True)
        return lambda: Branch.open(where).set_append_revisions_only(False)

    def veto(params):
        if kind == "hook-reject":
            raise errors.TipChangeRejected("c16: tip is frozen")
        raise InjectedHookFault("c16: hook died")

    Branch.hooks.install_named_hook("pre_change_branch_tip", veto, HOOK_NAME)
    return lambda: Branch.hooks.uninstall_named_hook("pre_change_branch_tip", HOOK_NAME)


def _refused_tip_change(ctx, mode, veto, setup, via, path, master, tree, new_revno, old_revno, local, keep_tags, before, detail):
    """Attempt the uncommit while the tip may not move; it must raise and change nothing.  True = state intact, the case may go on."""
    from vf.runner import Discard

    try:
        lift = _install_veto(veto, path, master, local)
    except Exception as e:  # e.g. a branch format without append_revisions_only: not a C16 input
        ctx.hist("veto-not-installable:%s:%s" % (veto, type(e).__name__))
        return True
    try:
        out = _outcome(lambda: _run_uncommit(via, path, tree, new_revno, old_revno, local, keep_tags))
    finally:
        lift()
    ctx.hist("tip-refused:%s:%s:%s" % (setup, veto, out))
    detail = dict(detail, veto=veto, outcome=out, d=old_revno - new_revno)
    after = _observe(path, master, tree)
    if out != VETO_OUTCOME[veto]:
        ctx.fail("%s:tip-refused:outcome:%s-expected-%s" % (mode, out, VETO_OUTCOME[veto]),
                 "uncommit (%s, local=%s) under %s gave %s" % (setup, local, veto, out), detail)
        return False
    ctx.count("tip_refusal_unchanged")
    ok = True
    if tree:
        # the essential coupling: a tree whose basis was its branch's tip still has that basis
        ctx.count("tree_in_step")
        if before["parents"][:1] == [before["info"][1]] and after["info"] == before["info"] and after["parents"][:1] != before["parents"][:1]:
            ctx.fail("tip-refused:tree-rewound-branch-not",
                     "uncommit was refused (%s) and the branch is still at %r, but the tree's basis went from %r to %r"
                     % (out, after["info"], before["parents"][:1], after["parents"][:1]), detail)
            ok = False
    keys = ["info", "parents", "tags", "m_info", "m_tags", "disk", "status"]
    if veto == "append-only-local" and after.get("m_info") != before.get("m_info"):
        # the master was moved first and stays moved although the uncommit as a whole was refused
        ctx.fail("tip-refused:bound:local-branch-refuses:master-rewound",
                 "uncommit in a bound branch was refused by the bound branch itself (%s) after the master had been moved: master %r -> %r, local still %r"
                 % (out, before["m_info"], after["m_info"], after["info"]), detail)
        keys.remove("m_info")
        ok = False
    if ok:
        ok = _same(ctx, before, after, keys, "%s:tip-refused-but-changed" % mode, "state after an uncommit whose tip change was refused", detail)
    else:
        _same(ctx, before, after, [k for k in keys if k not in ("parents", "status")], "%s:tip-refused-but-changed" % mode,
              "state after an uncommit whose tip change was refused", detail)
    ctx.note(("tip-refused", mode, setup, via, veto, min(old_revno - new_revno, 3), tree, len(before.get("parents", [])) > 1), nontrivial=True,
             sample={"mode": mode + "+tip-refused", "setup": setup, "via": via, "veto": veto, "outcome": out, "d": old_revno - new_revno})
    return ok


VARIANTS = {"quick": 3, "thorough": 4}
VETO_P = 0.4


def case(ctx):
    """One generated history + setup; VARIANTS independent executions, each on its own copy of the whole directory."""
    import shutil

    from breezy import errors
    from breezy.branch import Branch
    from breezy.workingtree import WorkingTree
    from vf.runner import Discard

    rng = ctx.rng
    setup = SETUPS[ctx.index % len(SETUPS)]
    fmt = "2a" if (ctx.tier == "quick" or rng.random() < 0.8) else rng.choice(["pack-0.92", "1.14-rich-root"])
    try:
        h = gen.build_history(ctx, rng, fmt, nrevs=rng.randint(3, 7), nbranches=3, names=gen.Names(ctx.tier), weights=H.NO_MISSING,
                              ghosts=rng.random() < 0.3, merges=True, tags=False)
        target = H.extend(ctx, rng, h, rounds=rng.randint(1, 3), names=gen.Names(ctx.tier))
        path, master = _setup(ctx, rng, h, target, setup)
        tags = H.add_tags(rng, h, target) if rng.random() < 0.85 else {}
        local = setup in ("bound-local", "unbound-local")
        tree = setup != "treeless"
        npend, nch = _prestate(ctx, rng, h, target, want_change=True)
        if setup == "bound-ood":
            mwt = WorkingTree.open(master)
            if rng.random() < 0.5 and mwt.branch.revno() >= 2:
                # diverged at the same revno: the master lost its tip and got another revision instead
                lh = H.lefthand(H.parent_map_of(mwt.branch.repository), mwt.branch.last_revision())
                mwt.branch.set_last_revision_info(len(lh) - 1, lh[1])
                mwt.set_parent_ids([lh[1]])
                ood = "diverged-same-revno"
            else:
                ood = "ahead"
            with open(os.path.join(master, "master-only"), "wb") as f:
                f.write(b"moved on\n")
            mwt.add(["master-only"])
            mwt.commit("master moved", rev_id=b"master-moved-1")
            ctx.hist("bound-ood:" + ood)
    except AttributeError as e:
        if "PointlessCommit" not in str(e):  # vf.gen.build_history names breezy.errors.PointlessCommit (lives in breezy.commit)
            raise
        ctx.discard("workload:gen-pointless-commit")
    except Exception as e:
        # building the history (commits, merges, add_pending_merge) is not the operation under test; e.g. the pre-built dirstate raises
        # DirstateCorrupt from iter_changes on some trees with recorded-only merge parents (observed, reported, not a C16 verdict)
        ctx.discard("workload:%s" % type(e).__name__)
    for v in range(VARIANTS[ctx.tier]):
        mode = "roundtrip" if (ctx.index // len(SETUPS) + v) % 3 == 0 else "depth"
        via = rng.choice(["api", "api", "cmd", "cmd-default"])
        keep_tags = rng.random() < 0.3
        veto = _pick_veto(rng, setup, local, master is not None) if rng.random() < VETO_P else None
        root2 = os.path.join(ctx.tmp("var"), "w")
        shutil.copytree(h.root, root2, symlinks=True)
        path2 = root2 + path[len(h.root):]
        master2 = (root2 + master[len(h.root):]) if master else None
        if master2:
            Branch.open(path2).bind(Branch.open(master2))
        ctx.info = {"mode": mode, "setup": setup, "via": via, "keep_tags": keep_tags, "fmt": fmt, "target": target, "variant": v, "veto": veto, "log": h.log[-40:]}
        try:
            if mode == "roundtrip":
                _roundtrip(ctx, rng, h, target, path2, master2, setup, via, keep_tags, local, npend, nch, veto)
            else:
                if not tree:
                    # (destroy_workingtree() reverts first and trips over merge-modified records of paths that changed kind: IsADirectoryError)
                    Branch.open(path2).controldir.destroy_workingtree_metadata()
                _depth(ctx, rng, h, target, path2, master2, setup, via, keep_tags, local, tree, tags, npend if tree else 0, nch, veto)
        except Discard as e:
            ctx.hist("discarded-variant:%s" % e)
        boot_rm(root2)


def boot_rm(p):
    from vf import boot

    boot.rm(os.path.dirname(p))


def _roundtrip(ctx, rng, h, target, path, master, setup, via, keep_tags, local, npend, nch, veto=None):
    from breezy import errors
    from breezy.branch import Branch
    from breezy.workingtree import WorkingTree

    if setup in ("treeless", "bound-ood", "unbound-local"):
        setup = "standalone" if master is None else "bound"
        local = False
        if veto == "append-only-local" and master is None:
            veto = "append-only"
        if master is not None:
            # the extra master revision of bound-ood makes commit itself refuse: bring the checkout up to date first
            try:
                WorkingTree.open(path).update()
                gen.resolve_all(WorkingTree.open(path))
            except errors.BzrError as e:
                ctx.discard("workload-update:%s" % type(e).__name__)
    before = _observe_pre(ctx, path, master)
    if before["conflicts"]:
        ctx.discard("workload:conflicts")
    wt = WorkingTree.open(path)
    selected = None
    if npend == 0 and len(before["parents"]) <= 1 and rng.random() < 0.25:
        changed = sorted(c[1][1] for c in before["status"] if c[3] == (True, True) and c[1][1] and c[6][1] == "file" and c[2])
        if changed:
            selected = [rng.choice(changed)]
    newrev = b"c16-new-revision"
    try:
        wt.commit("c16 commit\nsecond line", rev_id=newrev, specific_files=selected, local=local, allow_pointless=True)
    except errors.BzrError as e:
        ctx.discard("workload-commit:%s" % type(e).__name__)
    mid = _observe(path, master)
    ctx.check(mid["info"] == (before["info"][0] + 1, newrev), "roundtrip:commit-did-not-advance", "after commit %r" % (mid["info"],), None)
    tag_new = rng.random() < 0.5
    if tag_new:
        Branch.open(path).tags.set_tag("on-new", newrev)
    old_revno = mid["info"][0]
    if veto:
        # first the same uncommit while the tip may not move: it must leave the committed state alone
        committed = _observe(path, master)
        if not _refused_tip_change(ctx, "roundtrip", veto, setup, via, path, master, True, old_revno - 1, old_revno, local, keep_tags, committed,
                                   {"tag_new": tag_new, "pending_before_commit": [p.decode() for p in before["parents"][1:]]}):
            return
    out = _outcome(lambda: _run_uncommit(via, path, True, old_revno - 1, old_revno, local, keep_tags))
    ctx.hist("roundtrip:%s:%s" % (setup, out))
    if _self_deadlock(ctx, out, setup, {"tag_new": tag_new}):
        return
    if out != "ok":
        ctx.fail("roundtrip:refused:%s" % out, "uncommit of the commit just made was refused (%s, local=%s)" % (setup, local), None)
        return
    after = _observe(path, master)
    ctx.count("roundtrip")
    detail = {"selected": selected, "pending": [p.decode() for p in before["parents"][1:]], "tag_new": tag_new}
    _same(ctx, before, after, ["info"], "roundtrip:tip", "branch tip/revno after commit;uncommit", detail)
    _same(ctx, before, after, ["parents"], "roundtrip:parents", "tree parent list after commit;uncommit", detail)
    _same(ctx, before, after, ["disk"], "roundtrip:disk", "working files after commit;uncommit", detail)
    _same(ctx, before, after, ["status"], "roundtrip:status", "reported changes after commit;uncommit", detail)
    if master:
        ctx.count("master_moved" if not local else "master_local")
        _same(ctx, before, after, ["m_info"], "roundtrip:master-tip" + (":local" if local else ""), "master tip after commit;uncommit", detail)
        if not local:
            ctx.check(mid["m_info"] == mid["info"], "roundtrip:bound-commit-master-not-moved", "master %r local %r after bound commit" % (mid["m_info"], mid["info"]), detail)
        else:
            ctx.check(mid["m_info"] == before["m_info"], "roundtrip:local-commit-moved-master", "master %r after commit --local" % (mid["m_info"],), detail)
    # tags: the only tag that may differ is the one put on the new revision
    exp_tags = dict(before["tags"])
    if tag_new and keep_tags:
        exp_tags["on-new"] = newrev
    ctx.count("tags_roundtrip")
    if after["tags"] != exp_tags:
        ctx.fail("roundtrip:tags" + (":keep" if keep_tags else ""), "tags after commit;uncommit: %r expected %r" % (sorted(after["tags"].items()), sorted(exp_tags.items())), detail)
    ctx.check(after["revs"] >= mid["revs"], "roundtrip:revision-removed-from-repository", "uncommit removed revisions from the repository", detail)
    ctx.note(("rt", setup, via, npend, bool(nch), bool(selected), tag_new, keep_tags, len(before["status"]) > 0),
             nontrivial=bool(before["status"]) or len(before["parents"]) > 1,
             sample={"mode": "roundtrip", "setup": setup, "via": via, "tip_before": repr(before["info"]), "pending_before": len(before["parents"]) - 1,
                     "changes_before": len(before["status"]), "selected": selected, "keep_tags": keep_tags})


def _depth(ctx, rng, h, target, path, master, setup, via, keep_tags, local, tree, tags, npend, nch, veto=None):
    from breezy.branch import Branch

    before = _observe_pre(ctx, path, master, tree)
    if tree and before["conflicts"]:
        ctx.discard("workload:conflicts")
    pm = H.hist_parent_map(h)
    if master:
        pm.update(H.parent_map_of(Branch.open(master).repository))
    old_revno, old_tip = before["info"]
    lh = H.lefthand(pm, old_tip)
    if len(lh) != old_revno:
        ctx.discard("mainline-through-ghost")
    r = rng.random()
    d = 1 if r < 0.3 else (old_revno if r < 0.42 else rng.randint(1, old_revno))
    if via == "cmd-default":
        d = 1
    new_revno = old_revno - d
    new_tip = lh[d] if d < len(lh) else H.NULL
    removed = lh[:d]
    old_pending = before["parents"][1:] if tree else []
    rem_merged = [p for r_ in removed for p in pm[r_][1:]]
    # expected refusals (documented)
    bound = master is not None
    if local and not bound:
        expect = "LocalRequiresBoundBranch"
    elif bound and not local and before["m_info"][1] != old_tip:
        expect = "BoundBranchOutOfDate"
    else:
        expect = "ok"
    if veto and expect == "ok":
        # first the same uncommit while the tip may not move (documented refusals are decided before the tip is touched: not combined)
        if not _refused_tip_change(ctx, "depth", veto, setup, via, path, master, tree, new_revno, old_revno, local, keep_tags, before,
                                   {"old": repr(before["info"]), "old_pending": [x.decode() for x in old_pending],
                                    "removed_merged": [x.decode() for x in rem_merged]}):
            return
    out = _outcome(lambda: _run_uncommit(via, path, tree, new_revno, old_revno, local, keep_tags))
    ctx.hist("depth:%s:%s" % (setup, out))
    after = _observe(path, master, tree)
    detail = {"d": d, "old": repr(before["info"]), "expected_tip": new_tip.decode(), "removed": [x.decode() for x in removed],
              "removed_merged": [x.decode() for x in rem_merged], "old_pending": [x.decode() for x in old_pending],
              "tags": {k: v.decode() for k, v in before["tags"].items()}}
    if _self_deadlock(ctx, out, setup, detail):
        return
    if out == GHOST_LEFTMOST and new_tip == H.NULL and tree and any(p not in pm for p in list(old_pending) + rem_merged):
        # uncommit down to the origin: the first re-recorded merge becomes the tree's leftmost parent, and that one is absent from the repository
        ctx.fail("depth:to-null:ghost-merge-parent:tree-not-updated",
                 "uncommit to revno 0 moved the branch to %r, then set_parent_ids refused the ghost merge parent as leftmost tree parent: tree still at %r, "
                 "merged revisions not pending, tags untouched" % (after["info"], after["parents"][:1]), detail)
        return
    if out != expect:
        ctx.fail("depth:outcome:%s-expected-%s" % (out, expect), "uncommit (%s, local=%s) gave %s, expected %s" % (setup, local, out, expect), detail)
        return
    if out != "ok":
        ctx.count("refusal_unchanged")
        _same(ctx, before, after, ["info", "parents", "tags", "m_info", "m_tags", "disk", "status"], "depth:refused-but-changed:" + out,
              "state after refused uncommit", detail)
        ctx.note(("refusal", setup, via, out), nontrivial=True)
        return
    # --- tip
    ctx.count("depth_model")
    ctx.check(after["info"] == (new_revno, new_tip), "depth:tip", "tip after uncommit of %d: %r, left-hand ancestor is %r" % (d, after["info"], (new_revno, new_tip)), detail)
    ctx.check(after["revs"] >= before["revs"], "depth:revision-removed-from-repository", "uncommit removed revisions from the repository", detail)
    # --- master
    if bound:
        if local:
            ctx.count("master_local")
            _same(ctx, before, after, ["m_info"], "depth:local-moved-master", "master tip after uncommit --local", detail)
        else:
            ctx.count("master_moved")
            ctx.check(after["m_info"] == (new_revno, new_tip), "depth:master-not-moved", "master %r after bound uncommit, local %r" % (after["m_info"], after["info"]), detail)
    # --- pending merges
    new_parents = [new_tip] if new_tip != H.NULL else []
    if tree:
        ctx.count("pending_model")
        _same(ctx, before, after, ["disk"], "depth:disk", "working files after uncommit", detail)
        got = list(after["parents"])
        if new_tip != H.NULL:
            if not got or got[0] != new_tip:
                ctx.fail("depth:tree-basis", "tree parents %r do not start with the new tip %r" % (got, new_tip), detail)
            got_pending = got[1:]
        else:
            got_pending = got
        expected = set(old_pending) | set(rem_merged)
        extra = set(got_pending) - expected
        detail["got_pending"] = [x.decode() for x in got_pending]
        if extra:
            ctx.fail("depth:pending:invented", "pending merges %r were neither pending before nor merged by a removed revision" % sorted(extra), detail)
        if len(set(got_pending)) != len(got_pending):
            ctx.fail("depth:pending:duplicate", "duplicate pending merges %r" % got_pending, detail)
        cover = H.ancestry(pm, list(got_pending) + [new_tip])
        lost = [e for e in expected if e not in cover]
        if lost:
            ctx.fail("depth:pending:lost", "removed merge parents / old pending merges %r are not pending (nor reachable from a pending merge)" % sorted(lost), detail)
        # order is observed, not judged (the statement is silent on it): do pending merges that were already there keep their relative order?
        surv = [p for p in got_pending if p in old_pending]
        if len(surv) >= 2:
            ctx.hist("depth:old-pending-order:" + ("kept" if surv == [p for p in old_pending if p in surv] else "changed"))
        new_parents = new_parents + got_pending
    # --- tags
    ctx.count("tags_model")
    reach_new = H.ancestry(pm, new_parents)
    unreachable = H.ancestry(pm, [old_tip]) - reach_new
    exp_tags = {}
    dropped_cls = set()
    for name, rev in before["tags"].items():
        if not keep_tags and rev in unreachable:
            dropped_cls.add(tags.get(name, (None, "?"))[1])
            continue
        exp_tags[name] = rev
    if after["tags"] != exp_tags:
        wrongly_dropped = sorted(set(exp_tags) - set(after["tags"]))
        wrongly_kept = sorted(set(after["tags"]) - set(exp_tags))
        detail.update(wrongly_dropped=wrongly_dropped, wrongly_kept=wrongly_kept)
        if wrongly_dropped:
            ctx.fail("depth:tags:dropped-still-reachable" + (":keep_tags" if keep_tags else ""),
                     "tags %r dropped although their revision is still reachable / was never in the branch" % wrongly_dropped, detail)
        if wrongly_kept:
            ctx.fail("depth:tags:kept-on-removed", "tags %r kept although they point only at removed revisions" % wrongly_kept, detail)
        if not wrongly_dropped and not wrongly_kept:
            ctx.fail("depth:tags:retargeted", "tag targets changed", detail)
    if bound and not local:
        # the master went through the same uncommit: same rule for its tags
        exp_m = {n: r_ for n, r_ in before["m_tags"].items() if keep_tags or r_ not in unreachable}
        ctx.count("tags_master")
        if after["m_tags"] != exp_m:
            ctx.fail("depth:tags:master", "master tags %r expected %r" % (sorted(after["m_tags"]), sorted(exp_m)), detail)
    if bound and local:
        ctx.count("tags_master_local")
        if after["m_tags"] != before["m_tags"]:
            ctx.fail("depth:local:master-tags-changed", "uncommit --local removed tags %r from the master, whose revisions are all still there"
                     % sorted(set(before["m_tags"]) - set(after["m_tags"])), detail)
    nmerge = sum(1 for r_ in removed if len(pm[r_]) > 1)
    crossed = sorted({tags.get(n, (None, "?"))[1] for n, r_ in before["tags"].items() if r_ in unreachable})
    ctx.note(("depth", setup, via, min(d, 4), d == old_revno, nmerge, tuple(crossed), len(old_pending), keep_tags, tree),
             nontrivial=(nmerge > 0 or bool(crossed) or d >= 2),
             sample={"mode": "depth", "setup": setup, "via": via, "d": d, "old_revno": old_revno, "merge_revisions_removed": nmerge,
                     "removed_merge_parents": len(rem_merged), "old_pending": len(old_pending), "tag_classes_crossed": crossed, "keep_tags": keep_tags}
             if nmerge and crossed else None)
    ctx.hist("depth:d=%s" % ("all" if d == old_revno else min(d, 4)))
    ctx.hist("depth:merge-revisions-removed=%d" % min(nmerge, 3))
    for c in crossed:
        ctx.hist("depth:tag-crossed:" + c)
