"""C15 observation + expected-state model.

State of a tree, by file id:  fid -> Ent(parent, name, kind, content, exec)
  kind is the kind found ON DISK for working trees (None = versioned but missing).
The expected post-shelve state is built from the property statement alone:
  for every shelvable item: selected -> the basis side of that item, otherwise the working side.
Nothing here looks at how breezy implements shelving.
"""
import os


class Ent:
    __slots__ = ("parent", "name", "kind", "content", "exec")

    def __init__(self, parent, name, kind, content, exec_):
        self.parent, self.name, self.kind, self.content = parent, name, kind, content
        self.exec = bool(exec_) if kind == "file" else False

    def tup(self):
        return (self.parent, self.name, self.kind, self.content, self.exec)

    def __repr__(self):
        c = self.content
        if isinstance(c, bytes) and len(c) > 40:
            c = c[:40] + b"..."
        return "Ent(%r/%r %s %r x=%s)" % (self.parent, self.name, self.kind, c, self.exec)


def _dec(x):
    return x.decode("utf-8", "replace") if isinstance(x, bytes) else x


def observe_tree(tree, working):
    """(root_id, {fid: Ent}) through the public Tree API."""
    out = {}
    with tree.lock_read():
        root = _dec(tree.path2id(""))
        for path, ie in tree.iter_entries_by_dir():
            if path == "":
                continue
            try:
                kind = tree.kind(path)
            except Exception as e:
                if type(e).__name__ not in ("NoSuchFile", "FileNotFoundError", "NotADirectoryError"):
                    raise
                kind = None
            content, ex = None, False
            if kind == "file":
                content = tree.get_file_text(path)
                ex = bool(tree.is_executable(path))
            elif kind == "symlink":
                content = tree.get_symlink_target(path)
            out[_dec(ie.file_id)] = Ent(_dec(ie.parent_id), ie.name, kind, content, ex)
    return root, out


def observe_changes(wt, target=None):
    """Canonical iter_changes(target; default: the basis tree): {fid: (old, new, changed_content)}, old/new = (parent, name, kind, exec) | None."""
    out = {}
    with wt.lock_read():
        basis = target if target is not None else wt.basis_tree()
        with basis.lock_read():
            for c in wt.iter_changes(basis):
                def side(i):
                    if not c.versioned[i]:
                        return None
                    return (_dec(c.parent_id[i]), c.name[i], c.kind[i], bool(c.executable[i]) if c.kind[i] == "file" else False)
                out[_dec(c.file_id)] = (side(0), side(1), bool(c.changed_content))
    return out


def derive_changes(basis, state, root):
    """What iter_changes must report for `state` against `basis` (same canonical form, no changed_content)."""
    out = {}
    for fid in set(basis) | set(state):
        if fid == root:
            continue
        b, s = basis.get(fid), state.get(fid)
        old = (b.parent, b.name, b.kind, b.exec) if b else None
        new = (s.parent, s.name, s.kind, s.exec) if s else None
        if old != new or (b and s and b.content != s.content):
            out[fid] = (old, new)
    return out


def paths_of(state, root):
    """({fid: path}, problems).  problems = list of well-formedness violations of the state."""
    paths, problems = {}, []

    def path(fid, seen=()):
        if fid == root:
            return ""
        if fid in paths:
            return paths[fid]
        e = state.get(fid)
        if e is None:
            return None
        if fid in seen:
            problems.append(("cycle", fid))
            return None
        pp = path(e.parent, seen + (fid,))
        if pp is None:
            return None
        p = (pp + "/" + e.name) if pp else e.name
        paths[fid] = p
        return p

    for fid, e in state.items():
        if path(fid) is None:
            problems.append(("orphan", fid))
        elif e.parent != root:
            pe = state.get(e.parent)
            if pe is not None and pe.kind != "directory":
                problems.append(("parent-not-directory", fid))
    seen = {}
    for fid, p in paths.items():
        if p in seen:
            problems.append(("duplicate-path", fid))
        seen[p] = fid
    return paths, problems


class Sel:
    """What was selected, per file id (tokens name the ShelfCreator method the item is dispatched to)."""

    def __init__(self):
        self.tok = {}  # fid -> set of 'add' 'delete' 'rename' 'content' 'target' 'lines'
        self.lines = {}  # fid -> bytes (T_keep)

    def add(self, fid, token, text=None):
        self.tok.setdefault(fid, set()).add(token)
        if token == "lines":
            self.lines[fid] = text

    def of(self, fid):
        return self.tok.get(fid, ())

    def label(self, fid):
        return "+".join(sorted(self.of(fid))) or "unselected"


def expected_after_shelve(basis, work, sel, pre_disk, basis_paths, work_paths):
    """Expected state after shelving `sel`, plus bookkeeping.

    Returns (state, info) where info has:
      silent: fids the statement says nothing precise about (missing on disk before shelving)
      kept:   fid -> path of an unversioned on-disk object that a selected deletion re-versions in place
      reused: fids whose selected deletion's basis path is occupied by another *versioned* entry of the working tree
      either_exec: fids where both exec values are accepted
    """
    state = {}
    info = {"silent": set(), "kept": {}, "reused": set(), "either_exec": set()}
    versioned_paths = set(work_paths.values())
    for fid in set(basis) | set(work):
        b, w = basis.get(fid), work.get(fid)
        s = sel.of(fid)
        if b is None:  # addition
            if w.kind is None:
                info["silent"].add(fid)
            if "add" in s:
                continue
            state[fid] = w
        elif w is None or w.kind is None:  # deletion (removed, or versioned but missing on disk)
            if w is not None:
                info["silent"].add(fid)
            if "delete" in s:
                bp = basis_paths[fid]
                ent = Ent(*b.tup())
                if bp in pre_disk and (w is None or work_paths.get(fid) != bp):
                    if bp in versioned_paths:
                        info["reused"].add(fid)
                    else:  # unversioned object sits at the old path: it is re-versioned in place, content as found
                        k, c, x = pre_disk[bp]
                        ent = Ent(b.parent, b.name, k, c, x)
                        info["kept"][fid] = bp
                state[fid] = ent
            elif w is not None:
                state[fid] = w
        else:
            parent, name = (b.parent, b.name) if "rename" in s else (w.parent, w.name)
            kind, content, ex = w.kind, w.content, w.exec
            if "content" in s or "target" in s:
                kind, content = b.kind, b.content
                if b.kind == "file" and w.kind == "file":
                    ex = w.exec  # the exec change (if any) is a different, unselected change
                elif b.kind == "file":
                    ex = b.exec
            elif "lines" in s:
                content = sel.lines[fid]
            state[fid] = Ent(parent, name, kind, content, ex)
    return state, info


def expected_disk(state, paths, pre_disk, work, work_paths, info):
    """Expected files on disk: versioned entries of `state` + every unversioned object that was there before."""
    disk = {}
    versioned_before = {work_paths[f] for f, e in work.items() if e.kind is not None and f in work_paths}
    consumed = set(info["kept"].values())
    for p, v in pre_disk.items():
        if p in versioned_before or p in consumed:
            continue
        # content below a versioned path that is itself versioned is handled through `state`
        disk[p] = v
    unknown = dict(disk)
    for fid, e in state.items():
        if e.kind is None or fid not in paths:
            continue
        disk[paths[fid]] = (e.kind, e.content, e.exec)
    return disk, unknown


def regions(basis_lines, work_lines, matcher="patience"):
    """Opcodes between the two line lists (changed regions are the non-'equal' ones)."""
    if matcher == "patience":
        import patiencediff

        sm = patiencediff.PatienceSequenceMatcher(None, basis_lines, work_lines)
    else:
        import difflib

        sm = difflib.SequenceMatcher(None, basis_lines, work_lines, autojunk=False)
    return sm.get_opcodes()


def mix(basis_lines, work_lines, opcodes, choose_work):
    """T_keep: per changed region the basis lines or the working lines (choose_work[k] for the k-th region)."""
    out = []
    k = 0
    for tag, i1, i2, j1, j2 in opcodes:
        if tag == "equal":
            out.extend(basis_lines[i1:i2])
        else:
            out.extend(work_lines[j1:j2] if choose_work[k] else basis_lines[i1:i2])
            k += 1
    return out


def hunk_mix(basis_lines, hunks, keep_work):
    """Expected text when the k-th diff hunk is kept in the tree (keep_work[k]) or shelved (basis side).

    hunks: [(orig_pos, orig_range, old_side_lines, new_side_lines)] in file order, positions 1-based as in a unified diff.
    """
    out = []
    i = 0
    for k, (opos, orng, old, new) in enumerate(hunks):
        start = opos - 1 if orng > 0 else opos
        start = max(start, 0)
        out.extend(basis_lines[i:start])
        out.extend(new if keep_work[k] else old)
        i = start + orng
    out.extend(basis_lines[i:])
    return out


def diff_states(exp, act, root, skip=()):
    """[(fid, aspect, expected, actual)] for every difference between two by-id states."""
    out = []
    for fid in sorted(set(exp) | set(act)):
        if fid == root or fid in skip:
            continue
        e, a = exp.get(fid), act.get(fid)
        if e is None or a is None:
            out.append((fid, "presence", repr(e), repr(a)))
            continue
        if (e.parent, e.name) != (a.parent, a.name):
            out.append((fid, "place", (e.parent, e.name), (a.parent, a.name)))
        if e.kind != a.kind:
            out.append((fid, "kind", e.kind, a.kind))
        elif e.content != a.content:
            out.append((fid, "content", e.content, a.content))
        if e.kind == a.kind == "file" and e.exec != a.exec:
            out.append((fid, "exec", e.exec, a.exec))
    return out


def diff_disk(exp, act, skip_prefixes=()):
    out = []
    for p in sorted(set(exp) | set(act)):
        if any(p == s or p.startswith(s + "/") for s in skip_prefixes):
            continue
        if exp.get(p) != act.get(p):
            out.append((p, exp.get(p), act.get(p)))
    return out


def short(v, n=160):
    r = repr(v)
    return r if len(r) <= n else r[:n] + "..."
