"""C48 helpers: reference matcher written from `brz help patterns` / `brz help ignore`,
and the seeded pattern / file-name grammars.

The reference covers ONLY the part of the pattern language whose meaning the
documentation fixes (class "U" below):

  * trailing slashes on a pattern are ignored;
  * a pattern without '/' (and without RE:) is compared to the last path component;
  * a pattern with '/' is compared to the whole path from the root; a leading './'
    only marks "root" (it contains a slash) and is otherwise dropped; this holds whatever
    the first component looks like ('*.d/x', '*/x', '?ib/*.o': kind "globdir");
  * '?' one character except '/', '*' zero or more characters except '/',
    a '**' component ('**/x', 'a/**/b') zero or more directories,
    '[abc]' / '[a-c]' one character of the group, '[!abc]' one character not in the group
    (negated groups are only generated in basename patterns, where '/' cannot occur);
  * every other character stands for itself (case sensitive);
  * 'RE:<regex>' : the regex must match the whole path (re.fullmatch of Python's own re).

Everything else (bare '**', 'a**', trailing '/**', negated groups in path patterns,
'[^..]', '[[:digit:]]', backslashes, leading '/', '//' and '/./' inside) is class "A":
generated and used by the grouping / precedence oracles, never judged by the reference.
"""
import re


# ------------------------------------------------------------------ reference

def _tokens(p):
    """Tokenise one pattern component: ('lit', c) | ('any1',) | ('star',) | ('set', neg, chars)."""
    out = []
    i = 0
    n = len(p)
    while i < n:
        c = p[i]
        if c == "*":
            while i < n and p[i] == "*":
                i += 1
            out.append(("star",))
            continue
        if c == "?":
            out.append(("any1",))
        elif c == "[":
            j = p.index("]", i + 1)
            body = p[i + 1:j]
            neg = body.startswith("!")
            if neg:
                body = body[1:]
            chars = set()
            k = 0
            while k < len(body):
                if k + 2 < len(body) and body[k + 1] == "-":
                    for o in range(ord(body[k]), ord(body[k + 2]) + 1):
                        chars.add(chr(o))
                    k += 3
                else:
                    chars.add(body[k])
                    k += 1
            out.append(("set", neg, frozenset(chars)))
            i = j
        else:
            out.append(("lit", c))
        i += 1
    return out


def comp_match(p, s):
    """Glob-match pattern component p against one path component s (no '/')."""
    toks = _tokens(p)
    memo = {}

    def go(ti, si):
        key = (ti, si)
        if key in memo:
            return memo[key]
        if ti == len(toks):
            r = si == len(s)
        else:
            t = toks[ti]
            if t[0] == "star":
                r = any(go(ti + 1, k) for k in range(si, len(s) + 1))
            elif si >= len(s):
                r = False
            elif t[0] == "any1":
                r = go(ti + 1, si + 1)
            elif t[0] == "lit":
                r = s[si] == t[1] and go(ti + 1, si + 1)
            else:
                r = ((s[si] in t[2]) != t[1]) and go(ti + 1, si + 1)
        memo[key] = r
        return r

    return go(0, 0)


def _seq_match(pp, fp):
    if not pp:
        return not fp
    if pp[0] == "**":
        return any(_seq_match(pp[1:], fp[i:]) for i in range(len(fp) + 1))
    return bool(fp) and comp_match(pp[0], fp[0]) and _seq_match(pp[1:], fp[1:])


def ref_match(pat, path):
    """Does class-U pattern `pat` match `path` according to the documentation?"""
    if pat.startswith("RE:"):
        return re.fullmatch(pat[3:], path) is not None
    p = pat.rstrip("/")
    if "/" not in p:
        return comp_match(p, path.rsplit("/", 1)[-1])
    parts = p.split("/")
    if parts[0] == ".":
        parts = parts[1:]
    return _seq_match(parts, path.split("/"))


# ------------------------------------------------------------------ grammar

DIRS = ["d1", "d2", "lib", "Src", "a b", "x.d", "é", "My.app"]
DOTDIRS = ["x.d", "conf.d", "My.app", "p.egg-info", "a.b.c", "k{2}.d"]   # directories that carry an "extension"
STEMS = ["foo", "Foo", "bar", "a", "ab", "abc", "README", "readme", "x+y", "f(1)", "p$", "^q", "k{2}", "a|b", "#t#",
         "t~", ".hid", "ü1", "m-n", "u_v", "c,d", "e=f", "g@h", "i&j", "n%o", "x]"]
EXTS = ["c", "o", "py", "pyc", "pyo", "so", "txt", "C", "tar.gz", "a", "swp"]
SETCHARS = "abcfoxyABC12"


def gen_basename(rng):
    r = rng.random()
    stem = rng.choice(STEMS)
    if r < 0.55:
        return stem + "." + rng.choice(EXTS)
    if r < 0.8:
        return stem
    if r < 0.88:
        return "." + rng.choice(EXTS)
    if r < 0.94:
        return stem + "~"
    return stem + rng.choice(STEMS)


def gen_name(rng, maxdepth=3):
    depth = rng.choice([0, 0, 1, 1, 2, 3][: 3 + maxdepth])
    parts = [rng.choice(DIRS) for _ in range(depth)]
    if rng.random() < 0.15 and parts:
        parts[rng.randrange(len(parts))] = gen_basename(rng)  # directory that looks like a file name
    return "/".join(parts + [gen_basename(rng)])


def _globify(rng, comp, allow_neg):
    """Replace pieces of a literal component by wildcards (keeps a fair chance of matching)."""
    s = list(comp)
    n = rng.choice([1, 1, 2])
    for _ in range(n):
        if not s:
            break
        i = rng.randrange(len(s))
        c = s[i]
        if c in ("*", "?") or len(c) > 1:
            continue
        k = rng.random()
        if k < 0.3:
            s[i] = "?"
        elif k < 0.55:
            j = rng.randrange(i, len(s) + 1)
            s[i:j] = ["*"]
        elif k < 0.62:
            s.insert(i, "*")
        elif k < 0.85 or not allow_neg:
            others = rng.sample(SETCHARS, rng.choice([0, 1, 2]))
            cs = [c] + others if (c.isalnum() and c.isascii()) else others or ["a"]
            rng.shuffle(cs)
            if rng.random() < 0.25:
                s[i] = "[a-c]" if rng.random() < 0.5 else "[A-Cx]"
            else:
                s[i] = "[" + "".join(cs) + "]"
        else:
            cs = rng.sample(SETCHARS, rng.choice([1, 2]))
            s[i] = "[!" + "".join(cs) + "]"
    return re.sub(r"\*+", "*", "".join(s))     # never build '**' by accident: it has its own meaning


def gen_U(rng, names=None):
    """A pattern of the documented grammar.  Returns (pattern, kind)."""
    base = rng.choice(names) if names and rng.random() < 0.7 else gen_name(rng)
    if any(c in base for c in "[\\*?\n") or base.startswith(("!", "#", "/")) or "//" in base:
        base = gen_name(rng)      # names derived from class-A patterns may carry glob syntax: not for class U
    parts = base.split("/")
    bn = parts[-1]
    r = rng.random()
    if r < 0.12:
        pat, kind = bn, "lit"
    elif r < 0.27:
        ext = bn.rsplit(".", 1)[-1] if "." in bn[1:] else rng.choice(EXTS)
        k = rng.random()
        if k < 0.6:
            pat = "*." + ext
        elif k < 0.75:
            pat = "*." + _globify(rng, ext, True)
        elif k < 0.85:
            pat = "*~"
        elif k < 0.93:
            pat = "*.*"
        else:
            pat = "*"
        kind = "ext"
    elif r < 0.45:
        pat, kind = _globify(rng, bn, True), "bnglob"
    elif r < 0.60:
        if len(parts) == 1:
            parts = [rng.choice(DIRS)] + parts
        if rng.random() < 0.3:
            parts = parts[-2:]  # deliberately not anchored at the root: must NOT match deeper paths
        pat = "/".join(_globify(rng, c, False) if rng.random() < 0.4 else c for c in parts)
        kind = "path"
    elif r < 0.67:
        pat, kind = gen_globdir(rng, parts), "globdir"
    elif r < 0.74:
        keep = parts if rng.random() < 0.6 else parts[-1:]
        pat = "./" + "/".join(_globify(rng, c, False) if rng.random() < 0.3 else c for c in keep)
        kind = "rooted"
    elif r < 0.88:
        k = rng.random()
        last = _globify(rng, bn, False) if rng.random() < 0.4 else bn
        if k < 0.45 or len(parts) < 2:
            pat = "**/" + last
        elif k < 0.8:
            pat = parts[0] + "/**/" + last
        elif len(parts) >= 3:
            pat = "**/" + parts[-2] + "/" + last if rng.random() < 0.5 else parts[0] + "/**/" + parts[-2] + "/**/" + last
        else:
            pat = "**/" + parts[0] + "/**/" + last
        kind = "dstar"
    else:
        pat = gen_RE(rng, parts)
        # an escaped parenthesis is ordinary regex syntax (not a group): own class, see fixes/C48-re-escaped-paren.md
        kind = "re-escparen" if "\\(" in pat else "re"
    if not kind.startswith("re") and rng.random() < 0.08:
        pat += "/" if rng.random() < 0.8 else "//"
        kind += "+slash"
    if pat.startswith("!") or pat.startswith("#"):
        return gen_U(rng, names)
    return pat, kind


def _glob_head(rng, comp):
    """A glob for a directory component that keeps only its tail: '*.d', '*d', '?*.d', '*'."""
    k = rng.random()
    if "." in comp[1:] and k < 0.6:
        return "*." + comp.rsplit(".", 1)[1]                 # looks like an extension pattern, but is one component of a path
    if "." in comp[1:] and k < 0.7:
        return "*." + _globify(rng, comp.rsplit(".", 1)[1], False)
    if k < 0.8:
        return "*" + comp[-rng.choice([1, 2, 3]):]
    if k < 0.9:
        return "?*" + comp[-2:] if len(comp) > 2 else "?" + comp[1:]
    return "*"


def gen_globdir(rng, parts):
    """A pattern with a slash whose DIRECTORY components are globs ('*.d/x', '*.app/**/y', 'lib/*.d/*', '*/x').

    It has a slash, so the documentation makes it a whole-path pattern whatever its first characters look like.
    """
    bn = parts[-1]
    dirs = list(parts[:-1])
    if not dirs or rng.random() < 0.5:
        dirs = dirs[:rng.choice([0, 0, 1])] + [rng.choice(DOTDIRS)]
    gi = rng.choice([0, 0, 0, len(dirs) - 1])                # which directory component becomes a glob (mostly the first)
    out = []
    for i, c in enumerate(dirs):
        out.append(_glob_head(rng, c) if i == gi else c)
    k = rng.random()
    if k < 0.35:
        last = bn
    elif k < 0.6:
        last = _globify(rng, bn, False)
    elif k < 0.75:
        last = "*"
    elif k < 0.85:
        last = "*." + (bn.rsplit(".", 1)[1] if "." in bn[1:] else rng.choice(EXTS))
    else:
        last = "**/" + bn
    return "/".join(out + [last])


def gen_RE(rng, parts):
    bn = parts[-1]
    e = re.escape
    ext = bn.rsplit(".", 1)[-1] if "." in bn[1:] else "c"
    stem = bn.split(".", 1)[0] or "foo"
    d = parts[0] if len(parts) > 1 else rng.choice(DIRS)
    t = rng.randrange(12)
    if t == 0:
        return "RE:.*\\." + e(ext)
    if t == 1:
        return "RE:" + e(d) + "/.*"
    if t == 2:
        return "RE:(%s|%s)\\.%s" % (e(stem), e(rng.choice(STEMS)), e(ext))
    if t == 3:
        return "RE:[^/]*\\.(%s|%s)" % (e(ext), e(rng.choice(EXTS)))
    if t == 4:
        return "RE:(?!%s/).*" % e(d)
    if t == 5:
        return "RE:.*/" + e(bn)
    if t == 6:
        return "RE:(?i:%s)(\\..*)?" % e(stem.lower())
    if t == 7:
        return "RE:%s/((%s|%s)/)?.*\\.(%s)" % (e(d), e(rng.choice(DIRS)), e(rng.choice(DIRS)), e(ext))
    if t == 8:
        return "RE:^" + e("/".join(parts)) + "$"
    if t == 9:
        return "RE:" + e(bn)          # regex without anchors: still has to match the WHOLE path
    if t == 10:
        return "RE:(.*/)?%s[^/]*" % e(stem[:2])
    return "RE:(.+/)*[^/.]+"


def gen_A(rng, names=None):
    """A pattern outside the documented grammar (valid regex after translation, meaning not judged)."""
    base = rng.choice(names) if names and rng.random() < 0.6 else gen_name(rng)
    parts = base.split("/")
    bn = parts[-1]
    d = parts[0] if len(parts) > 1 else rng.choice(DIRS)
    t = rng.randrange(14)
    if t == 0:
        return "**"
    if t == 1:
        return bn[:1] + "**"
    if t == 2:
        return "**" + bn[-2:]
    if t == 3:
        return d + "/**"
    if t == 4:
        return d + "/" + _globify(rng, bn, True)
    if t == 5:
        return "[^%s]%s" % (rng.choice(SETCHARS), bn[1:])
    if t == 6:
        return "[]%s]%s" % (bn[:1], bn[1:])
    if t == 7:
        return d + "\\" + bn
    if t == 8:
        return "/" + base
    if t == 9:
        return d + "//" + bn
    if t == 10:
        return d + "/./" + bn
    if t == 11:
        return "[[:digit:][:alnum:]]" + bn[1:]
    if t == 12:
        return "RE:(?P<n>%s).*" % re.escape(bn[:2])
    return "./" + d + "/**/" + "**/" + bn
