"""C26 - directory locks provide mutual exclusion.

Schedule half: 2-3 LockDir actors (own transports, own objects) on one lock path under the
cooperative scheduler (control changes only at transport operations); an online monitor keeps
a ghost holder set from call/return events at the client boundary plus the on-disk nonce at
every rename of `held`, and judges mutual exclusion and the break rule.
Steal half: forged holder info (host, user, pid) x locks.steal_dead, sequential.
"""
import os
import subprocess

from vf import instr

ID = "C26"
LEVEL = "exploration"
TECHNIQUE = "online ghost-state monitor over client-boundary lock events under a seeded cooperative scheduler (yield at every transport op); steal-dead decision table"
LEVEL_TEXT = ("sampled interleavings (random / PCT / targeted at peek->rename windows) of 2-3 real LockDir objects doing attempt/wait/confirm/unlock/peek+force_break; "
              "monitor: no two believers unless a live holder was broken with the info examined; a break removes only the examined lock; stale info is rejected; "
              "steal-dead happens iff host=ours, user=ours, pid dead, option on")
RULE = ("schedule case = (actor scripts, strategy, decision list); non-trivial = >= 2 context switches and >= 1 contended acquire or break; "
        "distinct = schedule decision-list hash; steal case = (host, user, pid class, option)")
CASES = {"quick": 600, "thorough": 12000}
BUDGET_S = {"quick": 45, "thorough": 700}
MIN_EVALS = {"quick": 150, "thorough": 2000}
FLOORS = {"acquire_ok": 150, "contended": 30, "break_renames": 10, "steal_cases": 8, "policy_steals": 10}
ASSUMPTIONS = ["actors are threads with separate object graphs; only one runs at a time and control changes only inside transport operations (the only points where real processes interleave)",
               "after a break of a live holder with matching info (the statement's exemption) the rest of that schedule is exempt from the mutual-exclusion oracle (the break oracle stays on)",
               "schedules are sampled, not enumerated"]

STEP_BUDGET = 4000


def _disk_nonce(lockroot, sub="held"):
    p = os.path.join(lockroot, "lock", sub, "info")
    try:
        with open(p, "rb") as f:
            data = f.read()
    except OSError:
        return None
    for line in data.splitlines():
        if line.startswith(b"nonce:"):
            return line.split(b":", 1)[1].strip().decode()
    return "?corrupt"


class Monitor:
    def __init__(self, ctx, root, world):
        self.ctx = ctx
        self.root = root
        self.world = world
        self.holders = {}      # actor -> nonce   (between acquire-return-ok and unlock-call)
        self.broken = {}       # actor -> "legit" | "mismatch"
        self.tainted = False   # a live holder was broken with matching info: statement's exemption
        self.breaking = {}     # actor -> (examined nonce, disk nonce at call time)
        self.in_unlock = {}    # actor -> nonce   (between unlock-call and unlock-return: still a live holder on disk)
        self.seen_nonces = set()
        self.unlock_hit_by_mismatch = set()  # actors whose lock a mismatched break renamed away while they were inside unlock()
        self.events = []
        self.sched_actors = set()
        self.explicit_break = set()
        self.dead_pid = None
        world.after = self.after_op

    def ev(self, *a):
        self.events.append((self.world.seq,) + a)

    # --- on-disk observation at the rename that takes `held` away
    def after_op(self, e):
        if e.op == "rename" and e.path.endswith("lock/held") and e.extra and "/releasing." in "/" + e.extra and getattr(e, "error", None) is None:
            # the rename with which unlock() takes its own lock away: it must be the unlocker's own lock
            sub = e.extra.rsplit("/", 1)[-1]
            n = _disk_nonce(self.root, sub)
            own = self.in_unlock.get(e.actor)
            self.ctx.count("unlock_renames")
            if own is not None and n is not None and n != "?corrupt" and n != own:
                victim = [a for a, nn in self.holders.items() if nn == n]
                if e.actor in self.unlock_hit_by_mismatch:
                    # consequence of the known force_break TOCTOU: that break took the unlocker's lock away between the
                    # unlocker's confirm() and its rename, so the rename hit the next holder's lock
                    self.ctx.count("unlock_removed_foreign_lock_after_mismatched_break")
                    for v in victim:
                        self.broken[v] = "mismatch"
                    # the damage cascades: if the owner of the lock just removed is itself inside unlock(), its own
                    # rename will hit whoever acquires next (thorough seed 0 case 4701)
                    for a, nn in self.in_unlock.items():
                        if nn == n and a != e.actor:
                            self.unlock_hit_by_mismatch.add(a)
                elif self.tainted:
                    self.ctx.count("exempt_unlock_rename_after_live_break")
                else:
                    self.ctx.fail("unlock:removed-foreign-lock", "unlock of %s (nonce %s) renamed away the lock with nonce %s" % (e.actor, own, n),
                                  {"events": self.events[-40:]})
            return
        if e.op == "rename" and e.path.endswith("lock/held") and e.extra and "/broken." in "/" + e.extra:
            sub = e.extra.rsplit("/", 1)[-1]
            n = _disk_nonce(self.root, sub)
            self.ctx.count("break_renames")
            ex = self.breaking.get(e.actor)
            if ex is None:
                return
            examined, at_call = ex
            victim = [a for a, nn in self.holders.items() if nn == n]
            if n == examined:
                if victim or n in self.in_unlock.values():
                    if victim:
                        self.broken[victim[0]] = "legit"
                    self.tainted = True
                    self.ctx.count("live_holder_broken_legit")
            else:
                if at_call != examined:
                    self.ctx.fail("force_break:stale-info-not-rejected",
                                  "break with info %s renamed away lock %s although the lock already belonged to %s when force_break was called" % (examined, n, at_call),
                                  {"events": self.events[-30:]})
                else:
                    self.ctx.fail("force_break:toctou-removed-later-holder",
                                  "break examined %s but the lock renamed away belonged to %s (changed hands between peek and rename)" % (examined, n),
                                  {"events": self.events[-30:]})
                for v in victim:
                    self.broken[v] = "mismatch"
                for a, nn in self.in_unlock.items():
                    if nn == n:
                        self.unlock_hit_by_mismatch.add(a)

    def acquired(self, actor, nonce):
        self.ctx.count("acquire_ok")
        # the nonce is what makes held info stale once the lock has changed hands (also when the same object takes it
        # again): every acquisition must carry a fresh one
        if nonce in self.seen_nonces:
            self.ctx.fail("nonce:reused-by-a-later-acquisition", "%s acquired with nonce %s, which an earlier acquisition in this schedule already used" % (actor, nonce),
                          {"events": self.events[-30:]})
        self.seen_nonces.add(nonce)
        others = {a: n for a, n in self.holders.items() if a != actor}
        for a, n in others.items():
            why = self.broken.get(a)
            if self.tainted or why == "legit":
                self.ctx.count("exempt_overlap_after_live_break")
            elif why == "mismatch":
                self.ctx.fail("mutex:two-holders-after-mismatched-break", "%s acquired while %s still believes it holds (its lock was removed by a break that examined another holder)" % (actor, a),
                              {"events": self.events[-40:]})
            else:
                self.ctx.fail("mutex:two-holders", "%s acquired (nonce %s) while %s holds (nonce %s) and no break intervened" % (actor, nonce, a, n),
                              {"events": self.events[-40:]})
        self.holders[actor] = nonce
        self.ev("acquired", actor, nonce)

    def releasing(self, actor):
        n = self.holders.pop(actor, None)
        self.broken.pop(actor, None)
        self.in_unlock[actor] = n
        self.ev("unlock-call", actor)

    def released(self, actor, how):
        self.in_unlock.pop(actor, None)
        self.unlock_hit_by_mismatch.discard(actor)
        self.ev("unlock-return", actor, how)


def _n(x):
    return x.decode() if isinstance(x, bytes) else x


_CUR = {"mon": None}


def worker_init(tier):
    """Rebind LockDir.force_break so that breaks issued by the steal-dead policy are observed too."""
    from breezy.lockdir import LockDir

    instr.install()
    orig = LockDir.force_break
    if getattr(orig, "_vf", False):
        return

    def force_break(self, dead_holder_info):
        mon = _CUR["mon"]
        actor = instr.current_actor()
        if mon is not None and actor in mon.sched_actors:
            explicit = actor in mon.explicit_break
            if not explicit:
                # a break decided by policy (steal from a dead holder) inside attempt_lock/wait_lock
                mon.ctx.count("policy_steals")
                pid = getattr(dead_holder_info, "pid", None)
                if pid != mon.dead_pid:
                    mon.ctx.fail("steal:policy-broke-holder-that-is-not-dead", "actor %s stole the lock of pid %r (nonce %s), which is not the dead holder" % (
                        actor, pid, _n(dead_holder_info.nonce)), {"events": mon.events[-30:]})
                mon.breaking[actor] = (_n(dead_holder_info.nonce), _disk_nonce(mon.root))
                try:
                    return orig(self, dead_holder_info)
                finally:
                    mon.breaking.pop(actor, None)
        return orig(self, dead_holder_info)
    force_break._vf = True
    LockDir.force_break = force_break


def _mk_lockdir(world, root):
    from breezy.lockdir import LockDir
    from dromedary import get_transport_from_url

    t = get_transport_from_url(world.url(root))
    return LockDir(t, "lock")


def _actor_proc(ctx, mon, sched, world, root, script, name):
    from breezy import errors
    from breezy.lockdir import LockBreakMismatch
    from dromedary import errors as transport_errors

    def run():
        ld = _mk_lockdir(world, root)
        for step in script:
            kind = step[0]
            if kind == "lock":
                mon.ev("acquire-call", name)
                try:
                    if step[1] == 1:
                        ld.attempt_lock()
                    else:
                        ld.wait_lock(timeout=10 ** 6, poll=0, max_attempts=step[1])
                except errors.LockContention:
                    ctx.count("contended")
                    mon.ev("acquire-contended", name)
                    continue
                except errors.LockFailed as e:
                    ctx.hist("LockFailed")
                    mon.ev("acquire-failed", name, repr(e)[:80])
                    continue
                except (LockBreakMismatch, transport_errors.NoSuchFile) as e:
                    # the steal-dead policy lost a race (the lock changed hands or vanished): acquisition failed
                    ctx.hist("acquire-failed-in-steal:" + type(e).__name__)
                    mon.ev("acquire-failed", name, type(e).__name__)
                    if ld.is_held:
                        ctx.fail("attempt:raised-but-believes-held", "attempt raised %s but is_held is True" % type(e).__name__)
                    continue
                if not ld.is_held:
                    ctx.fail("attempt:returned-without-holding", "attempt_lock returned but is_held is False")
                mon.acquired(name, _n(ld.nonce))
                for _ in range(step[2]):
                    # critical section: confirm() must agree with the disk
                    mine = _disk_nonce(root) == _n(ld.nonce)
                    try:
                        ld.confirm()
                        ok = True
                    except errors.LockBroken:
                        ok = False
                    ctx.count("confirm")
                    if ok and not mine and _disk_nonce(root) != _n(ld.nonce):
                        ctx.fail("confirm:true-on-foreign-lock", "confirm() succeeded while the disk lock belongs to someone else")
                mon.releasing(name)
                try:
                    ld.unlock()
                    mon.released(name, "ok")
                    if ld.is_held:
                        # unlock() is @only_raises(LockNotHeld, LockBroken): a transport error while releasing a lock
                        # that was broken under it is swallowed and the object keeps is_held; its nonce is no longer
                        # on disk, so it is not a holder in the property's sense.  Continue with a fresh object.
                        ctx.count("unlock_swallowed_error")
                        ld = _mk_lockdir(world, root)
                except errors.LockBroken:
                    ctx.count("unlock_found_broken")
                    mon.released(name, "broken")
                    ld._lock_held = False
            elif kind == "break":
                info = ld.peek()
                if info is None:
                    continue
                for _ in range(step[1]):
                    sched.pause(name)
                mon.breaking[name] = (_n(info.nonce), _disk_nonce(root))
                mon.ev("break-call", name, _n(info.nonce))
                mon.explicit_break.add(name)
                try:
                    ld.force_break(info)
                    mon.ev("break-return", name, "done")
                    ctx.count("break_done")
                except LockBreakMismatch:
                    mon.ev("break-return", name, "mismatch")
                    ctx.count("break_mismatch")
                except transport_errors.NoSuchFile:
                    # the lock went away between force_break's own peek and its rename: nothing was broken
                    mon.ev("break-return", name, "vanished")
                    ctx.count("break_vanished")
                finally:
                    mon.breaking.pop(name, None)
                    mon.explicit_break.discard(name)
            elif kind == "peek":
                ld.peek()
    return run


def _gen_script(rng, breaker):
    steps = []
    for _ in range(rng.randint(2, 5)):
        r = rng.random()
        if breaker and r < 0.5:
            steps.append(("break", rng.randint(0, 3)))
        elif r < 0.85:
            steps.append(("lock", rng.choice([1, 1, 2, 3]), rng.randint(0, 2)))
        else:
            steps.append(("peek",))
    return steps


def schedule_case(ctx):
    rng = ctx.rng
    root = ctx.tmp("c26")
    os.mkdir(os.path.join(root, "lock"))
    world = instr.World(root)
    world.keep_log = False
    nact = 2 if rng.random() < 0.4 else 3
    strategy = rng.choice(["random", "random", "pct", "targeted", "targeted"])
    hot = (lambda e: e.path.endswith("lock/held") or e.path.endswith("held/info")) if strategy == "targeted" else None
    sched = instr.Scheduler(world, rng, strategy="random" if strategy == "targeted" else strategy, p=rng.choice([0.15, 0.3, 0.5]),
                            hot=hot, max_steps=STEP_BUDGET, d=3)
    mon = Monitor(ctx, root, world)
    _CUR["mon"] = mon
    names = ["A", "B", "C"][:nact]
    mon.sched_actors = set(names)
    from breezy import config

    steal_scenario = rng.random() < 0.3
    config.GlobalStack().set("locks.steal_dead", steal_scenario)
    if steal_scenario:
        # a holder that died: forged info with our host and user and the pid of a reaped child
        from breezy.lockdir import LockDir
        from dromedary import get_transport_from_path

        dead = LockDir(get_transport_from_path(root), "lock")
        dead.attempt_lock()
        ip = os.path.join(root, "lock", "held", "info")
        data = open(ip).read()
        mon.dead_pid = _get_dead_pid()
        with open(ip, "w") as f:
            f.write("\n".join(("pid: %d" % mon.dead_pid) if l.startswith("pid:") else l for l in data.splitlines()) + "\n")
        ctx.count("steal_schedules")
    nbreakers = rng.choice([0, 1, 1, 2]) if not steal_scenario else 0
    scripts = {n: _gen_script(rng, breaker=(i >= nact - nbreakers)) for i, n in enumerate(names)}
    procs = {n: _actor_proc(ctx, mon, sched, world, root, scripts[n], n) for n in names}
    try:
        done = sched.run(procs, timeout=120)
    finally:
        _CUR["mon"] = None
    if not done:
        ctx.hist("schedule-budget-exhausted" if not getattr(sched, "stuck", None) else "schedule-stuck")
        ctx.discard("schedule did not finish (inconclusive for this schedule)")
    for n, e in sched.errors.items():
        raise e
    # end state: nobody holds, lock free, no leftovers that block a fresh locker
    fresh = _mk_lockdir(world, root)
    with world.active(), world.actor("judge"):
        world.scheduler = None
        if not mon.tainted and not any(v == "mismatch" for v in mon.broken.values()):
            info = fresh.peek()
            if info is not None:
                ctx.fail("end:lock-left-held", "all actors finished but the lock is held by %s" % info.nonce, {"events": mon.events[-30:]})
            else:
                fresh.attempt_lock()
                fresh.unlock()
                ctx.count("end_fresh_acquire")
    ctx.distinct("schedule", sched.schedule_hash())
    ctx.hist("strategy:" + strategy)
    contended = any(e[1] in ("acquire-contended", "break-call") for e in mon.events)
    ctx.note(("sched", sched.schedule_hash()), nontrivial=sched.switches >= 2 and contended,
             sample={"scripts": scripts, "strategy": strategy, "steps": sched.steps, "switches": sched.switches, "hot_hits": sched.hot_hits,
                     "events": [list(map(str, e)) for e in mon.events[:25]]})


_dead_pid = []


def _get_dead_pid():
    if not _dead_pid:
        p = subprocess.Popen(["/bin/true"])
        p.wait()
        _dead_pid.append(p.pid)
    return _dead_pid[0]


def steal_case(ctx):
    """Forged holder info x locks.steal_dead: a steal happens iff host=ours, user=ours, pid dead, option on."""
    from breezy import config, errors
    from breezy.lockdir import LockDir, LockHeldInfo
    from dromedary import get_transport_from_path

    rng = ctx.rng
    root = ctx.tmp("c26s")
    t = get_transport_from_path(root)
    holder = LockDir(t, "lock")
    holder.create()
    holder.attempt_lock()
    info_path = os.path.join(root, "lock", "held", "info")
    data = open(info_path, "rb").read().decode()
    mine = LockHeldInfo.from_info_file_bytes(data.encode())
    host_kind = rng.choice(["ours", "ours", "other", "absent"])
    user_kind = rng.choice(["ours", "ours", "other", "absent"])
    pid_kind = rng.choice(["dead", "alive", "absent"])
    option = rng.choice([True, False])
    lines = []
    for line in data.splitlines():
        if line.startswith("hostname:") and host_kind == "other":
            line = "hostname: some-other-host.example"
        elif line.startswith("hostname:") and host_kind == "absent":
            continue
        elif line.startswith("user:") and user_kind == "other":
            line = "user: somebody-else"
        elif line.startswith("user:") and user_kind == "absent":
            continue  # an info file that does not record the user: nothing says the holder is ours
        elif line.startswith("pid:"):
            if pid_kind == "dead":
                line = "pid: %d" % _get_dead_pid()
            elif pid_kind == "absent":
                continue
            else:
                line = "pid: %d" % os.getppid()
        lines.append(line)
    with open(info_path, "w") as f:
        f.write("\n".join(lines) + "\n")
    conf = config.GlobalStack()
    conf.set("locks.steal_dead", option)
    other = LockDir(get_transport_from_path(root), "lock")
    forged = other.peek()
    ctx.count("steal_cases")
    expect_dead = host_kind == "ours" and user_kind == "ours" and pid_kind == "dead"
    got_dead = forged.is_lock_holder_known_dead()
    ctx.check(got_dead == expect_dead, "steal:known-dead-misjudged", "host=%s user=%s pid=%s: is_lock_holder_known_dead=%s" % (host_kind, user_kind, pid_kind, got_dead))
    try:
        other.attempt_lock()
        stole = True
    except errors.LockContention:
        stole = False
    expect = expect_dead and option
    ctx.check(stole == expect, "steal:wrong-decision", "host=%s user=%s pid=%s option=%s: stole=%s expected=%s" % (host_kind, user_kind, pid_kind, option, stole, expect))
    if stole:
        ctx.count("steals")
        other.unlock()
    ctx.note(("steal", host_kind, user_kind, pid_kind, option), nontrivial=True,
             sample={"host": host_kind, "user": user_kind, "pid": pid_kind, "steal_dead_option": option, "stole": stole})


def case(ctx):
    if ctx.index % 10 == 9:
        steal_case(ctx)
    else:
        schedule_case(ctx)
