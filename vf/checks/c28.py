"""C28 - reentrant locking acquires and releases the physical lock exactly once.

Part A (exhaustive): every sequence up to length L over
{lock_read, lock_write, lock_write(good token), lock_write(bad token), unlock}
on the real ``CountedLock`` over a recording fake lock (twice: with a reliable
fake, and with a fake whose physical unlock raises LockBroken), compared step
by step with a tiny reference automaton (mode, count).

Part B (random, real objects): random call sequences on LockableFiles (over a
real LockDir and over a real TransportLock/OS lock), pack repositories
(2a, pack-0.92), knit repositories, branches (BzrBranch7/6) and working trees
(WorkingTree6/4 dirstate, WorkingTree3), with and without a pre-locked
sub-object (repository under a branch, branch under a tree) and with an external
token owner.  "Physical acquire/release" is observed from the outside:
  * calls that reach the underlying lock objects (LockDir / TransportLock
    lock_write / lock_read / unlock, recorded by attribute rebinding on the classes),
  * the ``lock/held`` directories on disk after every call,
  * the OS lock on the dirstate / lock file as listed in /proc/locks.
A fraction of the sequences ends in a *faulty last unlock*: just before the matching last unlock of a write-locked
object another party (a fresh LockDir object) force-breaks ONE of the physical write locks that the first lock took
(the object's own, or the one of a sub-object locked on its behalf), so that this physical release raises LockBroken.
The last unlock happened all the same: the object and everything it locked on its own behalf must end unlocked and
every other physical lock must be released.  The rig is thrown away afterwards (fresh tree for the next sequence).
"""
import itertools
import os

ID = "C28"
LEVEL = "exploration"
RUST = []  # every anchor of this property is Python; no crate needs rebuilding
TECHNIQUE = ("reference automaton (mode,count) compared step by step with the real CountedLock over a recording fake "
             "lock (exhaustive), and with real LockableFiles/repository/branch/working-tree objects whose physical "
             "locks are observed from outside (underlying-lock call recorder, lock/held on disk, /proc/locks), including "
             "last unlocks whose physical release fails because another party broke the lock")
RULE = ("A: all sequences of length <= L (quick 7, thorough 9) over 5 symbols x {reliable, failing physical unlock} "
        "(length-9 sequences are evaluated and counted but not entered into the distinct-signature set, to bound memory); "
        "B: random sequences (<= 40 calls, then drained) over the object's alphabet, biased to cross count 0 and to "
        "attempt write-after-read / over-unlock / token mismatch; non-trivial = sequence has a 0->1 and a 1->0 "
        "transition and a reentrant or refused call; distinct = distinct (object kind, scenario, call sequence)")
LMAX = {"quick": 7, "thorough": 9}
N_EXH = {"quick": 16, "thorough": 32}
N_REAL = {"quick": 112, "thorough": 1120}
SEQS_PER_CASE = {"quick": 12, "thorough": 16}
CASES = {t: N_EXH[t] + N_REAL[t] for t in ("quick", "thorough")}
BUDGET_S = {"quick": 90, "thorough": 1200}
MIN_EVALS = {"quick": 70000, "thorough": 1500000}
FLOORS = {
    "quick": {"counted_steps": 1300000, "counted_physical_acquire": 250000, "counted_physical_release": 80000,
              "counted_refusals": 500000, "real_steps": 15000, "real_transition_0_1": 2000, "real_transition_1_0": 2000,
              "real_reentrant_steps": 7500, "real_refusals": 3500, "disk_held_checks": 40000, "proc_locks_checks": 3000,
              "real_seq_lf_lockdir": 70, "real_seq_lf_transportlock": 45, "real_seq_packrepo": 70,
              "real_seq_knitrepo": 70, "real_seq_branch": 190, "real_seq_tree": 215, "packrepo_write_cycles": 100,
              "token_acquire_via_owner": 75, "real_fault_last_unlock": 100, "real_fault_branch_breaks_own": 25,
              "real_fault_tree_breaks_own": 40, "real_fault_tree_breaks_sub": 2},
    "thorough": {"counted_steps": 42000000, "counted_physical_acquire": 7000000, "counted_physical_release": 2500000,
                 "counted_refusals": 15500000, "real_steps": 200000, "real_transition_0_1": 25000,
                 "real_transition_1_0": 25000, "real_reentrant_steps": 100000, "real_refusals": 45000,
                 "disk_held_checks": 500000, "proc_locks_checks": 40000, "real_seq_lf_lockdir": 900,
                 "real_seq_lf_transportlock": 600, "real_seq_packrepo": 900, "real_seq_knitrepo": 900,
                 "real_seq_branch": 2500, "real_seq_tree": 2800, "packrepo_write_cycles": 1400,
                 "token_acquire_via_owner": 1100, "real_fault_last_unlock": 1000, "real_fault_branch_breaks_own": 250,
                 "real_fault_tree_breaks_own": 400, "real_fault_tree_breaks_sub": 20},
}
EXHAUSTIVE = {"quick": False, "thorough": False}  # part A is exhaustive within its bound, part B is sampled
ASSUMPTIONS = [
    "'physical lock' of a LockDir-based object = the calls reaching its LockDir (lock_read is LockDir's documented "
    "fake read lock and leaves nothing on disk; lock_write renames a directory to lock/held) - both are recorded, "
    "the disk is checked only for write locks",
    "pack repositories (PackRepository.lock_write) deliberately take NO physical lock for a write lock; the physical "
    "repository lock is taken only around pack-names writes (RepositoryPackCollection.lock_names). The oracle therefore "
    "does not demand a physical acquisition at 0->1 for a pack repository write lock, only that nothing is acquired or "
    "released on reentrant calls, that everything taken is released at 1->0, and that a write-group commit takes and "
    "releases the physical lock (balanced) while the logical count is unchanged; PackRepository ignores tokens, so "
    "no token calls are issued on it",
    "a refused call may be refused with any exception (classes are histogrammed); what is judged is that it raises "
    "and leaves is_locked(), the set of held physical locks and the later behaviour unchanged",
    "a lock taken with an owner's token (lock_write(token=T)) is not released physically on unlock (LockDir "
    "'locked via token'); the disk must keep lock/held until the owner unlocks",
    "working tree lock_write while only tree-write locked (branch read-locked) is refused unless the branch was "
    "write-locked beforehand by the caller (then it succeeds) - taken from BzrBranch.lock_write",
    "after a failing physical unlock CountedLock documents 'we still don't have the lock anymore': state becomes "
    "unlocked and the error propagates (checked in part A only)",
    "faulty last unlock (part B): when a physical lock taken on the object's behalf was broken by another party, the "
    "matching last unlock is still the last unlock (LockableFiles.unlock resets its count in a finally:, BzrBranch / "
    "WorkingTree unlock their repository / branch in a finally:): whatever it raises (histogrammed, LockBroken is the "
    "documented one), afterwards is_locked() is False, the sub-object locked by the first lock is unlocked again unless "
    "the caller holds it, every other physical lock taken by the first lock is released, the broken lock was asked "
    "to unlock exactly once, and a further unlock is refused; only on-disk LockDir write locks can be broken (not "
    "fake read locks, OS locks, token-borrowed locks or locks the caller holds); the objects are discarded afterwards",
    "sequences are well nested per object: the sub-object (repository under a branch, branch under a tree) is only "
    "ever pre-locked once around the whole sequence, not interleaved; RemoteRepository is not covered (no smart "
    "server in this check)",
]

# ============================================================================ part A: CountedLock

GOOD, BAD = b"the-token", b"not-the-token"
SYMS = ("r", "w", "g", "b", "u")


class FakeLock:
    """Recording stand-in for a physical lock (LockDir-like token semantics)."""

    def __init__(self, fail_unlock):
        self.events = []
        self.held = None
        self.fail_unlock = fail_unlock
        self.anomalies = []

    def lock_read(self):
        if self.held:
            self.anomalies.append("acquire-while-held")
        self.held = "r"
        self.events.append("R")

    def lock_write(self, token=None):
        from breezy import errors

        if token is not None and token != GOOD:
            raise errors.TokenMismatch(token, GOOD)
        if self.held:
            self.anomalies.append("acquire-while-held")
        self.held = "w"
        self.events.append("W")
        return GOOD

    def validate_token(self, token):
        from breezy import errors

        if token is not None and token != GOOD:
            raise errors.TokenMismatch(token, GOOD)

    def unlock(self):
        from breezy import errors

        if not self.held:
            self.anomalies.append("release-while-not-held")
            raise errors.LockNotHeld(self)
        self.held = None
        self.events.append("U")
        if self.fail_unlock:
            raise errors.LockBroken(self)

    def peek(self):
        return None

    def __repr__(self):
        return "FakeLock()"


def model_step(mode, count, sym, fail_unlock):
    """Reference automaton. Returns (outcome, physical_events, mode', count').

    outcome: 'ok' | 'token' (ok, must return the token) | 'readonly' | 'mismatch' | 'notheld' | 'broken'
    """
    if sym == "r":
        if count == 0:
            return "ok", ["R"], "r", 1
        return "ok", [], mode, count + 1
    if sym in ("w", "g", "b"):
        if count == 0:
            if sym == "b":
                return "mismatch", [], mode, count
            return "token", ["W"], "w", 1
        if mode == "r":
            return ("readonly|mismatch" if sym == "b" else "readonly"), [], mode, count
        if sym == "b":
            return "mismatch", [], mode, count
        return "token", [], mode, count + 1
    # unlock
    if count == 0:
        return "notheld", [], mode, count
    if count == 1:
        return ("broken" if fail_unlock else "ok"), ["U"], None, 0
    return "ok", [], mode, count - 1


def run_counted(ctx, seq, fail_unlock, sample=False):
    from breezy import errors
    from breezy.counted_lock import CountedLock

    fake = FakeLock(fail_unlock)
    cl = CountedLock(fake)
    mode, count = None, 0
    exc_of = {"readonly": errors.ReadOnlyError, "mismatch": errors.TokenMismatch, "notheld": errors.LockNotHeld,
              "broken": errors.LockBroken}
    trace = []
    for i, sym in enumerate(seq):
        want, wev, mode2, count2 = model_step(mode, count, sym, fail_unlock)
        n0 = len(fake.events)
        got, ret = "ok", None
        try:
            if sym == "r":
                ret = cl.lock_read()
            elif sym == "w":
                ret = cl.lock_write()
            elif sym == "g":
                ret = cl.lock_write(token=GOOD)
            elif sym == "b":
                ret = cl.lock_write(token=BAD)
            else:
                ret = cl.unlock()
        except Exception as e:
            got = e
        ev = fake.events[n0:]
        ctx.count("counted_steps")
        d = {"sequence": "".join(seq), "step": i, "symbol": sym, "fail_unlock": fail_unlock,
             "model_before": [mode, count], "model_after": [mode2, count2], "physical_events": ev,
             "outcome": "ok" if got == "ok" else type(got).__name__}
        pre = "counted:%s:" % {"r": "lock_read", "w": "lock_write", "g": "lock_write_token", "b": "lock_write_badtoken",
                               "u": "unlock"}[sym]
        state = "from-unlocked" if count == 0 else ("reentrant" if not (sym == "u" and count == 1) else "last-unlock")
        if want in ("ok", "token"):
            if got != "ok":
                ctx.fail(pre + state + ":raised-" + type(got).__name__, "expected success", d, stop=True)
            if want == "token":
                ctx.check(ret == GOOD, pre + state + ":token-not-returned", "returned %r" % (ret,), d)
        else:
            ctx.count("counted_refusals")
            classes = tuple(exc_of[w] for w in want.split("|"))
            if got == "ok":
                ctx.fail(pre + state + ":not-refused", "expected %s, call succeeded" % want, d, stop=True)
            elif not isinstance(got, classes):
                ctx.fail(pre + state + ":wrong-error-" + type(got).__name__, "expected %s" % want, d, stop=True)
        if ev != wev:
            what = "physical-acquire" if (set(ev) | set(wev)) & {"R", "W"} else "physical-release"
            ctx.fail(pre + state + ":" + what + "-mismatch", "physical events %r, expected %r" % (ev, wev), d, stop=True)
        if "R" in wev or "W" in wev:
            ctx.count("counted_physical_acquire")
        if "U" in wev:
            ctx.count("counted_physical_release")
        mode, count = mode2, count2
        if bool(cl.is_locked()) != (count > 0):
            ctx.fail(pre + state + ":is_locked-wrong", "is_locked()=%r, model count %d" % (cl.is_locked(), count), d, stop=True)
        if fake.anomalies:
            ctx.fail(pre + state + ":physical-" + fake.anomalies[0], "fake lock anomaly %r" % fake.anomalies, d, stop=True)
        if sample:
            trace.append([sym, d["outcome"], ev, [mode, count]])
    seen0 = "R" in fake.events or "W" in fake.events
    ctx.note(("A", "".join(seq), fail_unlock),
             nontrivial=seen0 and "U" in fake.events and 2 < len(seq) <= 8,
             sample={"part": "A", "sequence": "".join(seq), "fail_unlock": fail_unlock, "trace": trace} if sample else None)


def case_counted(ctx, shard, nshards):
    from vf.runner import OracleFailure

    idx = 0
    for L in range(1, LMAX[ctx.tier] + 1):
        for seq in itertools.product(SYMS, repeat=L):
            idx += 1
            if idx % nshards != shard:
                continue
            for fail_unlock in (False, True):
                try:
                    run_counted(ctx, seq, fail_unlock, sample=(idx % 40009 == 11 and not fail_unlock))
                except OracleFailure:
                    pass


# ============================================================================ part B: real objects

_EVENTS = []
_INSTALLED = {}


def _lpath(transport, rel):
    try:
        return transport.local_abspath(rel).rstrip("/")
    except Exception:
        return transport.abspath(rel).rstrip("/")


def install_recorders():
    """Record every call that reaches an underlying lock object (class attribute rebinding, idempotent)."""
    if _INSTALLED:
        return
    from breezy.bzr.lockable_files import TransportLock
    from breezy.lockdir import LockDir

    def wrap(cls, keyfn):
        o_w, o_r, o_u = cls.lock_write, cls.lock_read, cls.unlock

        def lock_write(self, token=None):
            try:
                r = o_w(self, token=token)
            except BaseException as e:
                _EVENTS.append((keyfn(self), "X", type(e).__name__))
                raise
            _EVENTS.append((keyfn(self), "Wtok" if token is not None else "W", None))
            return r

        def lock_read(self):
            try:
                r = o_r(self)
            except BaseException as e:
                _EVENTS.append((keyfn(self), "X", type(e).__name__))
                raise
            _EVENTS.append((keyfn(self), "R", None))
            return r

        def unlock(self):
            try:
                r = o_u(self)
            except BaseException as e:
                _EVENTS.append((keyfn(self), "X", type(e).__name__))
                raise
            _EVENTS.append((keyfn(self), "U", None))
            return r

        cls.lock_write, cls.lock_read, cls.unlock = lock_write, lock_read, unlock
        _INSTALLED[cls.__name__] = (o_w, o_r, o_u)

    wrap(LockDir, lambda s: (_lpath(s.transport, s.path), id(s)))
    wrap(TransportLock, lambda s: (_lpath(s._transport, s._escaped_name), id(s)))


def worker_init(tier):
    install_recorders()


def take_events():
    ev = list(_EVENTS)
    del _EVENTS[:]
    return ev


def proc_locks():
    """{inode: set(types)} of the OS locks this process holds, as the kernel lists them."""
    out = {}
    me = os.getpid()
    try:
        with open("/proc/locks") as f:
            for line in f:
                p = line.split()
                # N: POSIX ADVISORY WRITE pid maj:min:inode start end   (blocked waiters start with '->')
                if "->" in p[:2]:
                    continue
                try:
                    if int(p[4]) != me:
                        continue
                    ino = int(p[5].split(":")[2])
                except (ValueError, IndexError):
                    continue
                out.setdefault(ino, set()).add(p[3])
    except OSError:
        return None
    return out


KINDS = [
    ("lf_lockdir", None, "plain"), ("lf_lockdir", None, "owner"), ("lf_transportlock", None, "plain"),
    ("packrepo", "2a", "plain"), ("packrepo", "pack-0.92", "plain"),
    ("knitrepo", "dirstate-tags", "plain"), ("knitrepo", "knit", "owner"),
    ("branch", "2a", "plain"), ("branch", "2a", "owner"), ("branch", "2a", "sub_r"), ("branch", "2a", "sub_w"),
    ("branch", "pack-0.92", "plain"), ("branch", "dirstate-tags", "plain"), ("branch", "dirstate-tags", "sub_r"),
    ("tree", "2a", "plain"), ("tree", "2a", "sub_r"), ("tree", "2a", "sub_w"), ("tree", "pack-0.92", "plain"),
    ("tree", "dirstate-tags", "sub_w"), ("tree", "knit", "plain"), ("tree", "knit", "sub_r"),
    ("lf_lockdir", None, "plain"), ("tree", "2a", "plain"), ("branch", "2a", "plain"), ("packrepo", "2a", "plain"),
    ("knitrepo", "dirstate-tags", "owner"), ("lf_transportlock", None, "plain"), ("tree", "pack-0.92", "sub_r"),
]

OPNAME = {"r": "lock_read", "w": "lock_write", "g": "lock_write_token", "b": "lock_write_badtoken", "t": "lock_tree_write",
          "u": "unlock", "W": "write_group_commit", "F": "unlock_after_lock_broken"}
P_FAULT = 0.15  # chance that a last unlock with a breakable physical lock becomes a faulty one (ends the rig)


class Rig:
    """One real object under test plus everything needed to observe it from outside."""

    def __init__(self, ctx, kind, fmt, scenario):
        from breezy import transport as _t
        from breezy.branch import Branch
        from breezy.bzr.lockable_files import LockableFiles, TransportLock
        from breezy.controldir import ControlDir, format_registry
        from breezy.lockdir import LockDir
        from breezy.repository import Repository
        from breezy.workingtree import WorkingTree

        self.ctx, self.kind, self.fmt, self.scenario = ctx, kind, fmt, scenario
        d = ctx.tmp("c28")
        self.dir = d
        self.lockdirs = []        # local paths of lock directories whose 'held' we look at
        self.oslock_file = None   # file whose OS lock we look for in /proc/locks
        self.sub = None
        self.owner = None
        self.owner_token = None
        self.tokens = "yes"
        self.alphabet = "rwgbu"
        self.own_path = None
        self.nwrite = 0
        if kind.startswith("lf_"):
            t = _t.get_transport_from_path(d)
            if kind == "lf_lockdir":
                LockableFiles(t, "lock", LockDir).create_lock()
                self.subject = LockableFiles(t, "lock", LockDir)
                self.own_path = os.path.join(d, "lock")
                self.lockdirs = [self.own_path]
                if scenario == "owner":
                    self.owner = LockableFiles(t, "lock", LockDir)
            else:
                LockableFiles(t, "lockfile", TransportLock).create_lock()
                self.subject = LockableFiles(t, "lockfile", TransportLock)
                self.own_path = os.path.join(d, "lockfile")
                self.oslock_file = self.own_path
                self.tokens = "unsupported"
                self.alphabet = "rwbu"
        else:
            cdf = format_registry.make_controldir(fmt)
            ControlDir.create_standalone_workingtree(d, format=cdf)
            bzr = os.path.join(d, ".bzr")
            self.lockdirs = [os.path.join(bzr, x, "lock") for x in ("repository", "branch", "checkout")]
            if kind in ("packrepo", "knitrepo"):
                self.subject = Repository.open(d)
                self.own_path = self.lockdirs[0]
                if kind == "packrepo":
                    self.tokens = "none"
                    self.alphabet = "rwuW"
                if scenario == "owner":
                    self.owner = Repository.open(d)
            elif kind == "branch":
                self.subject = Branch.open(d)
                self.own_path = self.lockdirs[1]
                self.sub = self.subject.repository
                if scenario == "owner":
                    self.owner = Branch.open(d)
            else:
                self.subject = WorkingTree.open(d)
                self.own_path = self.lockdirs[2]
                self.sub = self.subject.branch
                self.tokens = "none"
                self.alphabet = "rtwu"
                ds = os.path.join(bzr, "checkout", "dirstate")
                if os.path.exists(ds):
                    self.oslock_file = ds
        self.sub_mode = {"sub_r": "r", "sub_w": "w"}.get(scenario)
        # model
        self.mode, self.count = None, 0
        self.cur_token = None
        self.last_token = None
        self.H = {}
        self.base = {}
        self.H_locked = None

    # -- setup / teardown of the surrounding context
    def setup(self):
        take_events()
        if self.owner is not None:
            r = self.owner.lock_write()
            self.owner_token = self._token_of(r)
            if self.owner_token is None:
                self.ctx.discard("owner-without-token")
        if self.sub_mode == "r":
            self.sub.lock_read()
        elif self.sub_mode == "w":
            self.sub.lock_write()
        fails = []
        self._apply(take_events(), fails)
        self.base = dict(self.H)
        if fails:
            self.ctx.discard("setup-anomaly")

    def teardown(self):
        """Drain, release the context, then everything must be gone."""
        if self.sub_mode:
            self.sub.unlock()
        if self.owner is not None:
            self.owner.unlock()
        fails = []
        self._apply(take_events(), fails)
        d = {"kind": self.kind, "format": self.fmt, "scenario": self.scenario, "still_held": sorted(k[0] for k in self.H)}
        for f in fails:
            self.ctx.fail("%s:teardown:%s" % (self.kind, f), "while releasing the surrounding context", d)
        self.ctx.check(not self.H, "%s:teardown:physical-lock-leaked" % self.kind, "locks still held after everything was unlocked", d)
        self.base = {}
        self._check_disk("teardown", d)
        self._check_oslock("teardown", d, expect=None)

    @staticmethod
    def _token_of(r):
        if r is None or isinstance(r, bytes):
            return r
        for a in ("repository_token", "branch_token", "token"):
            if getattr(r, a, None) is not None:
                return getattr(r, a)
        return None

    # -- physical observation
    def _apply(self, events, fails):
        acq = rel = 0
        for key, kind, _x in events:
            if kind == "X":
                self.ctx.hist("underlying-lock-raised:%s" % _x)
                continue
            if kind == "U":
                if key not in self.H:
                    fails.append("physical-release-of-unheld-lock")
                else:
                    del self.H[key]
                rel += 1
            else:
                if key in self.H:
                    fails.append("physical-double-acquire")
                self.H[key] = kind
                acq += 1
        return acq, rel

    def _check_disk(self, where, d):
        for p in self.lockdirs:
            want = any(k[0] == p and m == "W" for k, m in self.H.items())
            have = os.path.isdir(os.path.join(p, "held"))
            self.ctx.count("disk_held_checks")
            if have != want:
                name = os.path.basename(os.path.dirname(p)) or "lock"
                self.ctx.fail("%s:%s:disk:%s-held-%s" % (self.kind, where, name, "missing" if want else "present-but-not-acquired"),
                              "%s/held exists=%s, recorded physical write lock=%s" % (p, have, want), d, stop=True)

    def _check_oslock(self, where, d, expect="model"):
        if self.oslock_file is None:
            return
        if expect == "model":
            expect = None if self.count == 0 else ("READ" if self.mode == "r" else "WRITE")
        pl = proc_locks()
        if pl is None:
            self.ctx.hist("proc-locks-unreadable")
            return
        try:
            ino = os.stat(self.oslock_file).st_ino
        except OSError:
            return
        have = pl.get(ino, set())
        self.ctx.count("proc_locks_checks")
        want = {expect} if expect else set()
        tries = 0
        while have != want and tries < 6:
            # /proc/locks is a seq_file over a list that other processes change all the time: one listing can miss
            # (or repeat) entries.  Only a mismatch that persists over several fresh listings is a verdict.
            tries += 1
            self.ctx.hist("proc-locks-reread")
            pl = proc_locks() or {}
            have = pl.get(ino, set())
        if have != want:
            self.ctx.fail("%s:%s:oslock:%s" % (self.kind, where, "missing" if want - have else "unexpected"),
                          "OS lock on %s: kernel lists %s, expected %s" % (os.path.basename(self.oslock_file), sorted(have), sorted(want)),
                          d, stop=True)

    # -- reference automaton for real objects
    def sub_effective(self):
        """Mode in which the sub-object (branch under a tree) is locked, as far as the caller controls it."""
        if self.sub_mode:
            return self.sub_mode
        if self.count == 0:
            return None
        return "w" if self.mode == "w" else "r"

    def expect(self, op, tok):
        """-> ('ok', mode', count') or ('refuse', why)"""
        m, c = self.mode, self.count
        if op == "r":
            return ("ok", m or "r", c + 1)
        if op == "u":
            if c == 0:
                return ("refuse", "not-held")
            return ("ok", m if c > 1 else None, c - 1)
        if op == "W":
            return ("ok", m, c)
        if op == "F":  # last unlock whose physical release fails: the lock is gone all the same
            return ("fault", None, 0)
        if op == "t":
            if c == 0:
                return ("ok", "t", 1)
            if m == "r":
                return ("refuse", "read-only")
            return ("ok", m, c + 1)
        # write lock family
        if self.kind == "tree":
            if c == 0:
                return ("refuse", "sub-read-only") if self.sub_mode == "r" else ("ok", "w", 1)
            if m == "r":
                return ("refuse", "read-only")
            if m == "t":
                return ("ok", m, c + 1) if self.sub_effective() == "w" else ("refuse", "sub-read-only")
            return ("ok", m, c + 1)
        if c == 0:
            if self.sub_mode == "r":
                return ("refuse", "sub-read-only")
            if op == "b":
                return ("refuse", "token")
            if op == "g":
                if self.tokens == "yes" and self.owner is not None:
                    return ("ok", "w", 1)
                return ("refuse", "token")
            if self.owner is not None:
                return ("refuse", "contention")
            return ("ok", "w", 1)
        if m == "r":
            return ("refuse", "read-only")
        if op == "b":
            return ("refuse", "token")
        if op == "g" and self.tokens != "yes":
            return ("refuse", "token")
        return ("ok", m, c + 1)

    def good_token(self):
        if self.owner is not None:
            return self.owner_token
        if self.count and self.mode == "w" and self.cur_token is not None:
            return self.cur_token
        return self.last_token or b"never-issued-token"

    # -- fault: a physical lock taken on behalf of the subject is broken by another party
    def fault_targets(self):
        """Physical write locks (LockDir on disk) that the subject's first lock took and its last unlock must release."""
        if self.count != 1 or self.owner is not None:
            return []
        return sorted(k for k, m in self.H.items() if m == "W" and k not in self.base and k[0] in self.lockdirs
                      and os.path.isdir(os.path.join(k[0], "held")))

    def _break(self, key):
        from breezy import transport as _t
        from breezy.lockdir import LockDir

        other = LockDir(_t.get_transport_from_path(os.path.dirname(key[0])), os.path.basename(key[0]))
        holder = other.peek()
        if holder is None:
            self.ctx.discard("fault-target-not-on-disk")
        other.force_break(holder)
        take_events()

    # -- one call
    def step(self, op, seq, i, target=None):
        ctx = self.ctx
        tok = None
        if op == "g":
            tok = self.good_token()
            if self.owner is None and not (self.count and self.mode == "w"):
                pass  # stale or never issued: must be refused
        elif op == "b":
            tok = b"bogus-token-0000"
        want = self.expect(op, tok)
        if op == "F":
            self._break(target)
        take_events()
        H0 = dict(self.H)
        got, ret = "ok", None
        s = self.subject
        try:
            if op == "r":
                ret = s.lock_read()
            elif op == "w":
                ret = s.lock_write()
            elif op in ("g", "b"):
                ret = s.lock_write(token=tok)
            elif op == "t":
                ret = s.lock_tree_write()
            elif op in ("u", "F"):
                ret = s.unlock()
            elif op == "W":
                self._write_group_commit()
        except Exception as e:
            got = e
        ev = take_events()
        fails = []
        acq, rel = self._apply(ev, fails)
        c0, m0 = self.count, self.mode
        if op in ("r", "w", "g", "b", "t"):
            state = "from-unlocked" if c0 == 0 else "reentrant-%s" % {"r": "read", "w": "write", "t": "treewrite"}[m0]
        elif op in ("u", "F"):
            state = "not-held" if c0 == 0 else ("last" if c0 == 1 else "nested")
        else:
            state = "write-locked"
        key = "%s:%s:%s:" % (self.kind, OPNAME[op], state)
        d = {"kind": self.kind, "format": self.fmt, "scenario": self.scenario, "sequence": "".join(seq[:i + 1]), "step": i,
             "model_before": [m0, c0], "expected": list(want), "outcome": "ok" if got == "ok" else "%s: %s" % (type(got).__name__, str(got)[:150]),
             "underlying_lock_calls": [[os.path.relpath(k[0], self.dir), kd, x] for k, kd, x in ev]}
        ctx.count("real_steps")
        ctx.hist("op:%s:%s:%s" % (self.kind, OPNAME[op], want[0]))
        if op == "F":
            # the broken lock is gone from the disk whatever unlock() did; it must have been *attempted* exactly once
            tname = os.path.basename(os.path.dirname(target[0]))
            d["broken_lock"] = os.path.relpath(target[0], self.dir)
            ctx.count("real_fault_last_unlock")
            ctx.count("real_fault_%s_breaks_%s" % (self.kind, "own" if target[0] == self.own_path else "sub"))
            ctx.hist("fault:%s:broken-%s:%s" % (self.kind, tname, "no-error" if got == "ok" else type(got).__name__))
            tried = [x for k, kd, x in ev if k == target and kd == "X"]
            if target in self.H:
                del self.H[target]
                if len(tried) != 1:
                    ctx.fail(key + "broken-lock-release-attempts", "the broken physical lock was asked to unlock %d times, "
                             "expected once" % len(tried), d, stop=True)
            else:
                fails.append("broken-lock-reported-released")
            want = ("ok", None, 0)
        for f in fails:
            ctx.fail(key + f, "underlying lock calls out of order", d, stop=True)
        if op == "u" and c0 == 0 and self.sub_mode and got != "ok" and (self.H != H0 or not self.sub.is_locked()):
            # The refused extra unlock reached through to the sub-object and released the lock that the *caller*
            # holds on it (BzrBranch.unlock / WorkingTree.unlock unlock their repository / branch in a finally:
            # block even when they were not locked themselves).  Recorded under its own mechanism key; then the
            # caller's lock is put back so that the rest of the sequence can still be judged.
            subname = "repository" if self.kind == "branch" else "branch"
            ctx.count("finding_over_unlock_released_callers_lock")
            ctx.fail("%s:over-unlock:releases-%s-lock-held-by-caller" % (self.kind, subname),
                     "%s.unlock() on an unlocked %s raised %s but also unlocked the %s the caller had locked separately "
                     "(%s.is_locked()=%r, physical locks released: %s)"
                     % (type(s).__name__, self.kind, type(got).__name__, subname, type(self.sub).__name__, bool(self.sub.is_locked()),
                        sorted(os.path.relpath(k[0], self.dir) for k in H0 if k not in self.H)), d)
            (self.sub.lock_read if self.sub_mode == "r" else self.sub.lock_write)()
            self._apply(take_events(), fails)
            for f in fails:
                ctx.fail(key + "resync:" + f, "underlying lock calls out of order while restoring the context", d, stop=True)
        if want[0] == "refuse":
            ctx.count("real_refusals")
            if got == "ok":
                ctx.fail(key + "not-refused", "expected a refusal (%s), the call succeeded" % want[1], d, stop=True)
            ctx.hist("refusal:%s:%s:%s" % (self.kind, want[1], type(got).__name__))
            if self.H != H0:
                ctx.fail(key + "refusal-changed-physical-locks", "held physical locks changed across a refused call", d, stop=True)
        else:
            if got != "ok" and op != "F":
                ctx.fail(key + "raised-" + type(got).__name__, "expected success: %s" % d["outcome"], d, stop=True)
            _w, m1, c1 = want
            if op == "W":
                ctx.count("packrepo_write_cycles")
                if not (acq >= 1 and acq == rel and self.H == H0):
                    ctx.fail(key + "physical-lock-not-balanced", "write-group commit: %d acquires, %d releases" % (acq, rel), d, stop=True)
            elif c0 == 0:  # 0 -> 1
                ctx.count("real_transition_0_1")
                if rel:
                    ctx.fail(key + "physical-release-on-first-lock", "%d releases while taking the first lock" % rel, d, stop=True)
                own = [mm for k, mm in self.H.items() if k[0] == self.own_path and k not in self.base]
                wantphys = "R" if m1 == "r" else "W"
                if self.kind == "packrepo" and m1 == "w":
                    ctx.hist("packrepo:write-lock-physical:%s" % (",".join(sorted(own)) or "none"))
                elif not own:
                    ctx.fail(key + "physical-lock-not-taken", "first lock did not reach the object's own physical lock", d, stop=True)
                elif own[0][0] != wantphys:
                    ctx.fail(key + "physical-lock-wrong-mode", "own physical lock taken as %s, wanted %s" % (own[0], wantphys), d, stop=True)
                elif own[0] == "Wtok":
                    ctx.count("token_acquire_via_owner")
                self.H_locked = dict(self.H)
                if op in ("w", "g"):
                    self.cur_token = self._token_of(ret)
                    if self.cur_token is not None:
                        self.last_token = self.cur_token
            elif c1 == 0:  # 1 -> 0
                ctx.count("real_transition_1_0")
                if acq:
                    ctx.fail(key + "physical-acquire-on-last-unlock", "%d acquires while releasing the last lock" % acq, d, stop=True)
                if self.H != self.base:
                    ctx.fail(key + "physical-lock-not-released", "still held after the matching last unlock: %s"
                             % sorted(os.path.relpath(k[0], self.dir) for k in self.H if k not in self.base), d, stop=True)
                self.cur_token = None
            else:
                ctx.count("real_reentrant_steps")
                if acq or rel:
                    ctx.fail(key + ("physical-acquire-while-held" if acq else "physical-release-while-still-held"),
                             "%d acquires / %d releases on a nested call" % (acq, rel), d, stop=True)
            self.mode, self.count = m1, c1
        if self.count > 0 and self.H_locked is not None and self.H != self.H_locked:
            ctx.fail(key + "physical-locks-changed-while-held", "set of held physical locks differs from the one taken at the first lock", d, stop=True)
        # public view of the state
        if bool(s.is_locked()) != (self.count > 0):
            ctx.fail(key + "is_locked-wrong", "is_locked()=%r, model count %d" % (s.is_locked(), self.count), d, stop=True)
        if self.sub is not None:
            sub_locked = bool(self.sub.is_locked())
            if sub_locked != (self.count > 0 or bool(self.sub_mode)):
                ctx.fail(key + "sub-object-lock-state-wrong", "%s.is_locked()=%r with model count %d, context %s"
                         % (type(self.sub).__name__, sub_locked, self.count, self.sub_mode), d, stop=True)
        self._check_disk(OPNAME[op] + ":" + state, d)
        # /proc/locks is comparatively expensive: always look when the expected OS lock changes or a call was
        # refused, and on a third of the other calls
        if c0 == 0 or self.count == 0 or want[0] == "refuse" or ctx.rng.random() < 0.34:
            self._check_oslock(OPNAME[op] + ":" + state, d)

    def _write_group_commit(self):
        r = self.subject
        self.nwrite += 1
        r.start_write_group()
        try:
            r.texts.add_lines((b"c28-file", b"c28-rev-%d-%d" % (self.ctx.index, self.nwrite)), (), [b"line %d\n" % self.nwrite])
            r.commit_write_group()
        except BaseException:
            r.abort_write_group()
            raise

    # -- sequence generation (depends on the model state only)
    def gen_op(self, rng):
        c, m = self.count, self.mode
        al = self.alphabet
        if c == 0:
            w = {"r": 4, "w": 4, "t": 4, "g": 2, "b": 1, "u": 1}
        elif c >= 6:
            w = {"r": 1, "w": 1, "t": 1, "g": 1, "b": 1, "u": 8}
        else:
            w = {"r": 3, "w": 3, "t": 3, "g": 2, "b": 1, "u": 5, "W": 2 if m == "w" else 0}
        ops = [o for o in al if w.get(o, 0)]
        return rng.choices(ops, [w[o] for o in ops])[0]


def _new_rig(ctx, kind, fmt, scenario):
    try:
        rig = Rig(ctx, kind, fmt, scenario)
        rig.setup()
    except OSError as e:  # scratch space trouble is not a verdict; anything else while building a fresh tree is
        ctx.discard("rig-setup-failed:%s:%s" % (kind, type(e).__name__))
    return rig


def _maybe_fault(ctx, rig):
    """Turn the coming last unlock into a faulty one?  -> the physical lock to break, or None."""
    if rig.count != 1:
        return None
    targets = rig.fault_targets()
    if not targets or ctx.rng.random() >= P_FAULT:
        return None
    return ctx.rng.choice(targets)


def case_real(ctx, k):
    kind, fmt, scenario = KINDS[k % len(KINDS)]
    rig = None
    nseq = SEQS_PER_CASE[ctx.tier]
    for _s in range(nseq):
        if rig is None:
            rig = _new_rig(ctx, kind, fmt, scenario)
        n = ctx.rng.randint(4, 40)
        seq = []
        flags = set()
        faulted = False
        for i in range(n):
            op = rig.gen_op(ctx.rng)
            target = _maybe_fault(ctx, rig) if op == "u" else None
            if target is not None:
                op = "F"
            seq.append(op)
            c0 = rig.count
            rig.step(op, seq, i, target)
            _flag(flags, c0, rig.count, op)
            if op == "F":
                faulted = True
                break
        while rig.count > 0:  # drain: every remaining unlock is judged as well
            target = _maybe_fault(ctx, rig)
            op = "u" if target is None else "F"
            seq.append(op)
            c0 = rig.count
            rig.step(op, seq, len(seq) - 1, target)
            _flag(flags, c0, rig.count, op)
            faulted = faulted or op == "F"
        if ctx.rng.random() < 0.5:  # one unlock too many
            seq.append("u")
            rig.step("u", seq, len(seq) - 1)
            flags.add("x")
        ctx.count("real_seq_" + kind)
        ctx.note(("B", kind, fmt, scenario, "".join(seq)), nontrivial={"up", "down"} <= flags and ("re" in flags or "x" in flags),
                 sample={"part": "B", "kind": kind, "format": fmt, "scenario": scenario, "sequence": "".join(seq),
                         "legend": OPNAME} if _s == 0 and k % 9 == 0 else None)
        if faulted:
            # after an injected fault the objects are not used again: release the surrounding context, judge what is
            # left, and continue on a fresh tree
            ctx.count("real_seq_ended_by_fault")
            rig.teardown()
            rig = None
    if rig is not None:
        rig.teardown()


def _flag(flags, c0, c1, op):
    if c0 == 0 and c1 == 1:
        flags.add("up")
    elif c0 == 1 and c1 == 0:
        flags.add("down")
    elif c0 == c1 and op != "W":
        flags.add("x")
    else:
        flags.add("re")


def case(ctx):
    install_recorders()
    ne = N_EXH[ctx.tier]
    if ctx.index < ne:
        case_counted(ctx, ctx.index, ne)
    else:
        case_real(ctx, ctx.index - ne)
