"""C07 - autopack planning is well formed for every pack size distribution.

Deciding step: a contract (hand-written pre/post-condition wrapper, installed by
attribute rebinding on ``RepositoryPackCollection``) around the *real*
``plan_autopack_combinations`` / ``_do_autopack``, plus direct law checks on the
real ``pack_distribution`` / ``_max_pack_count``.  The planner always runs on a
real pack collection object of a real repository.

Three kinds of case (selected by case index):
  * exhaustive  - every multiset of positive per-pack revision counts with
                  total <= T and <= K packs (quick T=40,K=12; thorough T=52,K=16),
                  sharded over the exhaustive case indices;
  * random      - large multisets (totals up to ~10^6, up to 60 packs) in shapes
                  that sit on the planner's bucket boundaries;
  * live        - real commits / fetches / overlapping fetches / signature-only
                  packs in real repositories so that autopack really fires; the
                  same contract judges every live planner call, an assumption
                  monitor checks key_count() == sum of pack revision counts, and
                  the packs before/after each executed plan are counted.
"""
import os

ID = "C07"
LEVEL = "exploration"
RUST = []  # every anchor of this property is Python; no crate needs rebuilding
TECHNIQUE = ("contract monitor (pre/post-conditions with input snapshot) rebound onto the real "
             "RepositoryPackCollection.plan_autopack_combinations/_do_autopack; exhaustive + random direct "
             "inputs on a real collection object, and live autopacks in real repositories")
RULE = ("exhaustive: every multiset of positive per-pack revision counts with total<=T, <=K packs (quick 40/12, "
        "thorough 52/16), distribution = real pack_distribution(total) as _do_autopack passes it; random: shaped "
        "multisets, totals to ~10^6, <=60 packs; live: random programs of commits, fetches, overlapping (stale-handle) "
        "fetches and signature-only packs on 2a / pack-0.92 / 1.9 repositories, one evaluation per real _do_autopack "
        "call. non-trivial = more packs than one (direct) / planner actually invoked (live); distinct = distinct "
        "multiset (direct) or distinct (counts, total, packs-before) observation (live)")
EXH = {"quick": (40, 12), "thorough": (52, 16)}
N_EXH = {"quick": 16, "thorough": 32}
N_RND = {"quick": 16, "thorough": 64}
N_LIVE = {"quick": 16, "thorough": 320}
RND_PER_CASE = {"quick": 1500, "thorough": 4000}
CASES = {t: N_EXH[t] + N_RND[t] + N_LIVE[t] for t in ("quick", "thorough")}
BUDGET_S = {"quick": 90, "thorough": 1200}
MIN_EVALS = {"quick": 60000, "thorough": 600000}
FLOORS = {
    "quick": {"contract_plan_direct": 173000, "contract_plan_live": 600, "contract_autopack_live": 2500,
              "live_plan_executed": 250, "assumption_keycount_eq_sum": 600, "law_distribution": 173000,
              "law_max_pack_count": 173000, "live_dup_revisions_seen": 40, "live_zero_rev_pack_seen": 400},
    "thorough": {"contract_plan_direct": 1600000, "contract_plan_live": 20000, "contract_autopack_live": 70000,
                 "live_plan_executed": 8000, "assumption_keycount_eq_sum": 20000, "law_distribution": 1600000,
                 "law_max_pack_count": 1600000, "live_dup_revisions_seen": 2000, "live_zero_rev_pack_seen": 20000},
}
EXHAUSTIVE = {"quick": False, "thorough": False}  # exhaustive only within the stated bound; random/live parts sampled
ASSUMPTIONS = [
    "input class of the planner = what _do_autopack can pass: distribution == pack_distribution(total) and "
    "total == sum of the per-pack revision counts (CombinedGraphIndex.key_count() sums its children, so revisions "
    "duplicated across packs are counted once per pack; checked live by the assumption monitor, never violated)",
    "'revisions duplicated across packs' is explored only live (overlapping fetches through a stale second handle); "
    "an arbitrary total < sum(counts) is not a reachable planner input and is not fed",
    "post-plan pack count is computed as len(input) - len(planned packs) + 1; live it is also observed on the real "
    "collection (len(_names) before/after the executed plan, packs with zero revisions excluded from the bound as "
    "_do_autopack excludes them from planning)",
    "an empty plan while the pack count exceeds the digit sum is not forbidden by the statement: counted "
    "(hist empty_plan_over_bound), not failed; it was never observed",
    "live half is single-process except for the deliberate stale-handle overlap (two repository objects, sequential)",
]

# ----------------------------------------------------------------------------- oracle


def digit_sum(n):
    s = 0
    while n:
        s += n % 10
        n //= 10
    return s


def judge_plan(snap, dist_ok, result):
    """Post-condition of plan_autopack_combinations.

    snap: [(count, pack)] as passed in (snapshot); dist_ok: the distribution passed was
    pack_distribution(sum(counts)); result: what the planner returned.
    Returns [(key, msg)].
    """
    fails = []
    counts = {}
    for c, p in snap:
        counts[id(p)] = c
    total = sum(c for c, _ in snap)
    ds = digit_sum(total)
    if not isinstance(result, list) or len(result) > 1:
        return [("plan:not-a-single-operation", "result %r" % (_short(result),))]
    if not result:
        return fails
    op = result[0]
    try:
        n, packs = op
        packs = list(packs)
    except Exception:
        return [("plan:malformed-operation", "operation %r" % (_short(op),))]
    if len(packs) < 2:
        fails.append(("plan:fewer-than-two-packs", "plan combines %d pack(s)" % len(packs)))
    ids = [id(p) for p in packs]
    if len(set(ids)) != len(ids) or any(i not in counts for i in ids):
        fails.append(("plan:foreign-or-duplicate-pack", "planned packs are not a sub-multiset of the input"))
    else:
        want = sum(counts[i] for i in ids)
        if n != want:
            fails.append(("plan:revision-sum-wrong", "plan says %r revisions, combined packs hold %d" % (n, want)))
    if dist_ok:
        after = len(snap) - len(packs) + 1
        if len(snap) <= ds:
            fails.append(("plan:planned-within-bound", "%d packs <= digit sum %d of total %d, yet a plan was made"
                          % (len(snap), ds, total)))
        elif after > ds:
            fails.append(("plan:post-count-exceeds-digit-sum", "%d packs after the plan > digit sum %d of total %d"
                          % (after, ds, total)))
    return fails


def _short(x):
    r = repr(x)
    return r if len(r) < 300 else r[:300] + "..."


# ----------------------------------------------------------------------------- contract installation

_SINK = []          # records produced by the wrappers, drained by the running case
_STATE = {"direct": False, "concurrent": False, "stack": [], "installed": False, "inject": None}


def install_contracts():
    """Rebind the contract wrappers on the class (idempotent). Also usable by other checks."""
    if _STATE["installed"]:
        return
    from breezy.bzr.pack_repo import RepositoryPackCollection as RPC

    orig_plan = RPC.plan_autopack_combinations
    orig_auto = RPC._do_autopack
    orig_dist = RPC.pack_distribution
    _STATE.update(installed=True, orig_plan=orig_plan, orig_auto=orig_auto, orig_dist=orig_dist)

    def plan_autopack_combinations(self, existing_packs, pack_distribution):
        try:
            snap = [(c, p) for c, p in existing_packs]
            dist0 = list(pack_distribution)
        except Exception:
            return orig_plan(self, existing_packs, pack_distribution)
        rec = {"kind": "plan", "counts": [c for c, _ in snap], "dist": dist0, "direct": _STATE["direct"]}
        try:
            result = orig_plan(self, existing_packs, pack_distribution)
        except BaseException as e:
            rec["exc"] = "%s: %s" % (type(e).__name__, str(e)[:200])
            rec["exc_type"] = type(e).__name__
            _SINK.append(rec)
            if _STATE["stack"]:
                _STATE["stack"][-1].append(rec)
            raise
        inj = _STATE.get("inject")
        if inj is not None and result:
            # (restart scenario) another handle repacks the repository between this plan and its execution
            _STATE["inject"] = None
            try:
                inj()
            except Exception as e:
                rec["inject_error"] = repr(e)[:200]
        try:
            total = sum(rec["counts"])
            positive = all(isinstance(c, int) and c > 0 for c in rec["counts"])
            dist_ok = positive and dist0 == orig_dist(self, total)
            rec["dist_ok"] = dist_ok
            rec["fails"] = judge_plan(snap, dist_ok, result)
            rec["result"] = [[op[0], len(op[1])] for op in result] if isinstance(result, list) else repr(result)
            rec["npacks_planned"] = len(result[0][1]) if result else 0
            if not _STATE["direct"]:
                # assumption monitor (live): the collection's total equals the sum the planner sees,
                # and each tuple's count is the pack's own revision count
                try:
                    rec["key_count"] = self.revision_index.combined_index.key_count()
                    rec["tuple_counts_match"] = all(c == p.get_revision_count() for c, p in snap)
                except Exception as e:  # fake packs in somebody's unit test
                    rec["key_count"] = None
                    rec["assume_err"] = repr(e)[:100]
        except Exception as e:  # never let the monitor break the code under test
            rec["monitor_error"] = repr(e)[:300]
        _SINK.append(rec)
        if _STATE["stack"]:
            _STATE["stack"][-1].append(rec)
        return result

    def _do_autopack(self, *a, **kw):
        rec = {"kind": "autopack", "concurrent": _STATE["concurrent"]}
        try:
            rec["n0"] = len(self._names)
            rec["total"] = self.revision_index.combined_index.key_count()
            rc = [p.get_revision_count() for p in self.all_packs()]
            rec["zero"] = sum(1 for c in rc if c == 0)
            rec["counts0"] = sorted(rc, reverse=True)
        except Exception as e:
            rec["monitor_error"] = repr(e)[:300]
        plans = []
        _STATE["stack"].append(plans)
        try:
            try:
                r = orig_auto(self, *a, **kw)
            finally:
                _STATE["stack"].pop()
        except BaseException as e:
            rec["exc_type"] = type(e).__name__
            rec["exc"] = "%s: %s" % (type(e).__name__, str(e)[:200])
            rec["plans"] = plans
            _SINK.append(rec)
            raise
        try:
            rec["n1"] = len(self._names)
            rec["executed"] = bool(r)
            rec["plans"] = plans
        except Exception as e:
            rec["monitor_error"] = repr(e)[:300]
        _SINK.append(rec)
        return r

    RPC.plan_autopack_combinations = plan_autopack_combinations
    RPC._do_autopack = _do_autopack


def worker_init(tier):
    install_contracts()


def drain(ctx, program=None):
    """Turn the wrapper records into counters / failures. Returns the drained records."""
    recs = list(_SINK)
    del _SINK[:]
    for rec in recs:
        if "monitor_error" in rec:
            ctx.fail("monitor:error", rec["monitor_error"], {"rec": _slim(rec)})
            continue
        if rec["kind"] == "plan":
            _judge_plan_rec(ctx, rec, program)
        else:
            _judge_autopack_rec(ctx, rec, program)
    return recs


def _slim(rec):
    d = {k: v for k, v in rec.items() if k not in ("plans",)}
    if "counts" in d and len(d["counts"]) > 80:
        d["counts"] = d["counts"][:80] + ["..."]
    if "plans" in rec:
        d["plans"] = [{k: v for k, v in p.items() if k in ("counts", "dist", "result", "exc")} for p in rec["plans"]]
    return d


def _judge_plan_rec(ctx, rec, program):
    live = not rec["direct"]
    ctx.count("contract_plan_live" if live else "contract_plan_direct")
    detail = {"input_counts": rec["counts"], "distribution": rec["dist"], "result": rec.get("result"),
              "live": live}
    if program is not None:
        detail["program"] = program
    if "exc" in rec:
        if live and rec.get("exc_type") in ("RetryAutopack", "RetryWithNewPacks"):
            ctx.hist("live:retry")
            return
        ctx.fail("plan:exception:%s" % rec["exc_type"], rec["exc"], detail)
        return
    for key, msg in rec["fails"]:
        ctx.fail(("live:" if live else "") + key, msg, detail)
    total = sum(rec["counts"])
    if not rec.get("dist_ok"):
        ctx.hist("plan:foreign-distribution")
    elif not rec["result"] and len(rec["counts"]) > max(1, digit_sum(total)):
        ctx.hist("empty_plan_over_bound")
    ctx.hist("plan:%s:%s" % ("live" if live else "direct", "nonempty" if rec["result"] else "empty"))
    if live:
        if rec.get("key_count") is not None:
            ctx.count("assumption_keycount_eq_sum")
            ctx.check(rec["key_count"] == total, "live:input-class:key_count-differs-from-sum",
                      "key_count()=%r but the planner input sums to %d" % (rec["key_count"], total), detail)
            ctx.check(rec.get("tuple_counts_match"), "live:input-class:tuple-count-not-pack-count",
                      "a (count, pack) tuple disagrees with pack.get_revision_count()", detail)
            ctx.check(rec.get("dist_ok"), "live:input-class:distribution-not-pack_distribution",
                      "distribution passed live is not pack_distribution(total)", detail)


def _judge_autopack_rec(ctx, rec, program):
    ctx.count("contract_autopack_live")
    plans = rec.get("plans", [])
    detail = {"packs_before": rec.get("n0"), "packs_after": rec.get("n1"), "total": rec.get("total"),
              "zero_revision_packs": rec.get("zero"), "counts_before": rec.get("counts0"),
              "plans": [{"counts": p["counts"], "result": p.get("result"), "exc": p.get("exc")} for p in plans]}
    if program is not None:
        detail["program"] = program
    if "exc" in rec:
        if rec["exc_type"] in ("RetryAutopack", "RetryWithNewPacks"):
            ctx.hist("live:autopack-retry")
            return
        if not any("exc" in p for p in plans):  # planner exceptions are already judged
            ctx.hist("live:autopack-raised:%s" % rec["exc_type"])
        return
    total, n0, n1, zero = rec["total"], rec["n0"], rec["n1"], rec["zero"]
    ds = max(1, digit_sum(total))
    if rec["counts0"] and len(set(rec["counts0"])) < len(rec["counts0"]):
        ctx.hist("live:equal-sized-packs")
    if zero:
        ctx.count("live_zero_rev_pack_seen")
    if not plans:
        ctx.hist("live:trigger:not-needed")
        ctx.check(n0 <= ds, "live:trigger:skipped-while-over-bound",
                  "autopack returned without planning although %d packs > digit sum %d of %d revisions" % (n0, ds, total),
                  detail)
        ctx.check(n1 == n0, "live:trigger:packs-changed-without-plan", "packs %d -> %d without a plan" % (n0, n1), detail)
        return
    plan = plans[-1]
    ctx.distinct("live_planner_inputs", (plan["counts"], total))
    if plan.get("result"):
        k = plan["npacks_planned"]
        if rec["executed"] and not rec["concurrent"]:
            ctx.count("live_plan_executed")
            ctx.check(n1 == n0 - k + 1, "live:execute:pack-count-mismatch",
                      "executed plan over %d of %d packs left %d packs (expected %d)" % (k, n0, n1, n0 - k + 1), detail)
            ctx.check(n1 - zero <= ds, "live:execute:post-count-exceeds-digit-sum",
                      "%d revision-bearing packs after autopack > digit sum %d of %d revisions" % (n1 - zero, ds, total), detail)
        else:
            ctx.hist("live:plan-not-executed-or-concurrent")
    else:
        ctx.hist("live:plan-empty")
        if not rec["concurrent"]:
            ctx.check(n1 == n0, "live:execute:packs-changed-with-empty-plan", "packs %d -> %d with an empty plan" % (n0, n1), detail)


# ----------------------------------------------------------------------------- direct halves

class FakePack:
    """Stand-in for a Pack: the planner only sorts (count, pack) tuples and moves the objects around."""

    __slots__ = ("name", "n")

    def __init__(self, name, n):
        self.name = name
        self.n = n

    def get_revision_count(self):
        return self.n

    def __lt__(self, other):
        return self.name < other.name

    def __gt__(self, other):
        return self.name > other.name

    def __repr__(self):
        return "P(%s:%d)" % (self.name, self.n)


_COLL = {}


def real_collection():
    """A real RepositoryPackCollection of a real 2a repository (kept for the worker's life)."""
    if "pc" not in _COLL:
        from vf import boot
        from breezy.controldir import format_registry

        d = boot.fresh_dir("c07coll")
        repo = format_registry.make_controldir("2a").initialize(d).create_repository()
        _COLL["repo"] = repo
        _COLL["pc"] = repo._pack_collection
    return _COLL["pc"]


def partitions(total_max, kmax):
    """All non-increasing lists of positive ints with sum <= total_max and <= kmax parts."""
    cur = []

    def rec(rem, mx, k):
        if cur:
            yield cur
        if k == 0:
            return
        for v in range(min(rem, mx), 0, -1):
            cur.append(v)
            yield from rec(rem - v, v, k - 1)
            cur.pop()

    yield from rec(total_max, total_max, kmax)


def _is_pow10(x):
    s = str(x)
    return isinstance(x, int) and s[0] == "1" and s.strip("0") == "1"


def laws_distribution(ctx, pc, total):
    """pack_distribution / _max_pack_count against the digit-sum statement."""
    try:
        dist = pc.pack_distribution(total)
        mx = pc._max_pack_count(total)
    except Exception as e:
        ctx.fail("distribution:exception:%s" % type(e).__name__, repr(e)[:200], {"total": total})
        return None
    ds = digit_sum(total)
    ctx.count("law_max_pack_count")
    ctx.check(mx == max(1, ds), "max_pack_count:not-digit-sum", "_max_pack_count(%d)=%r, digit sum %d" % (total, mx, ds),
              {"total": total})
    ctx.count("law_distribution")
    ok = isinstance(dist, list) and sum(dist) == total and len(dist) == max(1, ds)
    ctx.check(ok, "distribution:not-a-digit-decomposition",
              "pack_distribution(%d)=%s: sum %s, len %s, digit sum %d" % (total, _short(dist), sum(dist) if isinstance(dist, list) else "?",
                                                                         len(dist) if isinstance(dist, list) else "?", ds), {"total": total})
    if ok and total:
        ctx.check(all(_is_pow10(x) for x in dist), "distribution:bucket-not-power-of-ten", "pack_distribution(%d)=%s" % (total, _short(dist)),
                  {"total": total})
    return dist


def run_direct(ctx, pc, counts, order, sample=False):
    """One direct evaluation: the real planner (through the installed contract) on one multiset."""
    total = sum(counts)
    dist = laws_distribution(ctx, pc, total)
    if dist is None:
        return
    packs = [(c, FakePack("p%03d" % i, c)) for i, c in enumerate(counts)]
    if order == 1:
        packs.reverse()
    elif order == 2:
        packs = packs[len(packs) // 2:] + packs[:len(packs) // 2]
    _STATE["direct"] = True
    result = None
    try:
        try:
            result = pc.plan_autopack_combinations(packs, dist)
        except Exception:
            pass  # recorded by the contract wrapper as plan:exception:<Type>
    finally:
        _STATE["direct"] = False
    recs = drain(ctx)
    if not any(r["kind"] == "plan" for r in recs):
        ctx.fail("monitor:contract-not-invoked", "the rebound contract did not see the direct call")
    smp = None
    if sample:
        smp = {"counts": list(counts), "total": total, "distribution": pc.pack_distribution(total),
               "plan": [[op[0], [p.name for p in op[1]]] for op in result] if result else result}
    ctx.note(tuple(counts), nontrivial=len(counts) > 1, sample=smp)


def case_exhaustive(ctx, shard, nshards):
    pc = real_collection()
    T, K = EXH[ctx.tier]
    idx = 0
    for p in partitions(T, K):
        idx += 1
        if idx % nshards != shard:
            continue
        run_direct(ctx, pc, list(p), idx % 3, sample=(idx % 30011 == 7))
    ctx.hist("exhaustive_shards_completed")


def gen_random_counts(rng, pc):
    style = rng.randrange(7)
    mag = rng.choice([1, 1, 2, 2, 3, 3, 4, 5, 6])
    if style == 0:  # uniform counts
        k = rng.randint(1, 60)
        hi = 10 ** rng.randint(1, mag)
        return [rng.randint(1, hi) for _ in range(k)]
    if style == 1:  # around powers of ten
        k = rng.randint(2, 60)
        out = []
        for _ in range(k):
            b = 10 ** rng.randint(0, mag)
            out.append(max(1, b * rng.randint(1, 9) + rng.choice([-1, 0, 0, 1])))
        return out
    if style == 2 or style == 3:  # perturbations of the ideal distribution itself
        total = rng.randint(1, 10 ** mag)
        d = list(pc.pack_distribution(total))[:58]
        for _ in range(rng.randint(1, 6)):
            if not d:
                break
            i = rng.randrange(len(d))
            if d[i] > 1 and rng.random() < 0.7 and len(d) < 60:  # split a bucket
                a = rng.randint(1, d[i] - 1)
                d[i:i + 1] = [a, d[i] - a]
            elif len(d) > 1:  # merge two buckets
                j = rng.randrange(len(d))
                if j != i:
                    d[i] += d[j]
                    del d[j]
        while len(d) < 60 and rng.random() < 0.5:
            d.append(rng.choice([1, 1, 1, 2, 9, 10, 11]))
        return d or [1]
    if style == 4:  # many singles plus a few big ones
        out = [1] * rng.randint(1, 40)
        out += [rng.randint(1, 10 ** mag) for _ in range(rng.randint(0, 6))]
        out += [10 ** rng.randint(0, mag) for _ in range(rng.randint(0, 6))]
        return out
    if style == 5:  # equal sizes
        v = rng.choice([1, 2, 5, 9, 10, 11, 50, 99, 100, 101, 999, 1000, 12345])
        return [v] * rng.randint(1, 60)
    # style 6: geometric
    k = rng.randint(2, 40)
    out, v = [], rng.randint(1, 10 ** mag)
    for _ in range(k):
        out.append(max(1, v))
        v = v * rng.choice([1, 1, 2, 3, 9, 10]) // rng.choice([1, 2, 3, 10, 10])
    return out


def case_random(ctx):
    pc = real_collection()
    for i in range(RND_PER_CASE[ctx.tier]):
        counts = gen_random_counts(ctx.rng, pc)[:60]
        ctx.rng.shuffle(counts)
        ctx.hist("random:total-digits:%d" % len(str(sum(counts))))
        run_direct(ctx, pc, counts, 0, sample=(i == 3))


# ----------------------------------------------------------------------------- live half

def gen_live_program(rng, tier):
    n = rng.randint(60, 130) if tier == "quick" else rng.randint(60, 260)
    prog = []
    for _ in range(n):
        x = rng.random()
        if x < 0.30:
            prog.append(["fetch", rng.choice([1, 1, 2, 3, 5, 8, 9, 10, 11, 15])])
        elif x < 0.55:
            prog.append(["tcommit", rng.randint(1, 6)])
        elif x < 0.70:
            prog.append(["scommit", rng.randint(1, 12)])
        elif x < 0.82:
            prog.append(["overlap", rng.randint(1, 6), rng.randint(1, 6)])
        elif x < 0.92:
            prog.append(["sig"])
        elif x < 0.97:
            prog.append(["reopen"])
        else:
            prog.append(["packall"])
    return prog


class Live:
    def __init__(self, ctx, fmt_name):
        from breezy.controldir import ControlDir, format_registry

        self.ctx = ctx
        d = ctx.tmp("c07live")
        self.fmt = format_registry.make_controldir(fmt_name)
        self.S = ControlDir.create_standalone_workingtree(os.path.join(d, "S"), format=self.fmt)
        self.srevs = []
        self.tpath = os.path.join(d, "T")
        os.mkdir(self.tpath)
        self.fmt.initialize(self.tpath).create_repository(shared=True)
        bpath = os.path.join(self.tpath, "b1")
        br = ControlDir.create_branch_convenience(bpath, force_new_tree=True, format=self.fmt)
        self.B1 = br.controldir.open_workingtree()
        self.ptr = 0  # number of S revisions already in T
        self.nt = 0
        self.T = None

    def repo(self):
        from breezy.repository import Repository

        if self.T is None:
            self.T = Repository.open(self.tpath)
        return self.T

    def scommit(self, k):
        for _ in range(k):
            i = len(self.srevs)
            self.srevs.append(self.S.commit("s%d" % i, rev_id=b"s-%d-%d" % (self.ctx.index, i), allow_pointless=True))

    def need(self, n):
        if len(self.srevs) < n:
            self.scommit(n - len(self.srevs))

    def fetch(self, j):
        self.need(self.ptr + j)
        self.repo().fetch(self.S.branch.repository, revision_id=self.srevs[self.ptr + j - 1])
        self.ptr += j

    def tcommit(self, k):
        for _ in range(k):
            self.B1.commit("t%d" % self.nt, rev_id=b"t-%d-%d" % (self.ctx.index, self.nt), allow_pointless=True)
            self.nt += 1

    def overlap(self, a, b):
        """Two handles, the second one stale: its fetch re-copies what the first just fetched."""
        from breezy.repository import Repository

        self.need(self.ptr + a + b)
        src = self.S.branch.repository
        A = Repository.open(self.tpath)
        B = Repository.open(self.tpath)
        B.lock_write()
        try:
            B.has_revision(self.srevs[self.ptr + a - 1])  # loads pack-names now
            A.fetch(src, revision_id=self.srevs[self.ptr + a - 1])
            _STATE["concurrent"] = True
            try:
                B.fetch(src, revision_id=self.srevs[self.ptr + a + b - 1])
            finally:
                _STATE["concurrent"] = False
        finally:
            B.unlock()
        self.ptr += a + b
        self.T = None

    def restart(self):
        """A stale handle whose next pack makes ten: its autopack plans over the packs it loaded, finds them repacked by
        another handle meanwhile (which also added a revision), reloads and has to plan again for the new total."""
        from breezy.repository import Repository

        while True:
            counts, total, nrev = self.observe()
            if len(counts) >= 9:
                break
            self.fetch(1)  # (an autopack may fire on the way; keep going until nine packs are there)
            if self.ptr > 60:
                self.ctx.hist("live:restart:could-not-reach-nine-packs")
                return
        self.need(self.ptr + 2)
        src = self.S.branch.repository
        A = Repository.open(self.tpath)
        B = Repository.open(self.tpath)
        B.lock_write()
        try:
            B.has_revision(self.srevs[0])  # loads pack-names now
            fired = []

            def other_handle():
                # runs right after B planned its autopack: A adds the tenth pack of its own view and autopacks everything
                fired.append(1)
                st, _STATE["stack"] = _STATE["stack"], []
                try:
                    A.fetch(src, revision_id=self.srevs[self.ptr + 1])
                finally:
                    _STATE["stack"] = st
            _STATE["inject"] = other_handle
            _STATE["concurrent"] = True
            try:
                B.fetch(src, revision_id=self.srevs[self.ptr])
            finally:
                _STATE["concurrent"] = False
                _STATE["inject"] = None
            if fired:
                self.ctx.count("live_restart_after_concurrent_autopack")
        finally:
            B.unlock()
        self.ptr += 2 if fired else 1  # (the other handle fetched one revision more - only if B's autopack planned)
        self.T = None

    def sig(self):
        if not self.srevs or self.ptr == 0:
            self.fetch(1)
        r = self.repo()
        revid = self.srevs[self.ctx.rng.randrange(self.ptr)]
        with r.lock_write():
            r.start_write_group()
            try:
                r.add_signature_text(revid, b"-----BEGIN PSEUDO SIGNATURE-----\n%d\n" % self.ctx.rng.randrange(10 ** 9))
                r.commit_write_group()
            except BaseException:
                r.abort_write_group()
                raise

    def packall(self):
        # Repository.pack() (not autopack) on an already fully packed 2a repository re-creates a pack with the
        # same content hash and refuses ("Pack ... already exists"); that is outside this property, so only
        # repack when there is something to combine.
        # The same refusal happens when the combined content equals an existing pack (duplicated revisions).
        counts, total, nrev = self.observe()
        if len(counts) > 1 and total == nrev:
            self.repo().pack()
        else:
            self.ctx.hist("live:packall-skipped")

    def observe(self):
        """Look at the repository from the outside with a fresh object."""
        from breezy.repository import Repository

        r = Repository.open(self.tpath)
        with r.lock_read():
            pc = r._pack_collection
            pc.ensure_loaded()
            counts = sorted((p.get_revision_count() for p in pc.all_packs()), reverse=True)
            total = pc.revision_index.combined_index.key_count()
            nrev = len(r.all_revision_ids())
        return counts, total, nrev


def case_live(ctx, k):
    fmt_name = ("2a", "2a", "2a", "pack-0.92", "2a", "1.9")[k % 6]
    prog = gen_live_program(ctx.rng, ctx.tier)
    if ctx.rng.random() < 0.35:
        prog = list(prog)
        prog.insert(ctx.rng.randrange(0, min(3, len(prog)) + 1), ("restart",))
    try:
        live = Live(ctx, fmt_name)
    except OSError as e:  # scratch space trouble is not a verdict; anything else while building fresh repositories is
        ctx.discard("live-setup-failed:%s" % type(e).__name__)
    ctx.hist("live:format:%s" % fmt_name)
    del _SINK[:]
    want_revs = 0
    for step, op in enumerate(prog):
        ctx.hist("live:op:%s" % op[0])
        try:
            getattr(live, op[0])(*op[1:]) if op[0] != "reopen" else setattr(live, "T", None)
        except Exception as e:
            recs = drain(ctx, {"format": fmt_name, "program": prog[:step + 1]})
            if any("exc" in r for r in recs if r["kind"] == "plan"):
                return  # the planner blew up and was judged; the repository objects are not reusable
            if any(r["kind"] == "autopack" and r.get("exc_type") == "BzrError" and "already exists" in r.get("exc", "")
                   for r in recs):
                # Executing (not planning) a well-formed plan failed: with revisions duplicated across packs the
                # combined pack can be byte-identical to one of its inputs in the knit-pack formats, and
                # RepositoryPackCollection.allocate refuses the name.  Outside this property's statement (the plan
                # itself was judged above); counted and described in fixes/C07-note-*.md.  The case ends here
                # because the repository would refuse every further autopack the same way.
                ctx.count("live_execution_refused_pack_already_exists")
                ctx.hist("live:execution-refused:pack-already-exists:%s" % fmt_name)
                return
            raise
        recs = drain(ctx, {"format": fmt_name, "program": prog[:step + 1]})
        for r in recs:
            if r["kind"] != "autopack" or "exc" in r:
                continue
            planned = bool(r.get("plans"))
            ctx.note(("live", fmt_name, r.get("counts0"), r.get("total"), [p.get("result") for p in r.get("plans", [])]),
                     nontrivial=planned,
                     sample={"live": True, "format": fmt_name, "op": op, "packs_before": r.get("counts0"), "total": r.get("total"),
                             "plan": [p.get("result") for p in r.get("plans", [])], "packs_after": r.get("n1")}
                     if planned and step % 7 == 0 else None)
        # outside view: nothing lost, and duplicates really exist when we made them
        want_revs = live.ptr + live.nt
        if step % 5 == 4 or step == len(prog) - 1:
            counts, total, nrev = live.observe()
            ctx.count("live_outside_observations")
            ctx.check(nrev == want_revs, "live:revisions-lost-or-invented",
                      "repository shows %d revisions, workload put %d" % (nrev, want_revs),
                      {"format": fmt_name, "program": prog[:step + 1]})
            if total > nrev:
                ctx.count("live_dup_revisions_seen")
            ctx.distinct("live_pack_shapes", counts)


# ----------------------------------------------------------------------------- dispatch

def case(ctx):
    install_contracts()
    ne, nr = N_EXH[ctx.tier], N_RND[ctx.tier]
    if ctx.index < ne:
        case_exhaustive(ctx, ctx.index, ne)
    elif ctx.index < ne + nr:
        case_random(ctx)
    else:
        case_live(ctx, ctx.index - ne - nr)
