"""C38 - all git SHA-map cache backends answer identically.

A generated native history is committed into a real bzr repository; the REAL
BazaarObjectStore converts every revision (`_update_sha_map_revision`) with a
recording cache in front of the dict backend, which yields the exact updater
call sequence production code makes (`cache.get_updater(rev)`, `add_object(obj |
("blob", sha), bzr_key_data, path)` for blobs / trees / the root tree twice /
the commit with its verifiers, `finish()`).  That recorded sequence is then
driven, under a generated program of write groups (committed, aborted and
redone), identical re-additions, re-opens and index repacks, into every
available backend; after every step every query of the GitShaMap interface is
asked of every backend and compared with the dict backend.

Two further observations on the persistent backends: (1) a backend that was only closed and re-opened must give, for
every query, the answer it gave at the checkpoint just before (nothing was written in between); (2) where the index
store answers lookup_git_sha with a single entry although the dict backend holds several (its one-record-per-sha
format, a known finding), that entry must be the FIRST registration of the sha (the one the dict backend lists first,
the only one the store ever writes) - a later registration shadowing it, e.g. one made in a later write group, is a
different deviation and gets its own key.
"""
import copy
import os

ID = "C38"
LEVEL = "exploration"
TECHNIQUE = ("differential monitor: identical recorded updater sequences (from the real BazaarObjectStore) into "
             "Dict / Sqlite(:memory:, file) / Index backends, every GitShaMap query compared with the dict backend, "
             "before and after close+re-open; every persistent backend's answers compared with its own answers just before "
             "the close; the index store's single entry per sha compared with the first registration")
LEVEL_TEXT = ("generated histories (quick <= 8, thorough <= 24 revisions: duplicate file contents, identical "
              "directories, reverts, pointless commits, merges taking the other side's text, renames, removals) x "
              "programs of write groups / aborts / re-adds / re-opens / repacks; every known key plus unknown keys "
              "queried at every checkpoint")
RULE = ("one evaluation = one backend compared with the dict backend at one checkpoint (all queries); distinct = distinct "
        "(recorded update sequence, program prefix, backend); non-trivial = the map holds >= 2 revisions or a sha that is "
        "recorded under >= 2 keys")
CASES = {"quick": 96, "thorough": 1200}
BUDGET_S = {"quick": 45, "thorough": 700}
MIN_EVALS = {"quick": 600, "thorough": 10000}
FLOORS = {"q_lookup_git_sha": 5000, "q_lookup_blob_id": 2000, "q_lookup_tree_id": 1000, "q_lookup_commit": 1000,
          "q_revids": 300, "q_sha1s": 300, "q_missing_revisions": 300, "reopen_checked": 60,
          "abort_interval_checked": 20, "index_multi_key_sha_checked": 200,
          "index_sha_reregistered_in_later_group_checked": 100, "reopen_same_answer_checked": 3000,
          "backend:sqlite-file": 100, "backend:sqlite-memory": 100, "backend:index": 100}
EXHAUSTIVE = {"quick": False, "thorough": False}
ASSUMPTIONS = [
    "the dict backend is the reference (the property names no other)",
    "tdb is not installed: the TDB backend is not exercised",
    "lookup_blob_id is asked only for keys recorded as blobs (plus unknown keys), lookup_tree_id only for keys recorded "
    "as trees (plus unknown keys); NotImplementedError from lookup_tree_id is the documented refusal of a backend that "
    "does not store tree ids",
    "between an aborted write group and its redo a backend may answer like before the group or like after it "
    "(abort is a no-op in the dict and sqlite backends); full agreement is required again after the redo",
    "where the index store returns one of several registrations of a sha, the first registration (in updater call order, "
    "the entry the dict backend yields first) is the expected one; any other is reported under its own key",
    "a re-added revision is re-added with identical objects (what re-running the conversion produces)",
    "file ids and revision ids contain no whitespace",
]

CONTENTS = [b"", b"hello\n", b"same\n", b"other\n", b"line1\nline2\n", b"no newline"]
FILES = ["a", "b", "c", "d1/f", "d1/g", "d2/f", "d2/g", "d1/sub/h", "d2/sub/h"]
UNKNOWN_SHA = [b"5686645d49063c73d35436192dfc9a160c672301", b"00000000000000000000000000000000000000ff"]


# ----------------------------------------------------------------- history generation

def fid(path, used=None):
    base = b"id-" + path.replace("/", "_").encode("ascii")
    if used is None:
        return base
    n = used.get(base, 0)
    used[base] = n + 1
    return base if n == 0 else base + b"-%d" % n


def gen_history(rng, tier):
    """List of revision specs {"id", "parents", "actions"} + model trees; valid BranchBuilder input."""
    nrev = rng.randint(2, 8 if tier == "quick" else 24)
    revs = []
    trees = {}  # revid -> {path: ("file", content) | ("directory", None)}
    used = {}
    for i in range(nrev):
        rid = b"rev-%d" % i
        if not revs:
            parents = []
        else:
            r = rng.random()
            if r < 0.2 and len(revs) >= 2:
                parents = rng.sample([x["id"] for x in revs], 2)  # merge
            elif r < 0.35:
                parents = [rng.choice([x["id"] for x in revs])]  # branch off somewhere
            else:
                parents = [revs[-1]["id"]]
        base = dict(trees[parents[0]]) if parents else {}
        actions = []
        if not parents:
            actions.append(("add", ("", b"root-id", "directory", None)))
            base[""] = ("directory", None)
        nops = rng.choice((0, 1, 1, 2, 2, 3, 4)) if parents else rng.randint(2, 6)
        other = trees[parents[1]] if len(parents) > 1 else None
        inherited = set(base) - {""}
        touched = set()
        for _ in range(nops):
            op = rng.choice(("add", "add", "modify", "modify", "modify", "revert", "unversion", "rename", "mkdir", "take-other"))
            # only files that exist in the left-hand parent and were not touched yet in this commit
            files = sorted(p for p, (k, _c) in base.items() if k == "file" and p in inherited and p not in touched)
            if op == "add":
                cand = [p for p in FILES if p not in base]
                if not cand:
                    continue
                p = rng.choice(cand)
                parts = p.split("/")
                for j in range(1, len(parts)):
                    d = "/".join(parts[:j])
                    if d not in base:
                        actions.append(("add", (d, fid(d, used), "directory", None)))
                        base[d] = ("directory", None)
                        touched.add(d)
                    elif base[d][0] != "directory":
                        break
                else:
                    c = rng.choice(CONTENTS)
                    actions.append(("add", (p, fid(p, used), "file", c)))
                    base[p] = ("file", c)
                    touched.add(p)
            elif op == "modify" and files:
                p = rng.choice(files)
                c = rng.choice(CONTENTS)
                if c != base[p][1]:
                    actions.append(("modify", (p, c)))
                    base[p] = ("file", c)
                    touched.add(p)
            elif op == "revert" and files and len(revs) > 1:
                # bring a file back to what it was in some older revision (same blob, maybe same trees)
                old = trees[rng.choice(revs)["id"]]
                p = rng.choice(files)
                if p in old and old[p][0] == "file" and old[p][1] != base[p][1]:
                    actions.append(("modify", (p, old[p][1])))
                    base[p] = old[p]
                    touched.add(p)
            elif op == "take-other" and other is not None:
                cand = [p for p in files if p in other and other[p][0] == "file" and other[p][1] != base[p][1]]
                if cand:
                    p = rng.choice(cand)
                    actions.append(("modify", (p, other[p][1])))
                    base[p] = other[p]
                    touched.add(p)
            elif op == "unversion" and files:
                p = rng.choice(files)
                actions.append(("unversion", p))
                del base[p]
                touched.add(p)
            elif op == "rename" and files:
                p = rng.choice(files)
                d = os.path.dirname(p)
                newp = (d + "/" if d else "") + "renamed-" + os.path.basename(p)
                if newp not in base and not os.path.basename(p).startswith("renamed-"):
                    actions.append(("rename", (p, newp)))
                    base[newp] = base.pop(p)
                    touched.update((p, newp))
            elif op == "mkdir":
                d = rng.choice(("empty", "d1/emptysub", "d3"))
                par = os.path.dirname(d)
                if d not in base and (par == "" or base.get(par, ("", None))[0] == "directory"):
                    actions.append(("add", (d, fid(d, used), "directory", None)))
                    base[d] = ("directory", None)
                    touched.add(d)
        revs.append({"id": rid, "parents": parents, "actions": actions})
        trees[rid] = base
    return revs


def jb(x):
    if isinstance(x, bytes):
        return x.decode("utf-8", "replace")
    if isinstance(x, dict):
        return {str(jb(k)): jb(v) for k, v in x.items()}
    if isinstance(x, (list, tuple)):
        return [jb(v) for v in x]
    if isinstance(x, (set, frozenset)):
        return sorted(str(jb(v)) for v in x)
    return x


def record_updates(revs, roundtrip):
    """Commit the history and let the real object store convert it; returns [(Revision, [(obj, key_data, path)])]."""
    from breezy.branchbuilder import BranchBuilder
    from breezy.git import cache as gcache
    from breezy.git.mapping import BzrGitMappingv1
    from breezy.git.object_store import BazaarObjectStore
    from breezy.transport import get_transport

    b = BranchBuilder(get_transport("memory:///").clone("h"), format="2a")
    b.start_series()
    try:
        for r in revs:
            b.build_snapshot(list(r["parents"]), list(r["actions"]), revision_id=r["id"],
                             message="m %s" % r["id"].decode(), timestamp=1500000000, timezone=0,
                             committer="C <c@example.com>")
    finally:
        b.finish_series()
    repo = b.get_branch().repository
    # (the experimental mapping cannot export a commit at all: hg.format_hg_metadata uses dict.iteritems)
    store = BazaarObjectStore(repo, mapping=BzrGitMappingv1())
    inner = gcache.DictBzrGitCache()
    log = []

    class RecUpdater:
        def __init__(self, rev):
            self.u = inner.get_updater(rev)
            self.entry = (rev, [])
            log.append(self.entry)

        def add_object(self, obj, bzr_key_data, path):
            self.entry[1].append((obj, bzr_key_data, path))
            return self.u.add_object(obj, bzr_key_data, path)

        def finish(self):
            return self.u.finish()

    class RecCache:
        idmap = inner.idmap

        def get_updater(self, rev):
            return RecUpdater(rev)

    store._cache = RecCache()
    store.start_write_group = inner.idmap.start_write_group
    store.commit_write_group = inner.idmap.commit_write_group
    store.abort_write_group = inner.idmap.abort_write_group
    with store.lock_read():
        order = list(repo.get_graph().iter_topo_order([r["id"] for r in revs]))
        for revid in order:
            store._update_sha_map_revision(revid)
        if roundtrip:
            # Exporting with the only working mapping (v1) is always lossy => verifiers == {}.  Non-empty
            # verifiers reach the cache from the git import path (fetch.import_git_commit passes
            # {"testament3-sha1": StrictTestament3(rev, tree).as_sha1()}); give the recorded commits that shape.
            from breezy.bzr.testament import StrictTestament3

            for rev, adds in log:
                tree = repo.revision_tree(rev.revision_id)
                sha1 = StrictTestament3(rev, tree).as_sha1()
                for i, (obj, kd, path) in enumerate(adds):
                    if isinstance(kd, dict):
                        adds[i] = (obj, {"testament3-sha1": sha1}, path)
    return log


# ----------------------------------------------------------------- backends

class Backend:
    def __init__(self, name, root):
        self.name = name
        self.root = root
        self.cache = None
        self.persistent = name in ("sqlite-file", "index")
        self.open(first=True)

    def _transport(self):
        from breezy.transport import get_transport

        return get_transport(self.root)

    def open(self, first=False):
        from breezy.git import cache as gcache

        if self.name == "dict":
            self.cache = gcache.DictBzrGitCache()
        elif self.name == "sqlite-memory":
            self.cache = gcache.BzrGitCache(gcache.SqliteGitShaMap(None), gcache.SqliteCacheUpdater)
        elif self.name == "sqlite-file":
            t = self._transport()
            if first:
                gcache.SqliteGitCacheFormat().initialize(t)
            self.cache = gcache.BzrGitCacheFormat.from_transport(t)
            assert isinstance(self.cache.idmap, gcache.SqliteGitShaMap)
        elif self.name == "index":
            t = self._transport()
            if first:
                gcache.IndexGitCacheFormat().initialize(t)
            self.cache = gcache.BzrGitCacheFormat.from_transport(t)
            assert isinstance(self.cache.idmap, gcache.IndexGitShaMap)
        else:
            raise AssertionError(self.name)

    def close(self):
        from breezy.git import cache as gcache

        if self.name == "sqlite-file":
            path = self.cache.idmap.path
            db = gcache.mapdbs().pop(path, None)
            if db is not None:
                db.close()
        elif self.name == "sqlite-memory":
            self.cache.idmap.db.close()
        self.cache = None

    def reopen(self):
        self.close()
        self.open()

    @property
    def idmap(self):
        return self.cache.idmap


def feed(backend, entry):
    rev, adds = entry
    u = backend.cache.get_updater(rev)
    for obj, kd, path in adds:
        u.add_object(obj, kd, path)
    u.finish()


# ----------------------------------------------------------------- queries

class Known:
    """What has been recorded so far (harness bookkeeping, from the recorded calls only)."""

    def __init__(self):
        self.shas = []
        self.blob_keys = []
        self.tree_keys = []
        self.revids = []
        self.order = {}  # ("tree"|"blob", key) -> index of the latest insertion
        self.by_sha = {}  # sha -> [(type, key)] in order of first registration
        self.groups = {}  # sha -> set of write-group numbers in which a NEW (type, key) was registered for it
        self.group = 0  # number of the write group being fed (set by run_program)
        self.n = 0

    def add_entry(self, entry):
        rev, adds = entry
        for obj, kd, _path in adds:
            if isinstance(obj, tuple):
                tname, sha = obj
            else:
                tname, sha = obj.type_name.decode("ascii"), obj.id
            if sha not in self.by_sha:
                self.by_sha[sha] = []
                self.shas.append(sha)
            self.n += 1
            if tname == "commit":
                if rev.revision_id not in self.revids:
                    self.revids.append(rev.revision_id)
                if ("commit", rev.revision_id) not in self.by_sha[sha]:
                    self.by_sha[sha].append(("commit", rev.revision_id))
                    self.groups.setdefault(sha, set()).add(self.group)
            else:
                key = tuple(kd)
                lst = self.blob_keys if tname == "blob" else self.tree_keys
                if key not in lst:
                    lst.append(key)
                self.order[(tname, key)] = self.n
                if (tname, key) not in self.by_sha[sha]:
                    self.by_sha[sha].append((tname, key))
                    self.groups.setdefault(sha, set()).add(self.group)


def norm_entries(it):
    out = set()
    for typ, data in it:
        data = tuple(data)
        if typ == "commit":
            v = data[2] if len(data) > 2 else {}
            data = (data[0], data[1], tuple(sorted(v.items())))
        out.add((typ, data))
    return out


def ask(fn, *args):
    """-> ("ok", value) | ("KeyError",) | ("NotImplementedError",) ; other exceptions propagate to the caller."""
    try:
        v = fn(*args)
        if hasattr(v, "__next__") or (hasattr(v, "__iter__") and not isinstance(v, (bytes, str, tuple, list, set, frozenset, dict))):
            v = list(v)
        return ("ok", v)
    except KeyError:
        return ("KeyError",)
    except NotImplementedError:
        return ("NotImplementedError",)
    except Exception as e:  # a query must answer or say KeyError; anything else is classified by the caller
        return ("raised-" + type(e).__name__,)


def answers(ctx, idmap, known, rng_keys, full=True):
    """All answers of one backend as a comparable dict {query: outcome}."""
    a = {}
    for sha in known.shas + UNKNOWN_SHA:
        r = ask(lambda s: list(idmap.lookup_git_sha(s)), sha)
        a[("lookup_git_sha", sha)] = ("ok", norm_entries(r[1])) if r[0] == "ok" else r
    for key in known.blob_keys + [(b"id-unknown", b"rev-0"), (b"id-a", b"rev-unknown")]:
        a[("lookup_blob_id",) + key] = ask(idmap.lookup_blob_id, *key)
    for key in known.tree_keys + [(b"id-unknown", b"rev-0"), (b"root-id", b"rev-unknown")]:
        a[("lookup_tree_id",) + key] = ask(idmap.lookup_tree_id, *key)
    for revid in known.revids + [b"rev-unknown"]:
        a[("lookup_commit", revid)] = ask(idmap.lookup_commit, revid)
    if full:
        r = ask(lambda: list(idmap.revids()))
        a[("revids",)] = ("ok", (set(r[1]), len(r[1]) - len(set(r[1])))) if r[0] == "ok" else r
        r = ask(lambda: list(idmap.sha1s()))
        a[("sha1s",)] = ("ok", set(r[1])) if r[0] == "ok" else r
        for i, q in enumerate(rng_keys):
            arg = list(q) if i % 2 == 0 else set(q)
            r = ask(idmap.missing_revisions, arg)
            a[("missing_revisions", tuple(sorted(q)), type(arg).__name__)] = ("ok", set(r[1])) if r[0] == "ok" else r
    return a


def classify(backend, q, want, got, known, lo=None):
    """Mechanism key for one disagreement (want = dict backend's answer)."""
    kind = q[0]
    b = backend.split("-")[0]
    if got[0] == "NotImplementedError":
        return None if kind == "lookup_tree_id" else "%s:%s:not-implemented" % (kind, b)
    if got[0].startswith("raised-"):
        return "%s:%s:%s" % (kind, b, got[0])
    if kind == "lookup_git_sha":
        if want[0] == "KeyError":
            return "lookup_git_sha:%s:invented-entry" % b
        if got[0] == "KeyError":
            return "lookup_git_sha:%s:sha-lost" % b
        w, g = want[1], got[1]
        if g - w:
            return "lookup_git_sha:%s:wrong-entry" % b
        lostset = w - g
        types = sorted({t for t, _d in lostset})
        if b == "index" and len(g) == 1:
            # The index store keeps ONE record per sha: the first registration ever made (the entry the dict backend
            # lists first).  Any other single answer (a later registration shadowing the first one) is a different
            # deviation from the dict backend than the known one-record-per-sha format limit.
            first = (known.by_sha.get(q[1]) or [None])[0]
            (t, d), = g
            mine = (t, d[0]) if t == "commit" else (t, tuple(d))
            if first is not None and mine != first:
                return "lookup_git_sha:index:single-entry-is-not-the-first-registration"
            return "lookup_git_sha:index:single-entry-per-sha"
        if b == "sqlite" and types == ["tree"]:
            surv = [known.order.get(("tree", d), 0) for t, d in g if t == "tree"]
            lost = [known.order.get(("tree", d), 0) for _t, d in lostset]
            if surv and max(lost) < max(surv):
                return "lookup_git_sha:sqlite:older-tree-entry-displaced-by-identical-tree"
            return "lookup_git_sha:sqlite:newer-tree-entry-dropped"
        return "lookup_git_sha:%s:entries-missing:%s" % (b, "+".join(types))
    if kind in ("lookup_blob_id", "lookup_tree_id", "lookup_commit"):
        if want[0] == "KeyError":
            return "%s:%s:invented" % (kind, b)
        if got[0] == "KeyError":
            if kind == "lookup_tree_id" and b == "sqlite":
                key = tuple(q[1:])
                sha = want[1]
                mine = known.order.get(("tree", key), 0)
                twins = [known.order.get(("tree", k), 0) for t, k in known.by_sha.get(sha, []) if t == "tree" and k != key]
                if twins and mine < max(twins):
                    return "lookup_tree_id:sqlite:older-entry-displaced-by-identical-tree"
                if twins:
                    return "lookup_tree_id:sqlite:newer-entry-dropped-for-identical-tree"
            return "%s:%s:lost" % (kind, b)
        if type(want[1]) is not type(got[1]):
            return "%s:%s:returns-%s" % (kind, b, type(got[1]).__name__)
        return "%s:%s:wrong-sha" % (kind, b)
    if kind == "revids":
        if got[0] != "ok":
            return "revids:%s:%s" % (b, got[0])
        if got[1][0] != want[1][0]:
            return "revids:%s:%s" % (b, "missing" if want[1][0] - got[1][0] else "extra")
        return "revids:%s:duplicates" % b if got[1][1] and not want[1][1] else None
    if kind == "sha1s":
        if got[0] != "ok":
            return "sha1s:%s:%s" % (b, got[0])
        return "sha1s:%s:%s" % (b, "missing" if want[1] - got[1] else "extra")
    if kind == "missing_revisions":
        if got[0] != "ok":
            return "missing_revisions:%s:%s" % (b, got[0])
        return "missing_revisions:%s:%s" % (b, "reports-present-as-missing" if got[1] - want[1] else "reports-missing-as-present")
    return "%s:%s:differs" % (kind, b)


def between(q, lo, hi, got):
    """Is `got` an answer a backend may give between an aborted group and its redo?"""
    if got == lo or got == hi:
        return True
    if got[0] != "ok" or hi[0] != "ok":
        return False
    if q[0] == "lookup_git_sha" or q[0] in ("sha1s", "missing_revisions"):
        lov = lo[1] if lo[0] == "ok" else set()
        if q[0] == "missing_revisions":
            return hi[1] <= got[1] <= lov
        return lov <= got[1] <= hi[1]
    if q[0] == "revids":
        lov = lo[1][0] if lo[0] == "ok" else set()
        return lov <= got[1][0] <= hi[1][0]
    return False


def compare(ctx, backend, ref_ans, ans, known, where, prog_sig, hi_ans=None):
    """Compare one backend's answers with the reference; between abort and redo `hi_ans` is the upper reference."""
    bad = {}
    for q, want in ref_ans.items():
        ctx.count("q_" + q[0])
        got = ans.get(q)
        if backend.name == "index" and q[0] == "lookup_git_sha" and len(known.by_sha.get(q[1], ())) > 1:
            # which of several registrations the one-record-per-sha store answers with is judged (classify)
            ctx.count("index_multi_key_sha_checked")
            if len(known.groups.get(q[1], ())) > 1:
                ctx.count("index_sha_reregistered_in_later_group_checked")
        if hi_ans is not None:
            ctx.count("abort_interval_checked")
            if between(q, want, hi_ans[q], got):
                continue
            if got[0] == "NotImplementedError" and q[0] == "lookup_tree_id":
                continue
            # same mechanism keys as at any other checkpoint (the detail says where)
            key = classify(backend.name, q, hi_ans[q], got, known) or classify(backend.name, q, want, got, known)
            if key is None:
                continue
        else:
            if got == want:
                continue
            key = classify(backend.name, q, want, got, known)
            if key is None:
                ctx.hist("refusal:%s:%s:%s" % (backend.name, q[0], got[0]))
                continue
        bad.setdefault(key, []).append((q, want, got))
    for key, items in bad.items():
        q, want, got = items[0]
        for _ in items:
            ctx.fail(key, "%s at %s: %s -> %s, dict backend says %s" % (backend.name, where, jb(list(q)), _show(got), _show(want)),
                     {"backend": backend.name, "where": where, "query": jb(list(q)), "got": _show(got), "dict": _show(want),
                      "n_queries_with_this_key": len(items), "program": prog_sig,
                      "keys_recorded_for_sha": jb(known.by_sha.get(q[1], [])) if q[0] == "lookup_git_sha" else None})
    return not bad


def _show(ans):
    if ans is None:
        return None
    if ans[0] != "ok":
        return ans[0]
    v = ans[1]
    if isinstance(v, (set, frozenset)):
        return sorted(repr(x) for x in v)[:12]
    if isinstance(v, tuple) and v and isinstance(v[0], set):
        return [sorted(repr(x) for x in v[0])[:12], v[1]]
    return repr(v)


# ----------------------------------------------------------------- case

def gen_program(rng, n):
    """Steps over recorded revision indices 0..n-1."""
    steps = []
    i = 0
    while i < n:
        k = min(n - i, rng.choice((1, 1, 2, 3, 4)))
        idx = list(range(i, i + k))
        if i > 0 and rng.random() < 0.2:
            idx.insert(rng.randrange(len(idx) + 1), rng.randrange(0, i))  # identical re-add of an older revision
        abort_first = rng.random() < 0.15
        # (no mid-group queries while redoing an aborted group: backends whose abort is a no-op are then legitimately ahead)
        steps.append({"op": "group", "revs": idx, "abort_first": abort_first,
                      "midquery": rng.random() < 0.3 and not abort_first})
        i += k
        if rng.random() < 0.35:
            steps.append({"op": "reopen", "which": rng.choice(("sqlite-file", "index", "both"))})
        if rng.random() < 0.1:
            steps.append({"op": "repack"})
    steps.append({"op": "reopen", "which": "both"})
    if rng.random() < 0.3:
        steps.append({"op": "group", "revs": [rng.randrange(n)], "abort_first": False, "midquery": False})
    return steps


def case(ctx):
    rng = ctx.rng
    revs = gen_history(rng, ctx.tier)
    roundtrip = rng.random() < 0.5
    try:
        log = record_updates(revs, roundtrip)
    except Exception as e:
        ctx.discard("history-construction:%s" % type(e).__name__)
    ctx.hist("history:revisions:%02d" % (len(log) // 4 * 4))
    ctx.hist("verifiers:%s" % ("testament3-sha1" if roundtrip else "empty"))
    for _rev, adds in log:
        for obj, kd, _p in adds:
            ctx.hist("add_object:%s:%s" % ("tuple" if isinstance(obj, tuple) else "object",
                                            obj[0] if isinstance(obj, tuple) else obj.type_name.decode()))
    seq_sig = [(rev.revision_id, [((o if isinstance(o, tuple) else (o.type_name, o.id)), kd if not isinstance(kd, dict) else sorted(kd.items()))
                                  for o, kd, _p in adds]) for rev, adds in log]
    ctx.distinct("update_sequence", jb(seq_sig))
    program = gen_program(rng, len(log))
    try:
        import tdb  # noqa: F401
        ctx.hist("backend-available:tdb")
    except ImportError:
        ctx.hist("backend-unavailable:tdb")
    root = ctx.tmp("c38")
    backends = []
    for name in ("sqlite-memory", "sqlite-file", "index"):
        d = os.path.join(root, name)
        os.makedirs(d)
        backends.append(Backend(name, d))
    ref = Backend("dict", None)
    known = Known()
    all_revids = [rev.revision_id for rev, _ in log]
    try:
        run_program(ctx, program, log, ref, backends, known, all_revids, jb(seq_sig))
    finally:
        for b in backends:
            try:
                b.close()
            except Exception:
                pass


def reopen_stable(ctx, backend, before, after, where, step_no):
    """A persistent backend that was only closed and re-opened answers every query as it did just before."""
    bad = {}
    for q, was in before.items():
        if q not in after:
            continue
        ctx.count("reopen_same_answer_checked")
        now = after[q]
        if now != was:
            bad.setdefault("%s:%s:answer-changes-on-reopen" % (q[0], backend.name.split("-")[0]), []).append((q, was, now))
    for key, items in bad.items():
        q, was, now = items[0]
        for _ in items:
            ctx.fail(key, "%s at %s: %s answered %s before close and %s after re-open (nothing was written in between)"
                     % (backend.name, where, jb(list(q)), _show(was), _show(now)),
                     {"backend": backend.name, "where": where, "step": step_no, "query": jb(list(q)), "before": _show(was),
                      "after": _show(now), "n_queries_with_this_key": len(items)})
    return not bad


def checkpoint(ctx, ref, backends, known, all_revids, where, prog_sig, step_no, full=True, hi=None, prev=None, reopened=()):
    rng = ctx.rng
    mq = []
    if full:
        pool = all_revids + [b"rev-unknown", b"null:"]
        for _ in range(2):
            mq.append(frozenset(rng.sample(pool, rng.randint(0, min(5, len(pool))))))
        mq.append(frozenset(all_revids))
    ref_ans = answers(ctx, ref.idmap, known, mq, full)
    hi_ans = answers(ctx, hi.idmap, known, mq, full) if hi is not None else None
    multi = any(len(v) > 1 for v in known.by_sha.values())
    for b in backends:
        ans = answers(ctx, b.idmap, known, mq, full)
        ok = compare(ctx, b, ref_ans, ans, known, where, {"step": step_no, "where": where}, hi_ans)
        if prev is not None:
            if b.name in reopened and b.name in prev:
                ok = reopen_stable(ctx, b, prev[b.name], ans, where, step_no) and ok
            prev[b.name] = ans
        ctx.count("backend:" + b.name)
        ctx.hist("checkpoint:%s" % where.split(":")[0])
        ctx.note((prog_sig, step_no, where, b.name), nontrivial=len(known.revids) >= 2 or multi,
                 sample={"backend": b.name, "where": where, "revisions_in_map": len(known.revids), "shas": len(known.shas),
                         "queries": len(ref_ans), "agrees": ok} if rng.random() < 0.01 else None)
        ctx.distinct("backend_state", (b.name, where.split(":")[0], len(known.revids), multi, ok))


def run_program(ctx, program, log, ref, backends, known, all_revids, prog_sig):
    prev = {}  # backend name -> its answers at the latest checkpoint
    for step_no, st in enumerate(program):
        known.group = step_no
        if st["op"] == "group":
            entries = [log[i] for i in st["revs"]]
            if st["abort_first"]:
                hi = Backend("dict", None)
                hi.cache.idmap._by_sha = copy.deepcopy(ref.idmap._by_sha)
                hi.cache.idmap._by_fileid = copy.deepcopy(ref.idmap._by_fileid)
                hi.cache.idmap._by_revid = copy.deepcopy(ref.idmap._by_revid)
                known_hi = copy.deepcopy(known)
                prev.clear()
                for e in entries:
                    feed(hi, e)
                    known_hi.add_entry(e)
                for b in backends:
                    b.idmap.start_write_group()
                    for e in entries:
                        feed(b, e)
                    b.idmap.abort_write_group()
                ctx.hist("program:group-aborted")
                checkpoint(ctx, ref, backends, known_hi, all_revids, "after-abort", prog_sig, step_no, hi=hi)
            for b in [ref] + backends:
                b.idmap.start_write_group()
            for j, e in enumerate(entries):
                for b in [ref] + backends:
                    feed(b, e)
                known.add_entry(e)
                if st["midquery"] and j < len(entries) - 1:
                    ctx.count("midgroup_checked")
                    checkpoint(ctx, ref, backends, known, all_revids, "mid-group", prog_sig, step_no, full=False, prev=prev)
            for b in [ref] + backends:
                b.idmap.commit_write_group()
            ctx.hist("program:group-committed")
            checkpoint(ctx, ref, backends, known, all_revids, "after-commit", prog_sig, step_no, prev=prev)
        elif st["op"] == "reopen":
            reopened = []
            for b in backends:
                if b.persistent and st["which"] in (b.name, "both"):
                    b.reopen()
                    reopened.append(b.name)
                    ctx.count("reopen_checked")
            ctx.hist("program:reopen")
            checkpoint(ctx, ref, backends, known, all_revids, "reopen:%s" % st["which"], prog_sig, step_no, prev=prev,
                       reopened=reopened)
        elif st["op"] == "repack":
            for b in backends:
                if b.name == "index":
                    # repack() is not one of the property's queries and has no caller in breezy; if it cannot
                    # run, say so in the evidence and restore the map (it leaves its write group open)
                    try:
                        b.idmap.repack()
                        ctx.count("repack_checked")
                    except Exception as e:
                        ctx.hist("repack-unusable:%s" % type(e).__name__)
                        if b.idmap._builder is not None:
                            b.idmap.abort_write_group()
            ctx.hist("program:repack")
            checkpoint(ctx, ref, backends, known, all_revids, "repack", prog_sig, step_no, prev=prev)
