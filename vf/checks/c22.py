"""C22 - revision numbers and revision specifiers resolve consistently.

A generated multi-branch history (merges of merges, criss-cross, ghosts, tags) is built; then ONE
branch object is kept write-locked while commits / merges / tip moves are interleaved with a full
battery of queries (so stale revno caches show), and a freshly opened branch object answers the
same battery without a held lock (the uncached paths).  In two cases of three the tip moves while
pre/post_change_branch_tip hooks that themselves look at the history are installed (what they are told
inside the hook is judged too), and the mainline lookups are repeated newest-first / in bisection order /
shuffled on fresh objects under one read lock each (what one lookup leaves in the partial-history cache is
what the next starts from).  Formats: 2a, pack-0.92 and knit (full-history branch, generic Branch.get_rev_id).
Reference answers come from plain set
algebra over the parents that were asked for at commit time (left-hand history, ancestry,
first mainline merger, lowest common ancestors) - independent of vcsgraph and of the branch code.
"""
import os

from vf.checks import _c02_hist as H

ID = "C22"
LEVEL = "exploration"
TECHNIQUE = "model graph (set algebra over requested parents) vs real Branch revno/dotted-revno maps and RevisionSpec resolution, queries interleaved with commits on one locked branch object, with and without history-reading tip-change hooks, lookups in several orders under one lock"
LEVEL_TEXT = ("held on the generated histories and on every generated specifier string over their revisions; "
              "dotted revnos are judged as a bijection and for round trips, not for their numbering scheme")
RULE = ("case = one generated history (quick <= 9 revisions + 3 interleaved steps, thorough <= 24 + 6; <= 3 branches; 2a, pack-0.92 and knit; two cases in three with history-reading pre/post_change_branch_tip hooks installed during the interleaved steps, their in-hook answers judged against the model afterwards); "
        "battery after every step on the locked branch object and on a fresh one: get_rev_id / revision_id_to_revno for every n and revision, "
        "revno map, dotted round trips for every revision in the ancestry, iter_merge_sorted_revisions, and specs N, -N, revno:, a.b.c, revid:, "
        "before:, last:, tag:, ancestor:, mainline:, branch-qualified revno:N:PATH / revno:a.b.c:PATH alone and inside mainline:, ranges; "
        "then get_rev_id / revision_id_to_revno / N / -N / last: / before: for the whole mainline newest-first, in bisection order and shuffled, "
        "each order on a fresh branch object under one read lock (and one such scan first thing after a tip change on the held object); one evaluation = one query judged; non-trivial = history has a merge; "
        "distinct = (query form, outcome class, mainline/merged)")
CASES = {"quick": 48, "thorough": 900}
BUDGET_S = {"quick": 40, "thorough": 780}
MIN_EVALS = {"quick": 3000, "thorough": 200000}
FLOORS = {"quick": {"get_rev_id": 200, "id_to_revno": 200, "revno_map": 30, "dotted_roundtrip": 300, "merge_sorted": 30,
                    "spec_number": 200, "spec_negative": 100, "spec_dotted": 20, "spec_revid": 100, "spec_before": 100,
                    "spec_last": 100, "spec_tag": 10, "spec_ancestor": 10, "spec_mainline": 60, "same_object_after_commit": 15,
                    "spec_cross_revno": 60, "spec_cross_mainline": 30, "spec_cross_mainline_merged_revision": 8,
                    "lookup_order": 800, "lookup_order_pass": 150, "lookup_order_pass_held_object": 10, "lookup_order_generic_get_rev_id": 150,
                    "tip_hook_pre": 20, "tip_hook_post": 20, "tip_hook_answer": 200, "same_object_after_hooked_tip_change": 15},
          "thorough": {"get_rev_id": 20000, "id_to_revno": 20000, "revno_map": 2000, "dotted_roundtrip": 30000, "merge_sorted": 2000,
                       "spec_number": 20000, "spec_negative": 10000, "spec_dotted": 3000, "spec_revid": 10000, "spec_before": 10000,
                       "spec_last": 10000, "spec_tag": 1000, "spec_ancestor": 1000, "spec_mainline": 6000,
                       "same_object_after_commit": 2000, "spec_cross_revno": 6000, "spec_cross_mainline": 3000,
                       "spec_cross_mainline_merged_revision": 800,
                       "lookup_order": 20000, "lookup_order_pass": 4000, "lookup_order_pass_held_object": 300, "lookup_order_generic_get_rev_id": 4000,
                       "tip_hook_pre": 600, "tip_hook_post": 600, "tip_hook_answer": 6000, "same_object_after_hooked_tip_change": 500}}
EXHAUSTIVE = {"quick": False, "thorough": False}
ASSUMPTIONS = [
    "the model graph is the parents handed to commit (read back once per case from the repository and compared)",
    "dotted revnos: only bijection onto the merged revisions, mainline <-> (n,), and both-direction round trips are judged, not the numbering scheme",
    "specs whose definition names no revision must be refused with a BzrError; last:(revno+1), revno 0 and revid: of revisions outside the ancestry are not judged",
    "ancestor: is judged as 'a common ancestor that is an ancestor-or-equal of every lowest common ancestor' (equality when the LCA is unique)",
    "ghost parents are not part of the model ancestry; before: of a revision whose left parent is a ghost is not judged",
    "inside a pre_change_branch_tip hook the branch is asked about the tip it still has, inside a post_change_branch_tip hook about the new one; "
    "the hooks only read (they never raise, so they never veto the change)",
    "generic Branch.get_rev_id is exercised through format-5 ('knit') branches only; git / foreign branches are not generated here",
]

NULL = b"null:"


# ------------------------------------------------------------------ model graph

class G:
    def __init__(self, parents):
        self.P = parents  # revid -> [parents] (ghosts appear only as values)
        self._anc = {}

    def anc(self, tip):
        a = self._anc.get(tip)
        if a is None:
            a, todo = set(), [tip]
            while todo:
                r = todo.pop()
                if r in a or r not in self.P:
                    continue
                a.add(r)
                todo.extend(self.P[r])
            self._anc[tip] = a
        return a

    def lh(self, tip):
        """Left-hand history, oldest first."""
        out = []
        while tip in self.P:
            out.append(tip)
            tip = self.P[tip][0] if self.P[tip] else None
        out.reverse()
        return out

    def left_parent(self, r):
        """NULL for a root, None if the left parent is a ghost."""
        ps = self.P[r]
        if not ps:
            return NULL
        return ps[0] if ps[0] in self.P else None

    def merger(self, lh, r):
        for m in lh:
            if r in self.anc(m):
                return m
        return None

    def lcas(self, a, b):
        ca = self.anc(a) & self.anc(b)
        dominated = set()
        for c in ca:
            dominated |= (self.anc(c) - {c}) & ca
        return ca, ca - dominated


# ------------------------------------------------------------------ query helpers

def _refusal(fn):
    """('ok', value) or ('refused', exception class name) for documented refusals (BzrError family)."""
    from breezy import errors

    try:
        return "ok", fn()
    except errors.BzrError as e:
        return "refused", type(e).__name__
    except (IndexError, KeyError) as e:
        return "crashed", type(e).__name__
    except Exception as e:  # noqa: BLE001
        if type(e).__name__ == "ObjectNotLocked":
            return "notlocked", type(e).__name__
        raise


class Battery:
    def __init__(self, ctx, g, hist, tags, others, phase):
        self.ctx, self.g, self.hist, self.tags, self.others, self.phase = ctx, g, hist, tags, others, phase

    def fail(self, key, msg, **d):
        d.update(phase=self.phase, format=self.hist.fmt, shapes=self.hist.shapes, log=self.hist.log[-30:])
        self.ctx.fail(("remote:" if self.phase.startswith("remote") else "") + key, msg, d)

    def ev(self, form, outcome, extra=None):
        self.ctx.note((form, outcome, extra), nontrivial=self.merged,
                      sample={"query": form, "outcome": outcome, "phase": self.phase} if self.merged and self.ctx.rng.random() < 0.002 else None)
        self.ctx.distinct("query_outcomes", (form, outcome, extra))

    def set_tip(self, tip):
        lh, anc = self.g.lh(tip), self.g.anc(tip)
        self.lh, self.anc, self.n, self.tip = lh, anc, len(lh), tip
        self.merged = len(anc) > len(lh)

    # ---- branch API
    def run_branch_api(self, b, tip):
        ctx, g = self.ctx, self.g
        self.set_tip(tip)
        lh, anc, n = self.lh, self.anc, self.n
        main = set(lh)
        info = b.last_revision_info()
        if info != (n, tip):
            self.fail("last_revision_info:wrong", "last_revision_info %r, model %r" % (info, (n, tip)))
            return False
        ok = True
        for i in range(1, n + 1):
            ctx.count("get_rev_id")
            st, v = _refusal(lambda: b.get_rev_id(i))
            self.ev("get_rev_id", st)
            if (st, v) != ("ok", lh[i - 1]):
                self.fail("get_rev_id:not-nth-lefthand", "get_rev_id(%d) -> %s %r, model %r" % (i, st, v, lh[i - 1]), n=i, revno=n)
                ok = False
        for bad in (n + 1, n + 3, -1):
            ctx.count("get_rev_id_out_of_range")
            st, v = _refusal(lambda: b.get_rev_id(bad))
            self.ev("get_rev_id_oob", st)
            if st == "ok":
                self.fail("get_rev_id:out-of-range-answered", "get_rev_id(%d) -> %r with revno %d" % (bad, v, n))
                ok = False
        for r in sorted(anc):
            ctx.count("id_to_revno")
            st, v = _refusal(lambda: b.revision_id_to_revno(r))
            self.ev("id_to_revno", st, r in main)
            if r in main:
                want = lh.index(r) + 1
                if (st, v) != ("ok", want):
                    self.fail("revision_id_to_revno:wrong-for-mainline", "revision_id_to_revno(%r) -> %s %r, model %d" % (r, st, v, want))
                    ok = False
                else:
                    st2, back = _refusal(lambda: b.get_rev_id(v))
                    if back != r:
                        self.fail("revno:roundtrip", "get_rev_id(revision_id_to_revno(%r)) = %r" % (r, back))
                        ok = False
            elif st == "ok":
                self.fail("revision_id_to_revno:number-for-merged-revision", "revision_id_to_revno(%r) -> %r but it is not on the mainline" % (r, v))
                ok = False
        for r in sorted(set(g.P) - anc)[:3]:
            ctx.count("id_to_revno_foreign")
            st, v = _refusal(lambda: b.revision_id_to_revno(r))
            if st == "ok":
                self.fail("revision_id_to_revno:number-for-foreign-revision", "revision_id_to_revno(%r) -> %r, not in ancestry" % (r, v))
                ok = False
        # revno map
        ctx.count("revno_map")
        M = dict(b.get_revision_id_to_revno_map())
        self.M = M
        if set(M) != anc:
            self.fail("revno-map:keys-differ-from-ancestry", "map has %d keys, ancestry %d; extra %r missing %r" % (
                len(M), len(anc), sorted(set(M) - anc)[:4], sorted(anc - set(M))[:4]))
            return False
        if len(set(M.values())) != len(M):
            self.fail("revno-map:duplicate-dotted-revno", "values not pairwise distinct: %r" % (sorted(M.values()),))
            ok = False
        for i, r in enumerate(lh):
            if M[r] != (i + 1,):
                self.fail("revno-map:mainline-not-plain-number", "map[%r] = %r, model (%d,)" % (r, M[r], i + 1))
                ok = False
        for r in anc - main:
            if len(M[r]) != 3:
                self.fail("revno-map:merged-revision-without-dotted-revno", "map[%r] = %r" % (r, M[r]))
                ok = False
        self.ev("revno_map", "ok", self.merged)
        # dotted both directions
        for r in sorted(anc):
            ctx.count("dotted_roundtrip")
            st, d = _refusal(lambda: b.revision_id_to_dotted_revno(r))
            if st != "ok" or tuple(d) != tuple(M[r]):
                self.fail("dotted:id-to-dotted-differs-from-map", "revision_id_to_dotted_revno(%r) -> %s %r, map %r" % (r, st, d, M[r]))
                ok = False
                continue
            st, back = _refusal(lambda: b.dotted_revno_to_revision_id(tuple(d)))
            self.ev("dotted_roundtrip", st, r in main)
            if (st, back) != ("ok", r):
                self.fail("dotted:roundtrip", "dotted_revno_to_revision_id(%r) -> %s %r, wanted %r" % (d, st, back, r))
                ok = False
        used = set(M.values())
        for bad in ((n + 1,), (1, 9, 9), (n, 1, 77), (0, 5, 1)):
            if bad in used:
                continue
            ctx.count("dotted_unknown")
            st, v = _refusal(lambda: b.dotted_revno_to_revision_id(bad))
            if st == "ok" and v != NULL:
                self.fail("dotted:unknown-revno-answered", "dotted_revno_to_revision_id(%r) -> %r" % (bad, v))
                ok = False
        for r in sorted(set(g.P) - anc)[:3]:
            ctx.count("dotted_foreign")
            st, v = _refusal(lambda: b.revision_id_to_dotted_revno(r))
            if st == "ok":
                self.fail("dotted:revno-for-foreign-revision", "revision_id_to_dotted_revno(%r) -> %r" % (r, v))
                ok = False
        # merge sorted iteration
        ctx.count("merge_sorted")
        # the method returns a lazy iterator: consuming it needs a lock held by the caller
        with b.lock_read():
            ms = list(b.iter_merge_sorted_revisions())
        ids = [x[0] for x in ms]
        if sorted(ids) != sorted(anc):
            self.fail("merge-sorted:not-each-ancestor-once", "%d items, %d distinct, ancestry %d" % (len(ids), len(set(ids)), len(anc)))
            return False
        pos = {r: i for i, r in enumerate(ids)}
        for r, depth, revno, _eom in ms:
            if tuple(revno) != tuple(M[r]):
                self.fail("merge-sorted:revno-differs-from-map", "%r: %r vs map %r" % (r, revno, M[r]))
                ok = False
            if (depth == 0) != (r in main):
                self.fail("merge-sorted:depth-zero-iff-mainline", "%r depth %d mainline %s" % (r, depth, r in main))
                ok = False
            for p in g.P[r]:
                if p in pos and pos[p] < pos[r]:
                    self.fail("merge-sorted:parent-before-child", "%r listed after its parent %r in reverse order" % (r, p))
                    ok = False
        if [r for r in ids if r in main] != lh[::-1]:
            self.fail("merge-sorted:mainline-order", "mainline subsequence is not the reversed left-hand history")
            ok = False
        with b.lock_read():
            fw = [x[0] for x in b.iter_merge_sorted_revisions(direction="forward")]
        if fw != ids[::-1]:
            self.fail("merge-sorted:forward-not-reversed", "forward is not reversed(reverse)")
            ok = False
        self.ev("merge_sorted", "ok", self.merged)
        # start at any revision: exactly its ancestry
        for s in self.ctx.rng.sample(sorted(anc), min(3, len(anc))):
            ctx.count("merge_sorted_start")
            with b.lock_read():
                got = [x[0] for x in b.iter_merge_sorted_revisions(start_revision_id=s)]
            if set(got) != g.anc(s) or len(got) != len(set(got)):
                self.fail("merge-sorted:start-not-its-ancestry", "start %r (%s): got %d revisions, ancestry has %d; extra %r missing %r" % (
                    s, "mainline" if s in main else "merged", len(got), len(g.anc(s)), sorted(set(got) - g.anc(s))[:4],
                    sorted(g.anc(s) - set(got))[:4]), parents={k.decode(): [p.decode() for p in v] for k, v in g.P.items()})
                ok = False
        return ok

    # ---- specs
    def resolve(self, b, s, counter):
        from breezy.revisionspec import RevisionSpec

        self.ctx.count(counter)
        spec = RevisionSpec.from_string(s)

        def hist_():
            i = spec.in_history(b)
            return (i.revno, i.rev_id)

        return _refusal(hist_), _refusal(lambda: spec.as_revision_id(b))

    def expect(self, b, s, counter, rev, revno="skip", form=None):
        """rev: revid expected, or None = must be refused."""
        (st1, v1), (st2, v2) = self.resolve(b, s, counter)
        form = form or counter
        ok = True
        if "notlocked" in (st1, st2):
            # every other specifier takes the read lock it needs; one that leaves it to the caller
            # fails on a branch object nobody locked
            self.ev(form, "notlocked")
            self.fail("spec:%s:ObjectNotLocked-on-unlocked-branch" % form.replace("spec_", "").replace("_foreign", ""),
                      "%s(%r) raised ObjectNotLocked on a branch that is not locked by the caller" % (
                          "in_history" if st1 == "notlocked" else "as_revision_id", s), spec=s)
            return False
        if rev is None:
            self.ev(form, "refusal-expected:" + st1)
            if st1 == "ok" and v1[1] is not None:
                self.fail("spec:%s:names-nothing-but-resolved" % form, "in_history(%r) -> %r, the definition names no revision (revno %d)" % (s, v1, self.n), spec=s)
                ok = False
            if st2 == "ok" and v2 is not None and form not in ("spec_revid",):
                self.fail("spec:%s:names-nothing-but-resolved:as_revision_id" % form, "as_revision_id(%r) -> %r, the definition names no revision" % (s, v2), spec=s)
                ok = False
            return ok
        self.ev(form, st1, None if revno == "skip" else (revno is not None))
        if st1 != "ok" or v1[1] != rev:
            self.fail("spec:%s:in_history" % form, "in_history(%r) -> %s %r, definition gives %r" % (s, st1, v1, rev), spec=s)
            ok = False
        elif revno != "skip" and v1[0] != revno:
            self.fail("spec:%s:in_history-revno" % form, "in_history(%r) revno %r, model %r (rev %r)" % (s, v1[0], revno, rev), spec=s)
            ok = False
        if st2 != "ok" or v2 != rev:
            self.fail("spec:%s:as_revision_id" % form, "as_revision_id(%r) -> %s %r, definition gives %r" % (s, st2, v2, rev), spec=s)
            ok = False
        return ok

    def mainline_revno(self, r):
        return self.lh.index(r) + 1 if r in self.lh else None

    def run_specs(self, b):
        rng = self.ctx.rng
        g, lh, anc, n, M = self.g, self.lh, self.anc, self.n, self.M
        main = set(lh)
        for i in range(1, n + 1):
            self.expect(b, str(i), "spec_number", lh[i - 1], i)
            self.expect(b, "revno:%d" % i, "spec_number", lh[i - 1], i)
        for i in (n + 1, n + 4):
            self.expect(b, str(i), "spec_number", None, form="spec_number_oob") if str(i) not in self.tags else None
            self.expect(b, "revno:%d" % i, "spec_number", None, form="spec_number_oob")
        for i in range(1, n + 3):
            want = lh[max(0, n - i)]
            self.expect(b, "-%d" % i, "spec_negative", want, lh.index(want) + 1)
            self.expect(b, "revno:-%d" % i, "spec_negative", want, lh.index(want) + 1)
        merged = sorted(anc - main)
        for r in merged:
            d = ".".join(map(str, M[r]))
            self.expect(b, d, "spec_dotted", r, None)
            self.expect(b, "revno:" + d, "spec_dotted", r, None)
        used = {".".join(map(str, v)) for v in M.values()}
        for d in ("1.9.9", "%d.1.50" % n, "0.7.1"):
            if d not in used and d not in self.tags:
                self.expect(b, "revno:" + d, "spec_dotted", None, form="spec_dotted_unknown")
        for r in sorted(anc):
            self.expect(b, "revid:" + r.decode(), "spec_revid", r, self.mainline_revno(r))
        self.expect(b, "revid:no-such-revision-anywhere", "spec_revid", None)
        # before:
        pool = sorted(anc)
        for r in pool:
            lp = g.left_parent(r)
            if lp is None:
                self.ctx.count("before_ghost_left_parent_skipped")
                continue
            forms = ["before:revid:" + r.decode()]
            if r in main:
                forms += ["before:%d" % (lh.index(r) + 1), "before:revno:%d" % (lh.index(r) + 1)]
            else:
                forms.append("before:" + ".".join(map(str, M[r])))
            for s in forms:
                if lp == NULL:
                    self.expect(b, s, "spec_before", NULL, 0 if r in main else "skip", form="spec_before_root")
                else:
                    self.expect(b, s, "spec_before", lp, (lh.index(r) if r in main else self.mainline_revno(lp)) if r in main else "skip")
        if n >= 2:
            self.expect(b, "before:before:%d" % n, "spec_before", lh[n - 3] if n >= 3 else NULL, form="spec_before_nested")
            self.expect(b, "before:-1", "spec_before", lh[n - 2], n - 1)
            self.expect(b, "before:last:1", "spec_before", lh[n - 2], n - 1)
        self.expect(b, "before:0", "spec_before", None, form="spec_before_null")
        self.expect(b, "before:revid:null:", "spec_before", None, form="spec_before_null")
        # last:
        for i in range(1, n + 1):
            self.expect(b, "last:%d" % i, "spec_last", lh[n - i], n - i + 1)
        self.expect(b, "last:", "spec_last", lh[-1], n)
        for s in ("last:%d" % (n + 2), "last:%d" % (n + 7), "last:0", "last:-1", "last:x"):
            self.expect(b, s, "spec_last", None, form="spec_last_oob")
        # tag:
        for t, r in sorted(self.tags.items()):
            if r not in g.P:
                continue
            rn = self.mainline_revno(r)
            self.expect(b, "tag:" + t, "spec_tag", r, rn)
            import re

            if not re.match(r"^(?:(\d+(\.\d+)*)|-\d+)(:.*)?$", t) or t not in used and not t.isdigit():
                self.expect(b, t, "spec_tag", r, rn, form="spec_tag_dwim")
            if r in anc and g.left_parent(r) not in (None, NULL):
                self.expect(b, "before:tag:" + t, "spec_before", g.left_parent(r), form="spec_before_tag")
        self.expect(b, "tag:no such tag", "spec_tag", None, form="spec_tag_unknown")
        # mainline:
        for r in sorted(anc):
            m = g.merger(lh, r)
            forms = ["mainline:revid:" + r.decode()]
            if r not in main:
                forms.append("mainline:" + ".".join(map(str, M[r])))
            else:
                forms.append("mainline:%d" % (lh.index(r) + 1))
            for s in forms:
                self.expect(b, s, "spec_mainline", m, lh.index(m) + 1)
        for r in sorted(set(g.P) - anc)[:2]:
            self.expect(b, "mainline:revid:" + r.decode(), "spec_mainline", None, form="spec_mainline_foreign")
        # specifiers that name their own branch: revno:N:PATH, revno:-N:PATH, revno:a.b.c:PATH - alone (the revision of the
        # OTHER branch) and inside mainline: (still the CONTEXT branch's mainline revision that merged that revision)
        from breezy.branch import Branch

        for path, otip in self.others:
            if otip not in g.P:
                continue
            olh = g.lh(otip)
            on = len(olh)
            try:
                oM = dict(Branch.open(path).get_revision_id_to_revno_map())
            except Exception:  # noqa: BLE001  only used to spell dotted revnos of the other branch
                oM = {}
            inner = [("revno:%d:%s" % (i + 1, path), r, i + 1) for i, r in enumerate(olh)]
            inner.append(("revno:-1:%s" % path, olh[-1], on))
            if on >= 2:
                inner.append(("revno:-2:%s" % path, olh[-2], on - 1))
            inner.append(("-1:%s" % path, olh[-1], on))
            for r, d in sorted(oM.items()):
                if len(d) == 3 and r in g.P:
                    inner.append(("revno:%s:%s" % (".".join(map(str, d)), path), r, None))
            for s_, r, rn in inner:
                self.expect(b, s_, "spec_cross_revno", r, rn)
                if s_.startswith("-"):
                    continue
                if r in anc:
                    m = g.merger(lh, r)
                    self.expect(b, "mainline:" + s_, "spec_cross_mainline", m, lh.index(m) + 1,
                                form="spec_cross_mainline" if r not in main else "spec_cross_mainline_shared")
                    if r not in main:
                        self.ctx.count("spec_cross_mainline_merged_revision")
                else:
                    self.ctx.count("spec_cross_mainline_not_merged_skipped")
            self.expect(b, "revno:%d:%s" % (on + 2, path), "spec_cross_revno", None, form="spec_cross_revno_oob")
        # ancestor:
        for path, otip in self.others:
            self.ctx.count("spec_ancestor")
            ca, lcas = g.lcas(self.tip, otip)
            (st1, v1), (st2, v2) = self.resolve(b, "ancestor:" + path, "spec_ancestor_resolutions")
            if not ca:
                self.ev("spec_ancestor", "no-common:" + st1)
                if st1 == "ok" or st2 == "ok":
                    self.fail("spec:ancestor:no-common-ancestor-but-resolved", "ancestor:%s -> %r / %r" % (path, v1, v2))
                continue
            self.ev("spec_ancestor", st1, len(lcas))
            for st, rid, how in ((st1, v1[1] if st1 == "ok" else None, "in_history"), (st2, v2, "as_revision_id")):
                if st != "ok":
                    self.fail("spec:ancestor:refused", "%s(ancestor:%s) refused with %r; common ancestors exist" % (how, path, v1 if how == "in_history" else v2))
                    continue
                if rid not in ca:
                    self.fail("spec:ancestor:not-a-common-ancestor", "%s(ancestor:%s) -> %r, not a common ancestor of %r and %r" % (how, path, rid, self.tip, otip),
                              lcas=sorted(x.decode() for x in lcas))
                elif len(lcas) == 1 and rid not in lcas:
                    self.fail("spec:ancestor:not-the-unique-lca", "%s(ancestor:%s) -> %r, unique LCA is %r" % (how, path, rid, sorted(lcas)))
                elif not all(rid in g.anc(l) for l in lcas):
                    self.fail("spec:ancestor:not-below-every-lca", "%s(ancestor:%s) -> %r, LCAs %r" % (how, path, rid, sorted(lcas)))
            if st1 == "ok" and v1[0] != self.mainline_revno(v1[1]):
                self.fail("spec:ancestor:in_history-revno", "revno %r for %r" % (v1[0], v1[1]))
        # ranges
        from breezy.option import _parse_revision_str

        for _ in range(3):
            a, c = rng.choice(sorted(anc)), rng.choice(sorted(anc))

            def txt(r):
                k = rng.random()
                if k < 0.4:
                    return "revid:" + r.decode()
                return ".".join(map(str, M[r]))

            s = "%s..%s" % (txt(a), txt(c))
            self.ctx.count("spec_range")
            specs = _parse_revision_str(s)
            got = [x.as_revision_id(b) for x in specs]
            self.ev("spec_range", "ok")
            if got != [a, c]:
                self.fail("spec:range:endpoints", "%r -> %r, wanted %r" % (s, got, [a, c]), spec=s)
        for s, k in (("%d.." % max(1, n - 1), 0), ("..%d" % n, 1)):
            specs = _parse_revision_str(s)
            self.ctx.count("spec_range")
            if len(specs) != 2 or specs[1 - k].spec is not None or specs[k].as_revision_id(b) != (lh[max(0, n - 2)] if k == 0 else lh[-1]):
                self.fail("spec:range:open-ended", "%r -> %r" % (s, specs), spec=s)


    # ---- the same lookups in other orders, starting from an empty cache, under ONE held lock
    def order_sequences(self):
        """name -> order in which the revnos 1..n are asked for."""
        n = self.n
        down = list(range(n, 0, -1))
        bis, todo = [], [(1, n)]
        while todo:
            lo, hi = todo.pop(0)
            if lo > hi:
                continue
            mid = (lo + hi) // 2
            bis.append(mid)
            todo += [(mid + 1, hi), (lo, mid - 1)]
        shuf = list(down)
        self.ctx.rng.shuffle(shuf)
        return {"newest-first": down, "bisection": bis, "shuffled": shuf}

    def order_pass(self, b, order, seq, mode):
        """Ask for every mainline revision in the order `seq`; `b` is locked by the caller and nothing else is asked in between,
        so what one lookup leaves in the branch's history caches is what the next one starts from."""
        from breezy.revisionspec import RevisionSpec

        from breezy.branch import Branch

        ctx, rng, lh, n = self.ctx, self.ctx.rng, self.lh, self.n
        ok = True
        asked = []
        generic = type(b).get_rev_id is Branch.get_rev_id

        def bad(key, msg):
            self.fail("lookup-order:" + key, "%s order (%s), after %r: %s" % (order, mode, asked[-6:], msg), order=order, sequence=seq, revno=n)

        for i in seq:
            k = n - i + 1
            form = mode if mode != "mixed" else rng.choice(["api", "api", "id_to_revno", "spec"])
            ctx.count("lookup_order")
            if generic:
                ctx.count("lookup_order_generic_get_rev_id")
            if form == "api":
                st, v = _refusal(lambda: b.get_rev_id(i))
                asked.append("get_rev_id(%d)" % i)
                self.ev("order_get_rev_id", st, order)
                if (st, v) != ("ok", lh[i - 1]):
                    bad("get_rev_id", "get_rev_id(%d) -> %s %r, model %r" % (i, st, v, lh[i - 1]))
                    ok = False
            elif form == "id_to_revno":
                st, v = _refusal(lambda: b.revision_id_to_revno(lh[i - 1]))
                asked.append("revision_id_to_revno(#%d)" % i)
                self.ev("order_id_to_revno", st, order)
                if (st, v) != ("ok", i):
                    bad("revision_id_to_revno", "revision_id_to_revno(%r) -> %s %r, model %d" % (lh[i - 1], st, v, i))
                    ok = False
                    continue
                st, v = _refusal(lambda: b.get_rev_id(i))
                if (st, v) != ("ok", lh[i - 1]):
                    bad("revno-roundtrip", "get_rev_id(revision_id_to_revno(%r)) -> %s %r" % (lh[i - 1], st, v))
                    ok = False
            else:
                kind, s, want = rng.choice([
                    ("number", "revno:%d" % i, (i, lh[i - 1])), ("number", "%d" % i, (i, lh[i - 1])),
                    ("negative", "-%d" % k, (i, lh[i - 1])), ("last", "last:%d" % k, (i, lh[i - 1])),
                    ("before", "before:%d" % i, (i - 1, lh[i - 2] if i > 1 else NULL)),
                    ("before", "before:-%d" % k, (i - 1, lh[i - 2] if i > 1 else NULL))])
                if s in self.tags:
                    continue
                asked.append(s)
                spec = RevisionSpec.from_string(s)

                def hist_():
                    x = spec.in_history(b)
                    return (x.revno, x.rev_id)

                if rng.random() < 0.5:
                    st, v = _refusal(hist_)
                    how = "in_history"
                else:
                    st, v = _refusal(lambda: spec.as_revision_id(b))
                    how, want = "as_revision_id", want[1]
                self.ev("order_spec_" + kind, st, order)
                if (st, v) != ("ok", want):
                    bad("spec:" + kind, "%s(%r) -> %s %r, definition gives %r" % (how, s, st, v, want))
                    ok = False
        return ok

    def run_orders(self, open_fresh):
        """Every order x mode on its own fresh branch object under its own single read lock (caches start empty)."""
        for order, seq in sorted(self.order_sequences().items()):
            for mode in ("api", "spec", "mixed"):
                fb = open_fresh()
                self.ctx.count("lookup_order_pass")
                with fb.lock_read():
                    self.order_pass(fb, order, seq, mode)


# ------------------------------------------------------------------ tip-change hooks that look at the history

class TipHooks:
    """A pre_change_branch_tip hook that looks at the branch's history (as an audit / policy plugin does) and a
    post_change_branch_tip hook that asks about the new tip while the lock that covers the tip change is still held.
    Both only record; judge() compares with the model once the model knows the new revision."""

    PRE, POST = "c22 history-reading pre hook", "c22 history-reading post hook"
    READS = ["id_to_revno", "get_rev_id", "dotted", "map", "merge_sorted", "spec"]

    def __init__(self, ctx):
        self.ctx, self.obs, self.installed = ctx, [], False

    def install(self):
        from breezy.branch import Branch

        Branch.hooks.install_named_hook("pre_change_branch_tip", self.pre, self.PRE)
        Branch.hooks.install_named_hook("post_change_branch_tip", self.post, self.POST)
        self.installed = True

    def uninstall(self):
        from breezy.branch import Branch

        if self.installed:
            Branch.hooks.uninstall_named_hook("pre_change_branch_tip", self.PRE)
            Branch.hooks.uninstall_named_hook("post_change_branch_tip", self.POST)
            self.installed = False

    @staticmethod
    def _ask(fn):
        try:
            return ("ok", fn())
        except Exception as e:  # noqa: BLE001  a hook that raises aborts the operation: record, judge later
            return ("raised", type(e).__name__)

    def pre(self, params):
        rng = self.ctx.rng
        reads = [r for r in self.READS if rng.random() < 0.45] or [rng.choice(self.READS)]
        self._look("pre", params.branch, params.old_revno, params.old_revid, reads, params)

    def post(self, params):
        rng = self.ctx.rng
        reads = [r for r in self.READS if rng.random() < 0.6] or ["get_rev_id"]
        self._look("post", params.branch, params.new_revno, params.new_revid, reads, params)

    def _look(self, when, b, revno, revid, reads, params):
        """Ask `b` about its CURRENT tip (revno, revid): the old one in the pre hook, the new one in the post hook."""
        from breezy.revisionspec import RevisionSpec

        rng = self.ctx.rng
        ans = []
        for r in reads:
            if r == "id_to_revno":
                ans.append((r, revid, self._ask(lambda: b.revision_id_to_revno(revid))))
            elif r == "get_rev_id":
                for j in sorted({max(1, revno - 1), max(1, revno - 2), rng.randint(1, max(1, revno))}, reverse=rng.random() < 0.5):
                    if 1 <= j <= revno:
                        ans.append((r, j, self._ask(lambda: b.get_rev_id(j))))
            elif r == "dotted":
                d = self._ask(lambda: tuple(b.revision_id_to_dotted_revno(revid)))
                ans.append(("dotted", revid, d))
                if d[0] == "ok":
                    ans.append(("dotted_back", d[1], self._ask(lambda: b.dotted_revno_to_revision_id(d[1]))))
            elif r == "map":
                ans.append((r, None, self._ask(lambda: dict(b.get_revision_id_to_revno_map()))))
            elif r == "merge_sorted":
                ans.append((r, None, self._ask(lambda: [(x[0], tuple(x[2])) for x in b.iter_merge_sorted_revisions()])))
            elif r == "spec":
                for s in ("-1", "before:-1", "last:2", "revno:%d" % max(1, revno - 1)):
                    if revno >= 2 or s == "-1":
                        ans.append((r, s, self._ask(lambda: RevisionSpec.from_string(s).as_revision_id(b))))
        self.obs.append({"when": when, "tip": (revno, revid), "answers": ans,
                         "change": "%r -> %r" % ((params.old_revno, params.old_revid), (params.new_revno, params.new_revid))})

    def judge(self, g, hist, phase):
        """Every recorded answer against the model graph (which by now contains the revision just committed)."""
        ctx = self.ctx
        obs, self.obs = self.obs, []
        for o in obs:
            when, (revno, tip) = o["when"], o["tip"]
            ctx.count("tip_hook_" + when)
            if tip == NULL or tip not in g.P:
                ctx.count("tip_hook_tip_outside_model_skipped")
                continue
            lh, anc = g.lh(tip), g.anc(tip)
            n = len(lh)
            merged = len(anc) > n

            def fail(key, msg):
                ctx.fail("tip-hook:%s:%s" % (when, key), "in the %s_change_branch_tip hook of %s (%s): %s" % (when, o["change"], phase, msg),
                         {"phase": phase, "format": hist.fmt, "answers": repr(o["answers"])[:1500], "log": hist.log[-30:]})

            if revno != n:
                fail("params-revno", "hook was told revno %r for tip %r, left-hand history has %d" % (revno, tip, n))
                continue
            for q, arg, (st, v) in o["answers"]:
                ctx.count("tip_hook_answer")
                ctx.note(("tip_hook", when, q, st), nontrivial=merged)
                ctx.distinct("query_outcomes", ("tip_hook", when, q, st))
                if st != "ok":
                    fail(q + ":raised", "%s(%r) raised %s" % (q, arg, v))
                elif q == "id_to_revno" and v != n:
                    fail(q, "revision_id_to_revno(%r) -> %r, model %d" % (arg, v, n))
                elif q == "get_rev_id" and v != lh[arg - 1]:
                    fail(q, "get_rev_id(%d) -> %r, model %r (revno %d)" % (arg, v, lh[arg - 1], n))
                elif q == "dotted" and v != (n,):
                    fail(q, "revision_id_to_dotted_revno(tip %r) -> %r, model (%d,)" % (arg, v, n))
                elif q == "dotted_back" and v != tip:
                    fail(q, "dotted_revno_to_revision_id(%r) -> %r, wanted the tip %r" % (arg, v, tip))
                elif q == "map" and (set(v) != anc or any(v[r] != (i + 1,) for i, r in enumerate(lh))):
                    fail(q, "revno map has %d keys (ancestry %d) or numbers the mainline differently: %r" % (
                        len(v), len(anc), [v.get(r) for r in lh]))
                elif q == "merge_sorted" and (sorted(x[0] for x in v) != sorted(anc) or [x[0] for x in v if len(x[1]) == 1] != lh[::-1]):
                    fail(q, "iter_merge_sorted_revisions lists %d revisions (ancestry %d), mainline part %r" % (
                        len(v), len(anc), [x[0] for x in v if len(x[1]) == 1]))
                elif q == "spec":
                    want = {"-1": tip, "before:-1": lh[n - 2] if n >= 2 else None, "last:2": lh[n - 2] if n >= 2 else None}.get(arg)
                    if arg.startswith("revno:"):
                        want = lh[int(arg[6:]) - 1]
                    if want is not None and v != want:
                        fail(q, "as_revision_id(%r) -> %r, definition gives %r" % (arg, v, want))


# ------------------------------------------------------------------ remote branch, in process

class PipeServer:
    """The real smart server medium serving hist.root over two os.pipe()s, the real client medium on the other end."""

    def __init__(self, root):
        import threading

        from breezy.bzr.smart import medium
        from breezy.transport import get_transport
        from breezy.transport import remote as tremote

        c2s_r, c2s_w = os.pipe()
        s2c_r, s2c_w = os.pipe()
        self.files = [os.fdopen(c2s_r, "rb", 0), os.fdopen(s2c_w, "wb", 0), os.fdopen(s2c_r, "rb", 0), os.fdopen(c2s_w, "wb", 0)]
        srv = medium.SmartServerPipeStreamMedium(self.files[0], self.files[1], get_transport(root), timeout=120)
        self.thread = threading.Thread(target=self._serve, args=(srv,), daemon=True)
        self.thread.start()
        self.client = medium.SmartSimplePipesClientMedium(self.files[2], self.files[3], "bzr://c22/")
        self.transport = tremote.RemoteTransport("bzr://c22/", medium=self.client)

    @staticmethod
    def _serve(srv):
        try:
            srv.serve()
        except Exception:  # noqa: BLE001  pipe closed under it at the end of the case
            pass

    def open_branch(self, name):
        from breezy.controldir import ControlDir

        return ControlDir.open_from_transport(self.transport.clone(name)).open_branch()

    def close(self):
        for f in (self.files[3], self.files[2]):
            try:
                f.close()
            except Exception:  # noqa: BLE001
                pass
        self.thread.join(5)
        for f in self.files[:2]:
            try:
                f.close()
            except Exception:  # noqa: BLE001
                pass


# ------------------------------------------------------------------ the case

def _edit_and_commit(ctx, hist, name, wt, g, tag):
    """One more commit through the held tree object; returns new revid."""
    rng = ctx.rng
    with open(os.path.join(wt.basedir, "interleaved.txt"), "ab") as f:
        f.write(b"step %s %d\n" % (tag.encode(), rng.randint(0, 10**6)))
    if not wt.is_versioned("interleaved.txt"):
        wt.add(["interleaved.txt"])
    parents = list(wt.get_parent_ids())
    rid = ("rev-%s-x%d" % (name, len(g.P) + 1)).encode()
    wt.commit("interleaved " + tag, rev_id=rid, timestamp=1600000000 + len(g.P), timezone=0, committer="I <i@example.com>")
    g.P[rid] = parents
    g._anc.clear()
    return rid


FORMATS = ("pack-0.92", "2a", "knit", "2a")  # knit: full-history branch (BzrBranch5), the generic Branch.get_rev_id


def case(ctx):
    from breezy.branch import Branch
    from breezy.workingtree import WorkingTree

    rng = ctx.rng
    fmt = FORMATS[ctx.index % 4]
    # two cases in three install tip-change hooks that read the history (each format gets both kinds of case)
    hooked = (ctx.index // 4) % 3 != 2
    quick = ctx.tier == "quick"
    nrevs = rng.randint(5, 9) if quick else rng.randint(8, 24)
    mix = {"plain": 26, "branch": 14, "merge": 34, "crisscross": 12, "parallel": 2, "cherrypick": 8, "resurrect": 0}
    try:
        # format-5 branches have no tag store
        hist = H.build(ctx, rng, fmt, nrevs=nrevs, tier=ctx.tier, light=True, ghosts=(ctx.index % 5 == 0), tags=(fmt != "knit"),
                       nbranches=3, mix=mix)
    except BaseException as e:
        if isinstance(e, (KeyboardInterrupt, SystemExit)):
            raise
        ctx.hist("build-error:" + type(e).__name__)
        ctx.discard("history construction failed: " + type(e).__name__)
    for s, k in hist.shapes.items():
        ctx.hist("shape:" + s, k)
    ctx.hist("format:" + fmt)
    g = G({r: list(p) for r, p in hist.parents.items()})
    names = sorted(hist.trees)
    # the model graph must be what the repository recorded (read back, plain data)
    for nm in names:
        br = Branch.open(hist.trees[nm])
        with br.lock_read():
            for r in br.repository.all_revision_ids():
                ctx.count("graph_readback")
                if list(br.repository.get_revision(r).parent_ids) != g.P.get(r):
                    ctx.fail("model:recorded-parents-differ", "%r: %r vs requested %r" % (r, br.repository.get_revision(r).parent_ids, g.P.get(r)))
                    return
    # branch with the most merged revisions is the subject
    def score(nm):
        t = Branch.open(hist.trees[nm]).last_revision()
        return len(g.anc(t)) - len(g.lh(t))

    subject = max(names, key=lambda nm: (score(nm), nm)) if rng.random() < 0.8 else rng.choice(names)
    ctx.info = {"format": fmt, "subject": subject, "history_reading_tip_hooks": hooked}
    wt = WorkingTree.open(hist.trees[subject])
    b = wt.branch

    def context(tip):
        tags = dict(hist.tags.get(subject, {}))
        others = []
        for nm in names:
            if nm != subject:
                others.append((hist.trees[nm], Branch.open(hist.trees[nm]).last_revision()))
        return tags, others

    def battery(branch, tip, phase, order_first=False):
        """The Battery object when the branch API part held (specs were then run too), else None."""
        tags, others = context(tip)
        bt = Battery(ctx, g, hist, tags, others, phase)
        if order_first:
            # the caller holds the lock and the branch's history caches are empty (tip just moved / object just locked):
            # the first thing asked is then one non-ascending scan, so the battery below also starts from what that left behind
            bt.set_tip(tip)
            if branch.last_revision_info() == (bt.n, tip) and bt.n:
                order, seq = rng.choice(sorted(bt.order_sequences().items()))
                ctx.count("lookup_order_pass_held_object")
                bt.order_pass(branch, order, seq, rng.choice(["api", "spec", "mixed"]))
        if bt.run_branch_api(branch, tip):
            bt.run_specs(branch)
            return bt
        return None

    hooks = TipHooks(ctx)
    hk = "+history-reading-tip-hooks" if hooked else ""
    ctx.hist("case:" + ("tip-hooks-installed" if hooked else "no-hooks"))
    tip = b.last_revision()
    steps = 3 if quick else 6
    try:
        with wt.lock_write():
            if not battery(b, tip, "locked:initial", order_first=rng.random() < 0.3):
                return
            if hooked:
                hooks.install()
            kind = None
            for k in range(steps):
                kind = rng.choice(["commit", "commit", "merge", "merge", "settip"]) if k < steps - 1 else rng.choice(["settip", "merge", "commit"])
                if kind == "merge" and len(names) > 1:
                    other = rng.choice([nm for nm in names if nm != subject])
                    ob = Branch.open(hist.trees[other])
                    otip = ob.last_revision()
                    if otip in g.anc(tip):
                        kind = "commit"
                    else:
                        try:
                            wt.merge_from_branch(ob)
                        except Exception as e:  # noqa: BLE001  workload construction
                            ctx.hist("interleaved-merge-refused:" + type(e).__name__)
                            wt.revert()
                            kind = "commit"
                        else:
                            H.resolve_all(wt)
                            tip = _edit_and_commit(ctx, hist, subject, wt, g, "merge%d" % k)
                            ctx.hist("interleaved:merge")
                if kind == "commit" or (kind == "merge" and len(names) < 2):
                    tip = _edit_and_commit(ctx, hist, subject, wt, g, "c%d" % k)
                    ctx.hist("interleaved:commit")
                elif kind == "settip":
                    # move the tip without committing (what pull / uncommit / push do to a branch)
                    lh = g.lh(tip)
                    cands = [(i + 1, r) for i, r in enumerate(lh[:-1])]
                    foreign = [t for _p, t in context(tip)[1] if t not in g.anc(tip) and t in g.P]
                    if foreign and rng.random() < 0.5:
                        t2 = rng.choice(foreign)
                        try:
                            b.fetch(Branch.open([p for p, t in context(tip)[1] if t == t2][0]), t2)
                            b.generate_revision_history(t2)
                            tip = t2
                            ctx.hist("interleaved:generate_revision_history")
                        except Exception as e:  # noqa: BLE001
                            ctx.hist("interleaved-settip-refused:" + type(e).__name__)
                    elif cands:
                        no, r = rng.choice(cands)
                        b.set_last_revision_info(no, r)
                        tip = r
                        ctx.hist("interleaved:set_last_revision_info")
                hooks.judge(g, hist, "locked:" + kind)
                ctx.count("same_object_after_commit")
                if hooked:
                    ctx.count("same_object_after_hooked_tip_change")
                if not battery(b, tip, "locked:after-" + kind + hk, order_first=rng.random() < 0.4):
                    return
                if kind == "settip":
                    # the working tree is now out of step with its branch: no more commits through it
                    break
        if hooked and kind != "settip":
            # one more commit that nobody's lock surrounds: the post hook is the only place where the lock that covered
            # the tip change is still held
            tip = _edit_and_commit(ctx, hist, subject, WorkingTree.open(hist.trees[subject]), g, "unlocked")
            ctx.hist("interleaved:commit-without-caller-lock")
            hooks.judge(g, hist, "commit-without-caller-lock")
    finally:
        hooks.uninstall()
    # unlocked, fresh object: every call takes and releases its own lock (no cache survives)
    fresh = Branch.open(hist.trees[subject])
    ctx.count("fresh_object")
    bt = battery(fresh, tip, "fresh-unlocked")
    if bt is not None:
        # fresh objects, one read lock each, the mainline asked for newest-first / in bisection order / shuffled
        bt.phase = "fresh-readlocked-orders"
        bt.run_orders(lambda: Branch.open(hist.trees[subject]))
    if ctx.tier == "thorough" and rng.random() < 0.3:
        # the same battery through a RemoteBranch (smart server and client media in this process, over pipes)
        ps = PipeServer(hist.root)
        try:
            rb = ps.open_branch(subject)
            ctx.count("remote_battery")
            ctx.hist("remote:" + type(rb).__name__)
            with rb.lock_read():
                battery(rb, tip, "remote-readlocked", order_first=rng.random() < 0.5)
        finally:
            ps.close()
    if rng.random() < 0.5 and len(names) > 1:
        other = rng.choice([nm for nm in names if nm != subject])
        ob = Branch.open(hist.trees[other])
        with ob.lock_read():
            tags, others = dict(hist.tags.get(other, {})), [(hist.trees[subject], tip)]
            bt = Battery(ctx, g, hist, tags, others, "other-branch-readlocked")
            if bt.run_branch_api(ob, ob.last_revision()):
                bt.run_specs(ob)
            else:
                bt = None
        if bt is not None:
            bt.phase = "other-branch-fresh-readlocked-orders"
            bt.run_orders(lambda: Branch.open(hist.trees[other]))
