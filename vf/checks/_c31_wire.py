"""C31 monitor 2: the same requests over pipes to a real `brz serve --inet` under strace.

Requests are encoded with breezy's own client-side ProtocolThreeRequester; the strace log is parsed
offline for any path inside outer/ but outside outer/served/.
"""
import os
import posixpath
import re
import subprocess
import sys

MARKER = b"bzr message 3 (bzr 1.6)\n"


class _Capture:
    """Stands in for a SmartClientMediumRequest: collects the bytes the requester writes."""

    _medium = None

    def __init__(self):
        self.chunks = []

    def accept_bytes(self, b):
        self.chunks.append(b)

    def finished_writing(self):
        pass


def encode_request(req):
    """Bytes of one protocol-3 request, produced by the real client encoder."""
    from breezy.bzr.smart import protocol

    cap = _Capture()
    r = protocol.ProtocolThreeRequester(cap)
    r.set_headers({b"Software version": b"vf-c31"})
    args = tuple([req["verb"].encode("latin-1")] + [a.encode("latin-1") for a in req["args"]])
    if req.get("chunks") is not None:
        r.call_with_body_stream(args, iter([c.encode("latin-1") for c in req["chunks"]]))
    elif req.get("body") is not None:
        r.call_with_body_bytes(args, req["body"].encode("latin-1"))
    else:
        r.call(*args)
    return b"".join(cap.chunks)


_STR = re.compile(rb'"((?:[^"\\]|\\.)*)"(\.\.\.)?')
_ANN = re.compile(rb"(AT_FDCWD|\d+)<([^>]*)>")
_LINE = re.compile(rb"^(\d+)\s+(?:<\.\.\.\s+)?(\w+)")
_OCT = re.compile(rb"\\([0-7]{1,3}|x[0-9a-fA-F]{2}|.)")
_SIMPLE = {b"n": b"\n", b"t": b"\t", b"r": b"\r", b"v": b"\v", b"f": b"\f", b'"': b'"', b"\\": b"\\", b"a": b"\a", b"b": b"\b", b"e": b"\x1b"}
STAT_FAMILY = {"stat", "lstat", "newfstatat", "statx", "access", "faccessat", "faccessat2", "readlink", "readlinkat", "getcwd", "chdir"}


def _unescape(b):
    def rep(m):
        g = m.group(1)
        if g[:1] == b"x":
            return bytes([int(g[1:], 16)])
        if g[:1].isdigit():
            return bytes([int(g, 8) & 0xFF])
        return _SIMPLE.get(g, g)

    return _OCT.sub(rep, b)


def parse_strace(log_bytes, cwd):
    """Yield (syscall, absolute normalised path, raw line) for every path-looking string argument."""
    for line in log_bytes.split(b"\n"):
        m = _LINE.match(line)
        if not m:
            continue
        syscall = m.group(2).decode("ascii", "replace")
        if syscall in ("execve", "execveat", "resumed"):
            continue
        body = line[m.end():]
        # directory annotation (-y) of a dirfd argument, if any
        strs = list(_STR.finditer(body))
        if not strs:
            continue
        ann = _ANN.search(body)
        base = cwd
        if ann and ann.start() < strs[0].start():     # a dirfd argument, not the "= 3</path>" result
            base = os.fsdecode(ann.group(2))
        for sm in strs:
            raw = _unescape(sm.group(1))
            if not raw:
                continue
            s = os.fsdecode(raw)
            p = s if s.startswith("/") else posixpath.join(base, s)
            yield syscall, posixpath.normpath(p), line


def serve_session(requests, repo, served, cwd, home, allow_writes, log_path, timeout=90):
    """Run one `brz serve --inet` under strace, feed all requests, return (rc, stdout, log, note)."""
    payload = b"".join(encode_request(r) for r in requests)
    cmd = ["strace", "-f", "-s", "16384", "-e", "trace=%file", "-y", "-o", log_path,
           sys.executable, "-m", "breezy", "serve", "--inet", "--directory=" + served]
    if allow_writes:
        cmd.append("--allow-writes")
    env = dict(os.environ)
    env["PYTHONPATH"] = repo
    env["HOME"] = home
    env["PYTHONDONTWRITEBYTECODE"] = "1"
    env.pop("PYTHONHASHSEED", None)
    note = None
    p = subprocess.Popen(cmd, cwd=cwd, env=env, stdin=subprocess.PIPE, stdout=subprocess.PIPE, stderr=subprocess.PIPE,
                         start_new_session=True)
    try:
        out, err = p.communicate(payload, timeout=timeout)
    except subprocess.TimeoutExpired:
        try:
            os.killpg(p.pid, 9)
        except OSError:
            p.kill()
        try:
            out, err = p.communicate(timeout=20)
        except Exception:
            out, err = b"", b""
        note = "timeout"
    try:
        with open(log_path, "rb") as f:
            log = f.read()
    except OSError:
        log = b""
    return p.returncode, out, err, log, note
