"""C08 - stacked branches stay readable from their own repository plus fallbacks.

A generated history lives in source branches; a fallback ("base") branch holds the ancestry of a split
point; a stacked branch is created on top of it through one of the real ways (sprout(stacked=True),
create_clone_on_transport(stacked_on=...) = `push --stacked-on`, `brz branch --stacked`, a fresh branch
with set_stacked_on_url) and then receives more history: pulls, fetches, pushes, direct commits and
merge commits (including merges of revisions that live only in the fallback), in thorough also pushes
through an in-process bzr:// server.  After every step the stacked repository is re-opened

  * WITHOUT fallbacks (controldir.open_repository(); asserted to have none): every revision it holds
    must have each non-ghost parent inventory locally, every text that no parent already has locally,
    and the tree delta against each parent must be computable and the changed texts readable from the
    local repository alone;
  * WITH fallbacks (through the branch): every revision of the tip's ancestry readable, diffable against
    each parent, equal to the source's tree, and Repository.check() clean.
"""
import os

from vf import boot, gen, instr, observe
from vf.checks import _c03_lib as L

ID = "C08"
LEVEL = "exploration"
TECHNIQUE = ("'opened without fallbacks' completeness oracle on the real stacked repository (parent inventories, new texts, local delta computation) "
             "+ readable-with-fallbacks differential against the source + Repository.check()")
LEVEL_TEXT = ("every generated (history, split point, way of creating the stacked branch, sequence of pull/fetch/push/commit/merge steps) is executed on the "
              "real code; after every step the stacked repository is judged without and with its fallback")
RULE = ("case = random history (<= 8 quick / <= 14 thorough revisions, <= 3 branches, merges, ghosts) x split point on the left-hand history x creation "
        "(sprout-stacked|clone-stacked-on|cmd-branch|cmd-push|fresh+set_stacked_on_url) x 1-5 follow-up steps (pull|fetch|push|commit|merge-commit|pack|commit-burst until autopack|install merge-directive bundle|push-bzr), plus batch reads of the stacked branch over bzr:// with mixed revision orders; "
        "one evaluation per judged step; non-trivial = the stacked repository holds at least one revision and the fallback holds one it does not; "
        "distinct = (format, creation, step kinds, local/fallback revision counts, graph shape)")
CASES = {"quick": 48, "thorough": 640}
BUDGET_S = {"quick": 45, "thorough": 780}
MIN_EVALS = {"quick": 20, "thorough": 400}
FLOORS = {"quick": {"local_parent_inventory": 20, "local_new_texts": 20, "local_delta": 20, "readable_with_fallbacks": 15, "check_clean": 15, "pack_steps": 5, "bundle_steps": 4, "remote_batch_reads": 20, "remote_batch_mixed": 4},
          "thorough": {"local_parent_inventory": 800, "local_new_texts": 800, "local_delta": 800, "readable_with_fallbacks": 400, "check_clean": 400,
                       "smart_steps": 20, "pack_steps": 150, "autopack_steps": 15, "bundle_steps": 80, "remote_batch_reads": 400, "remote_batch_mixed": 80}}
ASSUMPTIONS = [
    "ghost parents (never committed by the generator, absent from stacked repository and fallback) are exempt",
    "a revision whose complete tree (all inventory pages, all texts) is stored in the stacked repository itself is not required to have its parent inventories there "
    "(breezy's own formulation of the invariant: 'either all of the file content, or the parent inventory and the delta file content'); a bundle of revisions that "
    "rewrote every file legitimately arrives that way",
    "'texts that differ from the parents' = inventory entries whose (file_id, last-changed revision) no present parent tree carries",
    "pre-2a stacked formats refuse direct commits (documented) and have no commit-time completeness check, so bundle installation is outside the property there "
    "(the property quantifies over 2a stacked formats): only fetch/pull/push/pack steps are applied to them",
    "the fallback repository itself is never modified after the stacked branch was created",
]


def worker_init(tier):
    instr.install()


def _make_branch(path, fmt_name):
    from breezy.controldir import ControlDir

    return ControlDir.create_branch_convenience(path, force_new_tree=False, format=L.fmt(fmt_name))


def _run_bzr(argv):
    from breezy import commands

    commands.install_bzr_command_hooks()
    return commands.run_bzr(argv)


# ---------------------------------------------------------------- the judge

def judge(ctx, stk_path, g, label, src_repo_path=None):
    """Judge the stacked branch at stk_path; returns (n_local, n_fallback_only)."""
    from breezy.branch import Branch
    from breezy.controldir import ControlDir

    d = {"case": label}
    cd = ControlDir.open(stk_path)
    Lr = cd.open_repository()
    if Lr._fallback_repositories:
        ctx.fail("harness:open_repository-has-fallbacks", label)
        return 0, 0
    br = Branch.open(stk_path)
    F = br.repository
    if not F._fallback_repositories:
        ctx.fail("not-stacked", "%s: branch opened without fallback repositories (stacked_on lost?)" % label, d)
        return 0, 0
    n_local = n_fb = 0
    with Lr.lock_read(), F.lock_read():
        local = set(Lr.all_revision_ids())
        everything = set(F.all_revision_ids())
        n_local, n_fb = len(local), len(everything - local)
        inv_keys = set(Lr.inventories.keys())
        text_keys = set(Lr.texts.keys())
        for r in sorted(local):
            rev = Lr.get_revision(r)
            present_parents = [p for p in rev.parent_ids if p in everything]
            if (r,) not in inv_keys:
                ctx.fail("local:own-inventory-missing", "%s: %r" % (label, r), d)
                continue
            tree_f = F.revision_tree(r)
            parent_trees_f = []
            self_contained = None
            for p in present_parents:
                ctx.count("local_parent_inventory")
                if (p,) not in inv_keys:
                    # breezy's own statement of the stacking invariant (VersionedFileCommitBuilder._ensure_fallback_inventories):
                    # "for any revision that is present, we either have all of the file content, or we have the parent inventory
                    # and the delta file content".  A revision whose whole tree is stored locally needs no parent inventory.
                    if self_contained is None:
                        self_contained = _self_contained(Lr, r, text_keys)
                    if self_contained:
                        ctx.count("self_contained_without_parent_inventory")
                    else:
                        ctx.fail("local:parent-inventory-missing", "%s: revision %r is in the stacked repository, inventory of its parent %r is not "
                                 "(and the revision's own tree is not completely stored there either)" % (label, r, p), d)
                parent_trees_f.append(F.revision_tree(p))
            # texts no parent carries
            ctx.count("local_new_texts")
            pinvs = [t.root_inventory for t in parent_trees_f]
            missing = []
            rich = Lr.supports_rich_root()
            for _path, ie in tree_f.root_inventory.iter_entries():
                if not rich and ie.parent_id is None:
                    continue  # plain-root formats keep no text for the tree root
                carried = False
                for pinv in pinvs:
                    if pinv.has_id(ie.file_id) and pinv.get_entry(ie.file_id).revision == ie.revision:
                        carried = True
                        break
                if not carried and (ie.file_id, ie.revision) not in text_keys:
                    missing.append((ie.file_id, ie.revision))
            if missing:
                ctx.fail("local:new-text-missing", "%s: revision %r: %d texts that differ from every parent are not in the stacked repository, e.g. %r" % (
                    label, r, len(missing), missing[:3]), d)
            # the delta against each parent is computable from the stacked repository alone
            for p in present_parents:
                if (p,) not in inv_keys:
                    continue
                ctx.count("local_delta")
                try:
                    tl, pl = Lr.revision_tree(r), Lr.revision_tree(p)
                    changes = list(tl.iter_changes(pl))
                    loc = set()
                    for c in changes:
                        loc.add((c.file_id, c.path, c.changed_content))
                        if c.path[1] is not None and c.kind[1] == "file" and (c.changed_content or c.path[0] is None):
                            ie = tl.root_inventory.get_entry(c.file_id)
                            if not any(pi.has_id(ie.file_id) and pi.get_entry(ie.file_id).revision == ie.revision for pi in pinvs):
                                tl.get_file_text(c.path[1])
                except Exception as e:
                    ctx.fail("local:delta-not-computable", "%s: delta %r vs parent %r from the stacked repository alone: %r" % (label, r, p, e), d)
                    continue
                ref = {(c.file_id, c.path, c.changed_content) for c in tree_f.iter_changes(F.revision_tree(p))}
                if ref != loc:
                    ctx.fail("local:delta-differs", "%s: %r vs %r: local %r, with fallbacks %r" % (label, r, p, sorted(loc ^ ref, key=repr)[:3], len(ref)), d)
        # ---- with fallbacks
        tip = br.last_revision()
        anc = g.ancestry(tip) if tip != L.NULL else set()
        ctx.count("readable_with_fallbacks")
        absent = anc - set(F.has_revisions(anc))
        if absent:
            ctx.fail("fallbacks:ancestor-unreachable", "%s: tip %r: %r not found in stacked repository + fallback" % (label, tip, sorted(absent)[:4]), d)
        src = None
        if src_repo_path is not None:
            from breezy.repository import Repository

            src = Repository.open(src_repo_path)
            src.lock_read()
        try:
            for r in sorted(anc - absent):
                try:
                    t = F.revision_tree(r)
                    snap = observe.snap_tree(t)
                    for p in g.pm[r]:
                        if p in anc:
                            list(t.iter_changes(F.revision_tree(p)))
                except Exception as e:
                    ctx.fail("fallbacks:unreadable", "%s: %r: %r" % (label, r, e), d)
                    continue
                ctx.count("trees_read")
                if src is not None and src.has_revision(r):
                    ssnap = observe.snap_tree(src.revision_tree(r))
                    if snap != ssnap:
                        diff = sorted(p for p in set(snap) | set(ssnap) if snap.get(p) != ssnap.get(p))
                        bad = L.sha_mismatches(t, [p for p in diff if p in snap])
                        if bad and len(bad) == len(diff):
                            # not a stacking problem: the storage layer hands out bytes that do not match the sha1 the inventory records
                            ctx.fail("stored-text:" + L.corruption_kind(snap[bad[0]][1], ssnap.get(bad[0], (None, None))[1]), "%s: %r: stored bytes of %r do not hash to the recorded text_sha1 "
                                     "(got %r, source has %r)" % (label, r, bad[:3], snap[bad[0]][1][-40:], ssnap.get(bad[0], (None, b""))[1][-40:]), d)
                        else:
                            ctx.fail("fallbacks:tree-differs-from-source", "%s: %r differs at %r" % (label, r, diff[:4]), d)
        finally:
            if src is not None:
                src.unlock()
        ctx.count("check_clean")
        probs = observe.check_repo(F)
        if probs:
            own = []
            try:
                res = F.check(None, check_repo=True)
                ip = list(getattr(res, "inconsistent_parents", []) or [])
                own = [x for x in ip if x[0].startswith(b"stk-")]
                rest = [x for x in ip if not x[0].startswith(b"stk-")]
            except Exception:
                rest = ["?"]
            if own:
                ctx.fail("stacked-commit:text-parents-not-heads", "%s: a commit made directly in the stacked branch recorded per-file parents that are "
                         "not heads of the per-file graph (revision, file id, recorded, correct): %r" % (label, own[:3]), d)
            if rest or [x for x in probs if not x.startswith("inconsistent_parents=")]:
                ctx.fail("check-unclean", "%s: %r" % (label, probs), d)
    return n_local, n_fb


def _self_contained(Lr, r, text_keys):
    """True if the stacked repository alone holds the complete tree of r: every inventory page and every text it references."""
    try:
        inv = Lr.revision_tree(r).root_inventory
        for _path, ie in inv.iter_entries():
            if ie.parent_id is None:
                continue  # the (empty) text of the tree root is not needed to read or stream the tree: bundles do not carry it
            if (ie.file_id, ie.revision) not in text_keys:
                return False
        return True
    except Exception:
        return False


def remote_batch_read(ctx, rng, stk_path, g, label):
    """Read the stacked branch through an in-process bzr:// server in ONE batch per call, with revision lists that mix
    fallback-only and stacked-repository revisions in hostile orders; every tree must equal the local read."""
    from breezy.branch import Branch

    d = {"case": label}
    lb = Branch.open(stk_path)
    tip = lb.last_revision()
    if tip == L.NULL:
        return
    with lb.lock_read():
        F = lb.repository
        anc = sorted(r for r in g.ancestry(tip) if F.has_revision(r))
    Lr = lb.controldir.open_repository()
    with Lr.lock_read():
        local = set(Lr.all_revision_ids())
    fb_only = [r for r in anc if r not in local]
    held = [r for r in anc if r in local]
    if not anc:
        return
    orders = []
    if fb_only and held:
        a, b = list(fb_only), list(held)
        rng.shuffle(a)
        rng.shuffle(b)
        orders.append(("fallback-first", a + b))
        ctx.count("remote_batch_mixed")
    sh = list(anc)
    rng.shuffle(sh)
    orders.append(("shuffled", sh))
    with lb.lock_read():
        ref = {r: observe.snap_tree(lb.repository.revision_tree(r)) for r in anc}
    served = boot.scratch_root()
    with L.smart_server(served) as url:
        rb = Branch.open(url.rstrip("/") + "/" + os.path.relpath(stk_path, served))
        try:
            rrepo = rb.repository
            for oname, revs in orders:
                for api in ("revision_trees", "iter_inventories"):
                    ctx.count("remote_batch_reads")
                    try:
                        with rrepo.lock_read():
                            if api == "revision_trees":
                                got = {t.get_revision_id(): observe.snap_tree(t) for t in rrepo.revision_trees(revs)}
                            else:
                                got = {inv.revision_id: None for inv in rrepo.iter_inventories(revs)}
                    except Exception as e:
                        ctx.fail("remote-batch-read:raised", "%s: %s(%s order, %d fallback-only + %d stacked revisions) over bzr:// raised %r" % (
                            label, api, oname, len(fb_only), len(held), e), d)
                        continue
                    if set(got) != set(revs):
                        ctx.fail("remote-batch-read:incomplete", "%s: %s(%s) returned %d of %d revisions" % (label, api, oname, len(got), len(revs)), d)
                    if api == "revision_trees":
                        bad = sorted(r for r in got if r in ref and got[r] != ref[r])
                        if bad:
                            ctx.fail("remote-batch-read:tree-differs", "%s: %s(%s): %r differs from the local read" % (label, api, oname, bad[:3]), d)
        finally:
            L.disconnect(rb)


# ---------------------------------------------------------------- the workload

def case(ctx):
    from breezy import errors
    from breezy.branch import Branch
    from breezy.commit import PointlessCommit
    from breezy.repository import Repository
    from breezy.workingtree import WorkingTree
    from dromedary import get_transport_from_path as get_transport

    rng = ctx.rng
    quick = ctx.tier == "quick"
    fmt = "2a" if quick or rng.random() < 0.6 else rng.choice(["1.9", "1.14", "1.9-rich-root"])
    can_commit = fmt == "2a"
    try:
        hist = gen.build_history(ctx, rng, fmt=fmt, nrevs=rng.randint(4, 8 if quick else 14), nbranches=3, ghosts=True, merges=True,
                                 tags=rng.random() < 0.3, names=gen.Names(ctx.tier))
    except (errors.BzrError, AttributeError) as e:  # AttributeError: gen.build_history names errors.PointlessCommit (lives in breezy.commit)
        ctx.discard("history-construction:%s" % type(e).__name__)
    g = L.MGraph(hist)
    bnames = sorted(hist.trees)
    bM = rng.choice(bnames)
    src_path = hist.trees[bM]
    src = Branch.open(src_path)
    tip = src.last_revision()
    lh, _gh = g.lefthand(tip)
    if len(lh) < 2:
        ctx.discard("mainline-too-short")
    split = rng.choice(lh[1:])
    root = ctx.tmp("c08")
    base_path, stk_path = os.path.join(root, "base"), os.path.join(root, "stk")
    base = _make_branch(base_path, fmt)
    base.pull(src, stop_revision=split)
    extra_head = None
    others = [b for b in bnames if b != bM]
    if others and rng.random() < 0.5:
        # the fallback repository also holds another line of development (not in the base branch's ancestry)
        ob = Branch.open(hist.trees[rng.choice(others)])
        extra_head = ob.last_revision()
        base.repository.fetch(ob.repository, revision_id=extra_head)
    base_url = base.base
    creation = rng.choice(["sprout-stacked", "clone-stacked-on", "cmd-branch", "cmd-push", "fresh"])
    first_req = rng.choice(lh[:lh.index(split) + 1])  # between split and tip
    steps = [creation]
    label = "%s/%s" % (fmt, creation)
    ctx.info = {"label": label, "log": hist.log[-40:], "split": split.decode(), "tip": tip.decode(), "steps": steps}
    if creation == "sprout-stacked":
        Branch.open(base_path).controldir.sprout(stk_path, stacked=True, create_tree_if_local=False)
    elif creation == "clone-stacked-on":
        src.create_clone_on_transport(get_transport(stk_path), revision_id=first_req, stacked_on=base_url, no_tree=True)
    elif creation == "cmd-branch":
        _run_bzr(["branch", "--stacked", "--no-tree", base_path, stk_path])
    elif creation == "cmd-push":
        args = ["push", "-d", src_path, "--stacked-on", base_url, "--no-tree", stk_path]
        if first_req != tip:
            args[1:1] = ["-r", "revid:" + first_req.decode()]
        _run_bzr(args)
    else:
        b = _make_branch(stk_path, fmt)
        b.set_stacked_on_url(base_url if rng.random() < 0.5 else "../base")
    base_fp = L.fingerprint(os.path.join(base_path, ".bzr", "repository"))

    def judged(step):
        nl, nf = judge(ctx, stk_path, g, "%s/after:%s" % (label, "+".join(steps)), src_path)
        if nl > 0 and rng.random() < (0.6 if quick else 0.4):
            remote_batch_read(ctx, rng, stk_path, g, "%s/after:%s" % (label, "+".join(steps)))
        ctx.hist("step:" + step)
        ctx.distinct("split", (nl > 0, nf > 0, min(nl, 4), min(nf, 4)))
        ctx.note((fmt, tuple(steps), nl, nf, sorted(g.pm[r] for r in g.ancestry(Branch.open(stk_path).last_revision()))),
                 nontrivial=nl > 0 and nf > 0,
                 sample={"case": label, "steps": list(steps), "local_revisions": nl, "fallback_only_revisions": nf,
                         "split": split.decode(), "tip": Branch.open(stk_path).last_revision().decode()})

    judged(creation)
    nsteps = rng.randint(1, 3)
    co_path = os.path.join(root, "co")
    n_commit = 0
    kinds = ["pull", "fetch", "push", "pack"] + (["bundle", "bundle"] if can_commit else []) + (["commit", "commit", "merge-commit", "merge-commit"] if can_commit else []) + ([] if quick else ["push-bzr", "pull-bzr"])
    plan = [rng.choice(kinds) for _i in range(nsteps)]
    # repacking must keep the parent inventories that were filled in from the fallback: an explicit pack() closes most cases,
    # some 2a cases run separate commits until the autopack of the tenth pack fires
    if can_commit and rng.random() < 0.35:
        plan.insert(rng.randint(0, len(plan)), "bundle")
    if can_commit and rng.random() < 0.2:
        plan.append("commit-burst")
    if plan[-1] != "pack" and rng.random() < 0.6:
        plan.append("pack")
    for step in plan:
        steps.append(step)
        stk = Branch.open(stk_path)
        cur = stk.last_revision()
        if step == "bundle":
            # a merge directive (bundle) of the revisions between the stacked tip and a descendant, installed into the stacked
            # repository as `brz pull <file>` / `brz merge <file>` do.  A bundle does not carry the base's inventory: the installation
            # is either refused with the repository unchanged, or what arrives is complete (judged as every other step).
            from breezy import merge_directive

            cands = []
            for bn in bnames:
                ob = Branch.open(hist.trees[bn])
                for r in sorted(g.ancestry(ob.last_revision())):
                    if r != cur and (cur == L.NULL or (cur in g.pm and cur in g.ancestry(r))):
                        cands.append((hist.trees[bn], r))
            if cur == L.NULL:
                steps[-1] = "bundle:nothing-ahead"
                continue
            if not cands or rng.random() < 0.65:
                # a contributor's branch made from the stacked tip: C adds a file and edits one, D edits again; most of the
                # tree stays untouched, so the bundle carries neither the base inventory nor the unchanged texts
                n_commit += 1
                work = os.path.join(root, "work%d" % n_commit)
                stk.controldir.sprout(work, revision_id=cur)
                wwt = WorkingTree.open(work)
                newname = "bundle-new-%d" % n_commit
                with open(os.path.join(work, newname), "wb") as f:
                    f.write(b"new in C %d\n" % n_commit)
                wwt.add([newname], ids=[("bundle-new-id-%d-%d" % (ctx.index, n_commit)).encode()])
                with wwt.lock_read():
                    files = sorted(p for p, ie in wwt.iter_entries_by_dir() if ie.kind == "file" and p != newname and os.path.isfile(os.path.join(work, p)))
                if files:
                    with open(os.path.join(work, rng.choice(files)), "ab") as f:
                        f.write(b"edited in C\n")
                for tag in ("c", "d"):
                    if tag == "d":
                        with open(os.path.join(work, newname), "ab") as f:
                            f.write(b"D\n")
                    parents = wwt.get_parent_ids()
                    rid = ("stk-%d-%d%s" % (ctx.index, n_commit, tag)).encode()
                    wwt.commit("contributed %s" % tag, rev_id=rid, timestamp=1600000000 + n_commit, timezone=0, committer="C <c@example.com>")
                    g.add(rid, parents)
                sb_path, req = work, rid
                steps[-1] = "bundle-contributed"
            else:
                sb_path, req = rng.choice(cands)
            sb = Branch.open(sb_path)
            md = merge_directive.MergeDirective2.from_objects(repository=sb.repository, revision_id=req, time=1600000000.0, timezone=0,
                                                              target_branch=base_url, base_revision_id=cur)
            received = merge_directive.MergeDirective.from_lines(md.to_lines())
            alone = stk.controldir.open_repository()
            with alone.lock_read():
                held_before = set(alone.all_revision_ids())
            ctx.count("bundle_steps")
            refused = None
            with stk.lock_write():
                try:
                    received.install_revisions(stk.repository)
                except Exception as e:
                    refused = e
                else:
                    stk.generate_revision_history(req)
            if refused is not None:
                ctx.hist("bundle:refused:%s" % type(refused).__name__)
                alone = Branch.open(stk_path).controldir.open_repository()
                with alone.lock_read():
                    held_after = set(alone.all_revision_ids())
                ctx.check(held_after == held_before, "bundle:refused-but-repository-changed", "%s: installation raised %r, stacked repository gained %r" % (
                    label, refused, sorted(held_after - held_before)[:4]), {"case": label})
                steps[-1] += ":refused"
            else:
                ctx.hist("bundle:accepted")
                ctx.count("bundle_accepted")
            judged(steps[-1])
            continue
        if step == "pack":
            ctx.count("pack_steps")
            if rng.random() < 0.5:
                repo = stk.repository                      # with fallbacks, as `brz pack <branch>` does
            else:
                repo = stk.controldir.open_repository()    # the stacked repository on its own
            with repo.lock_write():
                repo.pack()
            judged(step)
            continue
        if step == "commit-burst":
            if cur == L.NULL:
                steps[-1] = step + ":skipped-empty"
                continue
            if not os.path.isdir(co_path):
                stk.create_checkout(co_path, lightweight=True)
            wt = WorkingTree.open(co_path)
            if wt.last_revision() != cur:
                wt.update()
                gen.resolve_all(wt)
                wt = WorkingTree.open(co_path)
            packs_dir = os.path.join(stk_path, ".bzr", "repository", "packs")
            prev = len(os.listdir(packs_dir))
            autopacked = False
            for j in range(14):
                with open(os.path.join(co_path, "burst-file"), "ab") as f:
                    f.write(b"burst %d\n" % j)
                if not wt.is_versioned("burst-file"):
                    wt.add(["burst-file"], ids=[b"burst-file-id"])
                n_commit += 1
                parents = wt.get_parent_ids()
                rid = ("stk-%d-%d" % (ctx.index, n_commit)).encode()
                wt.commit("burst %d" % j, rev_id=rid, timestamp=1600000000 + n_commit, timezone=0, committer="S <s@example.com>")
                g.add(rid, parents)
                now = len(os.listdir(packs_dir))
                if now <= prev:
                    autopacked = True
                    break
                prev = now
            ctx.hist("commit-burst:autopacked=%s" % autopacked)
            if autopacked:
                ctx.count("autopack_steps")
            judged(step)
            continue
        if step in ("pull", "push", "fetch", "push-bzr", "pull-bzr"):
            sb_path = hist.trees[rng.choice(bnames)] if rng.random() < 0.35 else src_path
            sb = Branch.open(sb_path)
            stip = sb.last_revision()
            req = stip if rng.random() < 0.6 else rng.choice(sorted(g.ancestry(stip)))
            overwrite = g.relation(cur, req) == "diverged" if cur in g.pm or cur == L.NULL else True
            if step == "pull":
                stk.pull(sb, stop_revision=req, overwrite=overwrite)
            elif step == "push":
                sb.push(stk, stop_revision=req, overwrite=overwrite)
            elif step == "fetch":
                stk.repository.fetch(sb.repository, revision_id=req)
            else:
                served = boot.scratch_root()
                with L.smart_server(served) as url:
                    ctx.count("smart_steps")
                    rel = lambda p: url.rstrip("/") + "/" + os.path.relpath(p, served)
                    if step == "push-bzr":
                        rb = Branch.open(rel(stk_path))
                        try:
                            sb.push(rb, stop_revision=req, overwrite=overwrite)
                        finally:
                            L.disconnect(rb)
                    else:
                        rs = Branch.open(rel(sb_path))
                        try:
                            stk.pull(rs, stop_revision=req, overwrite=overwrite)
                        finally:
                            L.disconnect(rs)
        else:
            if cur == L.NULL:
                steps[-1] = step + ":skipped-empty"
                continue
            if not os.path.isdir(co_path):
                stk.create_checkout(co_path, lightweight=True)
            wt = WorkingTree.open(co_path)
            if wt.last_revision() != cur:
                wt.update()
                gen.resolve_all(wt)
                wt = WorkingTree.open(co_path)
            if step == "merge-commit":
                # candidates: heads that may live only in the fallback, or only in a source repository
                cands = []
                if extra_head is not None:
                    cands.append((Branch.open(base_path), extra_head, "fallback-only-head"))
                cands.append((Branch.open(base_path), Branch.open(base_path).last_revision(), "base-tip"))
                for bn in bnames:
                    ob = Branch.open(hist.trees[bn])
                    cands.append((ob, ob.last_revision(), "source-head"))
                rng.shuffle(cands)
                done = False
                for ob, rev, why in cands:
                    if rev == L.NULL or (cur in g.pm and g.is_ancestor(rev, cur)):
                        continue
                    try:
                        with wt.lock_write():
                            wt.merge_from_branch(ob, to_revision=rev)
                    except errors.BzrError as e:
                        ctx.hist("merge-refused:%s" % type(e).__name__)
                        wt = WorkingTree.open(co_path)
                        wt.revert()
                        continue
                    gen.resolve_all(wt)
                    ctx.hist("merge-of:" + why)
                    done = True
                    break
                if not done:
                    steps[-1] = "merge-commit:nothing-to-merge"
                    gen.random_delta(rng, wt, gen.Names(ctx.tier), rng.randint(1, 3))
            else:
                gen.random_delta(rng, wt, gen.Names(ctx.tier), rng.randint(1, 4))
            n_commit += 1
            parents = wt.get_parent_ids()
            rid = ("stk-%d-%d" % (ctx.index, n_commit)).encode()
            try:
                wt.commit("commit in the stacked branch %d" % n_commit, rev_id=rid, timestamp=1600000000 + n_commit, timezone=0,
                          committer="S <s@example.com>")
            except PointlessCommit:
                steps[-1] = step + ":pointless"
                wt.revert()
                continue
            g.add(rid, parents)
        judged(steps[-1])
    ctx.count("fallback_untouched")
    if L.fingerprint(os.path.join(base_path, ".bzr", "repository")) != base_fp:
        ctx.fail("fallback-repository-modified", "%s: steps %r changed the fallback repository" % (label, steps), {"case": label})
