"""C30 helper: well-formed protocol-3 requests whose body the server's message handler REJECTS.

A v3 client cannot know whether the verb it calls will be answered as soon as the arguments
arrive (the verb takes no body, its do() fails at once - no repository at that path, no such file,
lock contention ..., or simply succeeds) - it sends its body anyway.  The server then has written its
response at args time, ConventionalRequestHandler is in state 'end', and every following message part
('b' bytes parts, the 'oS' / 'oE' status byte of a body stream, the error structure after 'oE')
makes the handler raise.  The decoder must still track the message and stop reading exactly at its
trailing 'e': these are the executions in which ProtocolThreeDecoder.accept_bytes restarts its state
machine after SmartMessageHandlerError.

Nothing here decides a verdict: this module generates the exchanges (MWire dicts understood by
_c29_wire), registers one more harness verb (do() raises), and observes - never changes - what the real
ConventionalRequestHandler callbacks do (which callback raised, in which handler state).
"""
from breezy.bzr.smart import message as MSG
from breezy.bzr.smart import request as RQ

from . import _c29_wire as W

VERB_RAISE = b"vf.c30.raise"      # do() raises: the error response is built and sent at args time

# real verbs that answer at args time on the (empty, shared, in-memory) backing transport; none of them
# changes the backing transport, so the response to a given request is the same on every run
REAL = [
    (b"hello", ()),
    (b"Transport.is_readonly", ()),
    (b"has", (b"nothing",)),
    (b"stat", (b"nothing",)),
    (b"get", (b"nothing",)),
    (b"list_dir", (b"nothing",)),
    (b"iter_files_recursive", (b"nothing",)),
    (b"BzrDir.open_2.1", (b"nothing/",)),
    (b"BzrDir.open_branchV3", (b"nothing/",)),
    (b"BzrDir.find_repositoryV3", (b"nothing/",)),
    (b"Branch.last_revision_info", (b"nothing/",)),
    (b"Branch.get_config_file", (b"nothing/",)),
    (b"Branch.set_tags_bytes", (b"nothing/", b"tok", b"tok")),
    (b"Branch.set_config_option_dict", (b"nothing/", b"tok", b"tok", b"name", b"")),
    (b"Repository.get_parent_map", (b"nothing/", b"include-missing:", b"rev-1")),
    (b"Repository.get_parent_map", (b"nothing/", b"rev-1", b"rev-2")),
    (b"Repository.insert_stream_1.19", (b"nothing/", b"", b"tok")),
    (b"Repository.insert_stream_locked", (b"nothing/", b"", b"tok")),
    (b"Repository.get_stream_1.19", (b"nothing/", b"2a")),
    (b"Repository.add_signature_text", (b"nothing/", b"tok", b"rev-1", b"tok")),
    (b"Repository.iter_revisions", (b"nothing/",)),
    (b"Repository.get_revision_graph", (b"nothing/", b"")),
]

_installed = [False]
RAISED = {}     # "<callback>@<handler state before the call>" -> count since last drain()


def install():
    if _installed[0]:
        return
    _installed[0] = True
    W.install()

    class _Raise(RQ.SmartServerRequest):
        def do(self, *args):
            cur = W._CUR[0]
            cur.calls.append(("do", args))
            raise W.EXC[cur.x["raise"]][0]()

        def do_chunk(self, chunk_bytes):
            W._CUR[0].calls.append(("chunk", chunk_bytes))
            RQ.SmartServerRequest.do_chunk(self, chunk_bytes)

        def do_body(self, body_bytes):
            W._CUR[0].calls.append(("end_body", body_bytes))
            return RQ.SmartServerRequest.do_body(self, body_bytes)

    RQ.request_handlers.register(VERB_RAISE, _Raise, info="read")

    cls = MSG.ConventionalRequestHandler

    def observe(name):
        orig = getattr(cls, name)

        def observed(self, *a):
            before = self.expecting
            try:
                return orig(self, *a)
            except BaseException:
                k = "%s@%s" % (name, before)
                RAISED[k] = RAISED.get(k, 0) + 1
                raise

        observed.__name__ = name
        setattr(cls, name, observed)

    for name in ("byte_part_received", "bytes_part_received", "structure_part_received", "end_received"):
        observe(name)


def drain():
    out = dict(RAISED)
    RAISED.clear()
    return out


def _qbody(rng, big_p):
    k = rng.choice(["bytes", "bytes", "readv", "stream", "stream", "stream_err"])
    if k == "bytes":
        # mostly small: the part structure matters here, and the real handler's error message repr()s the whole part
        r = rng.random()
        n = (W._body_size(rng, 1.0) if r < big_p else 0 if r < 0.1 else 1 if r < 0.2 else rng.randint(2, 50) if r < 0.65
             else rng.randint(51, 600) if r < 0.95 else rng.randint(601, 5000))
        return ("bytes", W._blob(rng, n))
    if k == "readv":
        n = rng.choice([0, 1, 2, 3, rng.randint(4, 30)])
        return ("readv", [(rng.randint(0, 2 ** 40), rng.choice([0, 1, rng.randint(0, 70000)])) for _ in range(n)])
    chunks = W._chunks(rng, big_p)
    if rng.random() < 0.5 or (k == "stream" and not chunks):   # a successful stream without chunks has no part to reject
        # fragments that look like message parts to a decoder that lost its place
        chunks = chunks + [rng.choice([b"e", b"oS", b"b\0\0\0\x01", b"\0\0\0\0", b"s\0\0\0\x02le", b"\0\0\0\x01e"])]
    return (k, chunks)


def gen_reject(rng, big_p):
    """One v3 exchange whose request carries a body although the verb answers at args time."""
    fam = rng.choice(["echo", "echo", "raise", "real", "real"])
    if fam == "real" or (fam == "raise" and not W.EXC):
        verb, args = rng.choice(REAL)
        x = {"v": 3, "verb": verb, "args": args, "known": True, "ok": True, "rargs": (), "rbody": ("none",),
             "expect_body": False, "real": True, "family": "real:" + verb.decode(),
             "headers": {b"Software version": b"vf-c30"} if rng.random() < 0.7 else {}}
    else:
        while True:
            x = W.gen_exchange(rng, big_p=big_p, allow_extra=False)
            if x["v"] == 3 and x["known"]:
                break
        x["verb"] = W.VERB_NOBODY
        x["family"] = "echo-ok" if x["ok"] else "echo-failed"
        if fam == "raise":
            name = rng.choice(sorted(W.EXC))
            x.update(verb=VERB_RAISE, ok=False, rargs=W.EXC[name][1], rbody=("none",), family="raise:" + name)
            x["raise"] = name
    x["qbody"] = _qbody(rng, big_p)
    x["reject"] = True
    x["eq"] = x["er"] = b""
    return x


def judge_reject(x, exp, fail, tag):
    """What the harness verb saw: dispatched once with the encoded args, never handed a body."""
    if x.get("real"):
        return
    calls = exp.calls
    d = {"shape": W.shape(x), "family": x["family"], "driver": tag}
    dos = [c[1] for c in calls if c[0] == "do"]
    if len(dos) != 1:
        fail("request:not-dispatched-exactly-once", "do() called %d times" % len(dos), d)
        return
    if tuple(dos[0]) != tuple(x["args"]):
        fail("request:args-differ", "decoded %r != encoded %r" % (dos[0], x["args"]), d)
    if any(c[0] in ("body", "chunk") for c in calls) or any(c[1] for c in calls if c[0] == "end_body"):
        fail("request:body-delivered-after-response", "body bytes reached a verb that had answered at args time", d)
    want = 0 if x["verb"] == VERB_RAISE else 1
    if exp.responses != want:
        fail("request:response-not-built-exactly-once", "%d responses built" % exp.responses, d)
