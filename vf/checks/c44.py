"""C44 - fast-export followed by fast-import preserves history.

Generated multi-branch histories (merges, renames, deletions, symlinks, exec
changes, kind changes, tags; no empty directories) are exported with the real
BzrFastExporter into a byte stream which the real GenericProcessor imports
into an empty shared repository; both histories are then read through the
public repository / tree API and compared revision by revision.
"""
import hashlib
import io
import os

from vf import gen, observe
from vf.checks._c43_delta import Delta

ID = "C44"
LEVEL = "exploration"
TECHNIQUE = ("round-trip oracle: real BzrFastExporter -> bytes -> real GenericProcessor; source and imported history compared under the "
             "mark mapping (revision count, ordered parents, tip, per-revision trees by path, message/committer/timestamp/timezone, tags)")
LEVEL_TEXT = ("every round trip executed on generated 2a histories of up to 3 branches with merges (plain and rich stream format, with and "
              "without tag rewriting) was compared completely: same number of revisions, parent lists equal under the export-order mapping "
              "(so graph and left-hand shape), every revision's tree equal by path (kind, bytes, link target, exec bit), commit message, "
              "committer, timestamp, timezone, branch tip and tags")
RULE = ("case = one generated history (6-10 quick / 10-22 thorough revisions, <= 3 branches, merges, tags), each branch tip exported in one "
        "stream mode; one evaluation = one export+import round trip judged; non-trivial = exported ancestry has >= 4 revisions and contains "
        "a merge, a rename or a removal; distinct = (mode, graph shape, per-revision delta classes hash)")
CASES = {"quick": 64, "thorough": 1600}
BUDGET_S = {"quick": 40, "thorough": 600}
MIN_EVALS = {"quick": 40, "thorough": 1200}
FLOORS = {"stream_commit_checked": 200, "import_commit_checked": 150, "roundtrip": 40, "rev_parents": 200, "rev_tree": 200, "rev_meta": 200, "merge_revs": 20, "tags_compared": 15,
          "delta_renamed": 40, "delta_removed": 40, "delta_swap": 5, "shape_rm_mv_onto_modify": 8, "shape_dir_rename_onto_prefix_name": 8, "symlink_entries": 40, "exec_entries": 40, "plain": 15, "rich": 15}
SHARDS = {"quick": 6}  # every worker pays the same start-up (imports are compiled per process); fewer, longer shards
EXHAUSTIVE = {"quick": False, "thorough": False}
ASSUMPTIONS = [
    "no empty directories in any committed tree (the generator fills or removes them before every commit): the plain stream cannot "
    "carry them and the importer prunes them",
    "no ghosts; timestamps are whole seconds and timezones whole minutes (the stream format's resolution)",
    "revision ids and file ids are new after import (documented); trees are compared by path, graphs under the export mark mapping "
    "(exporter.revid_to_mark then importer cache_mgr.marks)",
    "plain mode: tags whose name is not a valid git ref are documented to be skipped (or rewritten with rewrite_tags); only the "
    "others are required to arrive; validity judged for the generator's 4 tag names by a one-line rule (no space)",
    "authors other than the committer are generated but not judged (the property statement does not mention them)",
    "rich mode: if the importer rejects the stream's 'property' lines (recorded as a failure) the same stream is re-imported with "
    "those lines removed so that the rest of the history is still judged",
    "verdicts come from the end-to-end comparison only; two per-commit side checks (stream vs source tree under git-fast-import's "
    "documented sequential semantics - 60-line model in _c44_stream.py; imported tree vs what the commands make of the imported parent) "
    "only name the side a failing revision is attributed to (key prefix export:stream: / import:tree: / import:raised:), a tree "
    "difference is reported at the revision where it starts (not at descendants that inherit it); the mechanism part of the key is "
    "decided from what the revision does to the failing path and its ancestor directories and from the commands the commit contains "
    "(_export_family, _import_family, _import_crash_family), else the detailed <delta class>:<symptom> key is kept",
    "the importer runs in a forked server process under RLIMIT_CPU (12 CPU-seconds per stream, typical 0.1-0.5): non-termination is "
    "decided by CPU time consumed, not by wall clock; faulthandler supplies the innermost Python frame",
]

WEIGHTS = {"mkfile": 6, "mkdir": 3, "symlink": 2, "add": 9, "edit": 8, "chmod": 3, "rename": 7,
           "remove": 3, "unversion": 1, "delete_disk": 0, "kindchange": 1}
TAGS = ["v1", "rel 2", "t/x", "über"]


def _where(e):
    from vf import runner

    return runner._where(e.__traceback__)


_WARM = (b"reset refs/heads/master\ncommit refs/heads/master\nmark :1\ncommitter W <w@example.com> 1500000000 +0000\ndata 1\nw\n"
         b"M 644 inline a/b\ndata 2\nx\n\nM 120000 inline l\ndata 1\na\ncommit refs/heads/master\nmark :2\n"
         b"committer W <w@example.com> 1500000001 +0000\ndata 1\nw\nfrom :1\nR a/b c\nD l\nreset refs/tags/t\nfrom :2\n\n")


def worker_init(tier):
    """Resolve every lazy import of the importer once in the worker, so that the forked import children start warm."""
    from vf import boot

    d = boot.fresh_dir("c44warm")
    try:
        _import_here(d, _WARM)
    finally:
        boot.rm(d)
    _start_server()
    import atexit

    atexit.register(_stop_server)


# ---------------------------------------------------------------- history generation (gen.build_history with a pre-commit fixup)

def _no_empty_dirs(rng, wt, log):
    """Fill or remove versioned directories (kind as on disk: an in-place kind change is not in the inventory yet) that have
    no versioned descendant that is a file or symlink."""
    for _ in range(6):
        st = observe.snap_tree(wt)
        base = wt.basedir

        def disk_kind(p):
            ap = os.path.join(base, p)
            if os.path.islink(ap):
                return "symlink"
            if os.path.isdir(ap):
                return "directory"
            return "file" if os.path.exists(ap) else None

        kinds = {p: disk_kind(p) for p in st}
        empties = [p for p in st if kinds[p] == "directory"
                   and not any(q.startswith(p + "/") and kinds[q] in ("file", "symlink") for q in st)]
        # only the deepest ones; parents are re-examined in the next round
        empties = [p for p in empties if not any(q.startswith(p + "/") for q in empties)]
        if not empties:
            return True
        for p in empties:
            ap = os.path.join(base, p)
            if rng.random() < 0.6 and st[p][0] == "directory":
                name = rng.choice(["keep", "f1", "k.txt"])
                fp = os.path.join(ap, name)
                if not os.path.lexists(fp):
                    with open(fp, "wb") as f:
                        f.write(gen.gen_content(rng, hostile=False))
                    try:
                        wt.add([p + "/" + name])
                        log.append({"fixup-fill": p + "/" + name})
                        continue
                    except Exception:
                        os.unlink(fp)
            wt.remove([p], keep_files=False, force=True)
            if os.path.lexists(ap):
                gen._rm(ap)
            log.append({"fixup-remove": p})
    return False


def _swap(rng, wt, log):
    """Exchange the paths of two versioned entries through a temporary name (the shared generator has no such op)."""
    st = observe.snap_tree(wt)
    c = [p for p, v in st.items() if v[0] is not None]
    if len(c) < 2:
        return
    a, b = rng.sample(sorted(c), 2)
    if a.startswith(b + "/") or b.startswith(a + "/") or os.path.lexists(os.path.join(wt.basedir, "swap-tmp")):
        return
    try:
        wt.rename_one(a, "swap-tmp")
        wt.rename_one(b, a)
        wt.rename_one("swap-tmp", b)
        log.append({"op": "swap", "a": a, "b": b})
    except Exception as e:
        log.append({"refused": "swap", "err": type(e).__name__})
        wt.revert()


def _committed_unchanged(wt):
    """Paths whose entry is exactly as in the basis tree (same id, path, kind, content, exec): safe material for a shaped change."""
    st = observe.snap_tree(wt)
    with wt.lock_read():
        basis = observe.snap_tree(wt.basis_tree())
    return st, {p for p, v in st.items() if basis.get(p) == v}


def _replace_by_rename(rng, wt, log):
    """rm a; mv b a; then edit and/or chmod the new a - one commit that deletes a path, re-occupies it by a rename and modifies it."""
    st, same = _committed_unchanged(wt)
    files = sorted(p for p in same if st[p][0] == "file")
    if len(files) < 2:
        return
    a, b = rng.sample(files, 2)
    try:
        wt.remove([a], keep_files=False, force=True)
        wt.rename_one(b, a)
        ap = os.path.join(wt.basedir, a)
        how = rng.choice(["edit", "chmod", "both"])
        if how in ("edit", "both"):
            mode = os.stat(ap).st_mode & 0o7777
            with open(ap, "wb") as f:
                f.write(gen.edit_content(rng, st[b][1] or b""))
            os.chmod(ap, mode)
        if how in ("chmod", "both"):
            os.chmod(ap, 0o644 if st[b][2] else 0o755)
        log.append({"op": "rm+mv-onto+" + how, "removed": a, "renamed_onto_it": b})
    except Exception as e:
        log.append({"refused": "replace_by_rename", "err": type(e).__name__})
        wt.revert()


def _dir_rename_onto_prefix_name(rng, wt, log):
    """mv X P/N where N is a proper string prefix of the name of a sibling S in P, and S (or a file below it) is deleted or edited in
    the same commit (d1 next to d10, READ next to README)."""
    st, same = _committed_unchanged(wt)
    dirs = sorted(p for p in same if st[p][0] == "directory" and any(q.startswith(p + "/") and st[q][0] != "directory" for q in st))
    cands = []
    for s_ in sorted(same):
        parent, _, sname = s_.rpartition("/")
        if len(sname) < 2:
            continue
        for k in sorted({len(sname) - 1, 2, 1}):
            if not 0 < k < len(sname):
                continue
            n = (parent + "/" if parent else "") + sname[:k]
            if n in st or os.path.lexists(os.path.join(wt.basedir, n)):
                continue
            for x in dirs:
                if x != s_ and not s_.startswith(x + "/") and not n.startswith(x + "/") and not x.startswith(s_ + "/"):
                    cands.append((x, n, s_))
    if not cands:
        return
    x, n, s_ = rng.choice(cands)
    victim = s_
    if st[s_][0] == "directory":
        below = sorted(q for q in same if q.startswith(s_ + "/") and st[q][0] == "file")
        if not below:
            return
        victim = rng.choice(below)
    try:
        wt.rename_one(x, n)
        if st[victim][0] == "file" and rng.random() < 0.5:
            ap = os.path.join(wt.basedir, victim)
            mode = os.stat(ap).st_mode & 0o7777
            with open(ap, "wb") as f:
                f.write(gen.edit_content(rng, st[victim][1] or b""))
            os.chmod(ap, mode)
            what = "edit"
        else:
            wt.remove([victim], keep_files=False, force=True)
            what = "remove"
        log.append({"op": "dir-rename-onto-prefix-name", "dir": x, "new": n, "sibling": s_, what: victim})
    except Exception as e:
        log.append({"refused": "dir_rename_prefix", "err": type(e).__name__})
        wt.revert()


def _commit(h, name, wt, rng):
    from breezy import errors

    if not _no_empty_dirs(rng, wt, h.log):
        wt.revert()
        return None
    kw = {}
    if rng.random() < 0.2:
        kw["authors"] = [rng.choice(["Ann Author <ann@example.com>", "Søren <s@example.dk>"])]
    try:
        return gen.commit(h, name, wt, rng, **kw)
    except errors.PointlessCommit:
        wt.revert()
        return None


def _build(ctx, rng, nrevs, nbranches):
    from breezy import errors
    from breezy.branch import Branch
    from breezy.workingtree import WorkingTree

    names = gen.Names(ctx.tier)
    root = ctx.tmp("c44hist")
    h = gen.Hist(root, "2a")
    p0 = os.path.join(root, "b0")
    wt = gen.make_tree(p0, "2a")
    h.trees["b0"] = p0
    gen.random_delta(rng, wt, names, rng.randint(4, 8), WEIGHTS, h.log)
    wt.smart_add([wt.basedir])
    _commit(h, "b0", wt, rng)
    guard = 0
    while len(h.order) < nrevs and guard < nrevs * 6:
        guard += 1
        r = rng.random()
        bnames = sorted(h.trees)
        if r < 0.18 and len(h.trees) < nbranches and h.order:
            src = rng.choice(bnames)
            nn = "b%d" % len(h.trees)
            np_ = os.path.join(root, nn)
            WorkingTree.open(h.trees[src]).branch.controldir.sprout(np_)
            h.trees[nn] = np_
            h.log.append({"branch": nn, "from": src})
            continue
        name = rng.choice(bnames)
        wt = WorkingTree.open(h.trees[name])
        if r < 0.5 and len(h.trees) > 1:
            other = rng.choice([b for b in bnames if b != name])
            ob = Branch.open(h.trees[other])
            with wt.lock_read():
                already = wt.branch.repository.get_graph().is_ancestor(ob.last_revision(), wt.last_revision())
            if already:
                continue
            try:
                with wt.lock_write():
                    wt.merge_from_branch(ob)
            except errors.BzrError as e:
                h.log.append({"merge-refused": type(e).__name__})
                WorkingTree.open(h.trees[name]).revert()
                continue
            gen.resolve_all(wt)
            if rng.random() < 0.4:
                gen.random_delta(rng, wt, names, rng.randint(0, 2), WEIGHTS, h.log)
            h.log.append({"merge": other, "into": name})
            _commit(h, name, wt, rng)
            continue
        gen.random_delta(rng, wt, names, rng.randint(1, 5), WEIGHTS, h.log)
        shaped = rng.random()
        if shaped < 0.15:
            _swap(rng, wt, h.log)
        elif shaped < 0.30:
            _replace_by_rename(rng, wt, h.log)
        elif shaped < 0.45:
            _dir_rename_onto_prefix_name(rng, wt, h.log)
        if rng.random() < 0.3:
            try:
                wt.smart_add([wt.basedir])
            except Exception:
                pass
        rid = _commit(h, name, wt, rng)
        if rid and rng.random() < 0.35:
            t = rng.choice(TAGS)
            wt.branch.tags.set_tag(t, wt.last_revision())
            h.tags.setdefault(name, {})[t] = wt.last_revision()
            h.log.append({"tag": t, "in": name, "rev": wt.last_revision().decode()})
    return h


# ---------------------------------------------------------------- the two ends

def _export(branch, plain, rewrite_tags):
    from breezy.plugins.fastimport import exporter as fexp

    out = io.BytesIO()
    e = fexp.BzrFastExporter(branch, out, ref=b"refs/heads/master", plain_format=plain, rewrite_tags=rewrite_tags)
    e.run()
    return out.getvalue(), dict(e.revid_to_mark)


CPU_LIMIT_S = 12  # a typical import of these streams costs 0.1-0.5 CPU-seconds


class _ImportFailed(Exception):
    def __init__(self, typename, where, text):
        Exception.__init__(self, text)
        self.typename, self.where, self.text = typename, where, text


class _ImportDidNotTerminate(Exception):
    def __init__(self, where, trace):
        Exception.__init__(self, where)
        self.where, self.trace = where, trace


def _import_here(dest, data, captured=None):
    from breezy import transport
    from breezy.controldir import format_registry
    from breezy.plugins.fastimport.processors import generic_processor
    from fastimport import parser

    fmt = format_registry.make_controldir("2a")
    control = fmt.initialize_on_transport(transport.get_transport(dest))
    control.create_repository(shared=True)
    proc = generic_processor.GenericProcessor(control, params={})
    p = parser.ImportParser(io.BytesIO(data))
    import contextlib

    with contextlib.redirect_stdout(captured if captured is not None else io.StringIO()):  # 'ABORT: ... processing commit b':7''
        proc.process(p.iter_commands)
    return dict(proc.cache_mgr.marks)


class _Imported:
    """Plain-data view of the imported repository, produced inside the import server (so that reading a repository the importer
    damaged - e.g. a cyclic inventory - cannot hang or crash the worker either)."""

    def __init__(self, d):
        self.__dict__.update(d)


def _snapshot_imported(dest, marks):
    from breezy.branch import Branch

    out = {"error": None, "revids": [], "tip": None, "revno": None, "tags": {}, "revs": {}}
    try:
        nb = Branch.open(os.path.join(dest, "trunk"))
    except Exception as e:
        out["error"] = "%s: %r; destination holds %r" % (type(e).__name__, e, sorted(os.listdir(dest)))
        return out
    nrepo = nb.repository
    with nrepo.lock_read():
        out["revids"] = list(nrepo.all_revision_ids())
        out["tip"], out["revno"] = nb.last_revision(), nb.revno()
        out["tags"] = dict(nb.tags.get_tag_dict())
        have = set(out["revids"])
        for rid in set(marks.values()):
            if rid not in have:
                continue
            rev = nrepo.get_revision(rid)
            out["revs"][rid] = {"parents": list(rev.parent_ids), "message": rev.message, "committer": rev.committer,
                                "timestamp": rev.timestamp, "timezone": rev.timezone, "authors": rev.get_apparent_authors(),
                                "tree": observe.snap_tree(nrepo.revision_tree(rid))}
    return out


_server = {"pid": None, "w": None, "r": None}


def _serve(rfd, wfd):
    """Import server (forked child of the worker, started while the worker is still small): one job per line on rfd."""
    import faulthandler
    import json
    import pickle
    import resource
    import signal
    import time
    import traceback

    try:
        with os.fdopen(rfd, "r") as jobs:
            for line in jobs:
                job = json.loads(line)
                tf = open(job["trace"], "w")
                faulthandler.register(signal.SIGXCPU, file=tf, all_threads=False, chain=True)
                hard = resource.getrlimit(resource.RLIMIT_CPU)[1]
                resource.setrlimit(resource.RLIMIT_CPU, (int(time.process_time()) + 1 + CPU_LIMIT_S, hard))
                try:
                    with open(job["stream"], "rb") as f:
                        data = f.read()
                    captured = io.StringIO()
                    marks = _import_here(job["dest"], data, captured)
                    out = {"ok": True, "marks": {k.decode("latin-1"): v.decode("latin-1") for k, v in marks.items()}}
                    with open(job["snap"], "wb") as f:
                        pickle.dump(_snapshot_imported(job["dest"], marks), f)
                except BaseException as e:  # reported to the parent, which classifies it
                    out = {"ok": False, "type": type(e).__name__, "where": _where(e), "text": repr(e)[:400],
                           "tb": traceback.format_exc()[-2500:], "stdout": captured.getvalue()[-2000:]}
                resource.setrlimit(resource.RLIMIT_CPU, (hard, hard))
                faulthandler.unregister(signal.SIGXCPU)
                tf.close()
                with open(job["res"], "w") as f:
                    json.dump(out, f)
                os.write(wfd, b"k")
    finally:
        os._exit(0)


def _start_server():
    r1, w1 = os.pipe()
    r2, w2 = os.pipe()
    pid = os.fork()
    if pid == 0:
        os.close(w1)
        os.close(r2)
        _serve(r1, w2)
        os._exit(0)
    os.close(r1)
    os.close(w2)
    _server.update(pid=pid, w=w1, r=r2)


def _stop_server():
    import signal

    if _server["pid"]:
        for fd in (_server["w"], _server["r"]):
            try:
                os.close(fd)
            except OSError:
                pass
        try:
            os.kill(_server["pid"], signal.SIGKILL)
        except OSError:
            pass
        try:
            os.waitpid(_server["pid"], 0)
        except OSError:
            pass
        _server.update(pid=None, w=None, r=None)


def _import(ctx, data):
    """Run the importer in a separate (forked) server process under a CPU-time limit - a logical budget that does not depend on
    machine load.  An importer that loops inside native code cannot be interrupted from Python and must not take the shard with it."""
    import json
    import signal

    dest = ctx.tmp("c44dest")
    side = ctx.tmp("c44side")
    job = {"dest": dest, "stream": os.path.join(side, "stream.fi"), "res": os.path.join(side, "result.json"),
           "trace": os.path.join(side, "trace.txt"), "snap": os.path.join(side, "imported.pickle")}
    with open(job["stream"], "wb") as f:
        f.write(data)
    if _server["pid"] is None:
        _start_server()
    os.write(_server["w"], (json.dumps(job) + "\n").encode())
    reply = b""
    while True:
        try:
            reply = os.read(_server["r"], 1)
            break
        except InterruptedError:
            continue
    if reply != b"k":
        _, status = os.waitpid(_server["pid"], 0)
        _server["pid"] = None
        _stop_server()
        trace = ""
        try:
            with open(job["trace"]) as f:
                trace = f.read()
        except OSError:
            pass
        where = "?"
        for line in trace.splitlines():
            if "/breezy/" in line and " in " in line:
                fn = line.split('File "')[1].split('"')[0]
                where = "%s.%s" % (os.path.splitext(os.path.basename(fn))[0], line.rsplit(" in ", 1)[1].strip())
                break
        sig = os.WTERMSIG(status) if os.WIFSIGNALED(status) else 0
        if sig in (signal.SIGXCPU, signal.SIGKILL):
            raise _ImportDidNotTerminate(where, trace[-2500:])
        raise _ImportFailed("ProcessDied(signal %d, status %d)" % (sig, status), where, "importer process died")
    with open(job["res"]) as f:
        out = json.load(f)
    if not out["ok"]:
        e = _ImportFailed(out["type"], out["where"], out["text"] + "\n" + out["tb"])
        e.stdout = out.get("stdout", "")
        raise e
    import pickle

    with open(job["snap"], "rb") as f:
        imported = _Imported(pickle.load(f))
    return imported, {k.encode("latin-1"): v.encode("latin-1") for k, v in out["marks"].items()}


def _strip_properties(data):
    """Remove 'property <name> <len> <value>' lines (value may span lines) from a rich stream, byte-exactly."""
    out, i, n = [], 0, len(data)
    removed = 0
    while i < n:
        j = data.find(b"\n", i)
        j = n if j < 0 else j + 1
        line = data[i:j]
        if line.startswith(b"data "):
            ln = int(line[5:].strip())
            out.append(data[i:j + ln])
            i = j + ln
            continue
        if line.startswith(b"property "):
            parts = line[len(b"property "):].split(b" ", 2)
            if len(parts) >= 2 and parts[1].strip().isdigit():
                ln = int(parts[1])
                have = len(parts[2]) - 1 if len(parts) > 2 else 0  # without the newline
                i = j + max(0, ln - have)
                removed += 1
                continue
        out.append(line)
        i = j
    return b"".join(out), removed


def _valid_git_tag(t):
    return " " not in t


def _graph_sig(order, parents):
    idx = {r: i for i, r in enumerate(order)}
    return [[idx.get(p, -1) for p in parents[r]] for r in order]


def _diff_maps(A, B):
    """A = expected, B = got ({path: (kind, content, exec)}).  [(symptom, path)], children of a missing/extra directory folded."""
    out = []
    for p in sorted(set(A) | set(B)):
        x, y = A.get(p), B.get(p)
        if x == y:
            continue
        par = p.rpartition("/")[0]
        if x is None:
            if not (par and par not in A and par in B):
                out.append(("extra", p))
        elif y is None:
            if not (par and par not in B and par in A):
                out.append(("missing", p))
        elif x[0] != y[0]:
            out.append(("is-%s-instead-of-%s" % (y[0], x[0]), p))
        elif x[1] != y[1]:
            out.append(("content" if x[0] == "file" else "link-target", p))
        else:
            out.append(("exec-bit", p))
    return out


def _cls_of(d, p):
    if d.of_new(p):
        return d.of_new(p)
    if d.of_old(p):
        return d.of_old(p) + "(old path)"
    # neither tree has the path: is it the image, under a renamed directory, of something the old tree had?
    q = p.rpartition("/")[0]
    while q:
        fid = d.new_at.get(q)
        if fid is not None:
            for op, ofid in d.old_at.items():
                if ofid == fid and op != q:
                    cand = op + p[len(q):]
                    if d.of_old(cand):
                        return d.of_old(cand) + "(old path moved with its renamed parent)"
        q = q.rpartition("/")[0]
    return "never-in-source"


def _entry_chain(d, p):
    """File ids of the entry at p and of its ancestor directories, nearest first, looked up in the new and in the old tree (a path
    that exists in neither is followed upwards only)."""
    out = []
    q = p
    while q:
        for at in (d.new_at, d.old_at):
            fid = at.get(q)
            if fid is not None and fid not in out:
                out.append(fid)
        q = q.rpartition("/")[0]
    return out


def _export_family(plain, d, cls, sym, p, roles):
    """Mechanism (closed key space) by which the exporter's commands mistreat path p, decided by what the revision does to the entry at
    p and to its ancestor directories and by which commands the commit actually contains; else the detailed (class, symptom) key."""
    chain = _entry_chain(d, p)
    opath = {f: q for q, f in d.old_at.items()}
    srcs = [q for q, v in roles.items() if "R-src" in v]
    # (fixed) plain stream: a renamed directory with content for which no rename of anything below it was emitted
    if plain:
        for fid in chain:
            c = d.cls.get(fid, "")
            o = opath.get(fid)
            carried = [q for q, f in d.old_at.items() if o and q.startswith(o + "/") and d.cls.get(f, "").startswith("carried")
                       and d.old[q][0] != "directory"]
            if c.startswith("renamed") and c.endswith(":directory") and carried and not any(q in srcs for q in carried):
                # files that simply move along with the directory, and not one of them is renamed explicitly
                return "plain:directory-rename-not-emitted"
    # an entry that is renamed and changes kind: the exporter emits the rename (or, plain format and new kind directory, nothing)
    # and never removes the old object
    if any(d.cls.get(fid, "").startswith("renamed+kind_changed") for fid in chain[:1]):
        return "renamed+kind_changed:old-object-not-removed"
    # a path that is vacated and taken again inside the commit (swap, chain, replacement) - by the entry or by one of its directories
    if any(d.flags.get(fid, set()) & {"path-reused", "old-path-reused"} for fid in chain):
        return "path-reused-within-one-commit:commands-in-wrong-order"
    # something changes below a directory that is renamed in the same commit
    if "moved with its renamed parent" in cls or any("under-renamed-dir" in d.flags.get(fid, set()) for fid in chain[:1]) \
            or any(d.cls.get(fid, "").startswith("renamed") and d.cls.get(fid, "").endswith(":directory") for fid in chain[1:]):
        return "change-below-renamed-directory:" + ("children-renamed-in-wrong-order" if plain else "old-path-used-after-the-rename")
    return "%s:%s" % (cls, sym)


def _prefix_sibling(path, roles):
    """path is not inside a rename destination but its name merely begins with it (lib -> library.txt, d1 -> d10/x)."""
    return any("R-dst" in v and path != q and path.startswith(q) and not path.startswith(q + "/") for q, v in roles.items())


def _import_family(role, sym, roles, path=None):
    """Mechanism by the role the commit's commands give the failing path and its ancestors."""
    parts = set(role.split("+"))
    if "R-dst" in parts and sym == "missing":
        return "rename-destination-lost"
    if "R-dst" in parts and any("R-src" in v and v & {"M", "R-dst"} for v in roles.values()):
        # the destination of a rename whose source path (or another one of the commit) is taken again: a chain or swap of renames
        return "rename-source-path-reused-in-same-commit"
    if "R-src" in parts and parts & {"M", "R-dst"}:
        return "rename-source-path-reused-in-same-commit"
    if any(x.startswith("under-R-") for x in parts):
        return "path-below-directory-renamed-in-same-commit"
    if any(x.startswith("parent-of-") for x in parts):
        return "directory-whose-content-is-renamed-in-same-commit"
    if path is not None and any(_prefix_sibling(q, roles) for q in [path] + [path[:i] for i, ch in enumerate(path) if ch == "/"]):
        return "sibling-sharing-name-prefix-with-rename-destination"
    return "%s:%s" % (role, sym)


def _import_crash_family(roles, typename, where, is_merge=False):
    """Same for an exception: by the shape of the commands of the commit on which the importer raised."""
    srcs = [q for q, v in roles.items() if "R-src" in v]
    if typename == "NoSuchFile" and where.endswith("_path2ie") and srcs:
        # _rename_item reads the text with (ie.revision, current path): wrong once a parent directory was renamed after that revision
        return "raised:rename-reads-text-by-current-path-in-last-changed-revision"
    dsts = [q for q, v in roles.items() if "R-dst" in v]
    if any(roles[q] & {"M", "R-dst"} or any(x.startswith(q + "/") and roles[x] & {"M", "R-dst"} for x in roles) for q in srcs):
        return "raised:rename-source-path-reused-in-same-commit"
    if any(x != q and (x.startswith(q + "/")) for q in srcs + dsts for x in roles):
        return "raised:path-below-directory-renamed-in-same-commit"
    if any(_prefix_sibling(q, roles) for q in roles):
        return "raised:sibling-sharing-name-prefix-with-rename-destination"
    if srcs and is_merge:
        return "raised:merge-commit-with-renames:%s" % typename
    if srcs:
        return "raised:commit-with-renames:%s" % typename
    return "raised:%s@%s" % (typename, where)


def _cmd_roles(fcs):
    """path -> set of roles the commit's file commands give it (M, D, R-src, R-dst, under-R-src...)."""
    roles = {}
    for fc in fcs:
        if fc.name == b"filemodify":
            roles.setdefault(fc.path.decode("utf-8"), set()).add("M")
        elif fc.name == b"filedelete":
            roles.setdefault(fc.path.decode("utf-8"), set()).add("D")
        elif fc.name == b"filerename":
            roles.setdefault(fc.old_path.decode("utf-8"), set()).add("R-src")
            roles.setdefault(fc.new_path.decode("utf-8"), set()).add("R-dst")
    return roles


def _role_of(roles, p):
    r = set(roles.get(p, ()))
    q = p.rpartition("/")[0]
    while q:
        for x in roles.get(q, ()):
            r.add("under-" + x)
        q = q.rpartition("/")[0]
    for other in roles:
        if other.startswith(p + "/"):
            r.add("parent-of-" + "+".join(sorted(roles[other])))
    return "+".join(sorted(r)) or "untouched"


def _roundtrip(ctx, rng, h, bname, plain, rewrite_tags):
    from breezy.branch import Branch

    from vf.checks import _c44_stream as sm

    mode = "plain" if plain else "rich"
    br = Branch.open(h.trees[bname])
    repo = br.repository
    detail = {"branch": bname, "mode": mode, "rewrite_tags": rewrite_tags}
    with repo.lock_read():
        tip = br.last_revision()
        graph = repo.get_graph()
        anc = [r for r, ps in graph.iter_ancestry([tip]) if ps is not None and r != b"null:"]
        src_tags = dict(br.tags.get_tag_dict())
    # ---- export
    try:
        data, revid_to_mark = _export(br, plain, rewrite_tags)
    except Exception as e:
        ctx.fail("export:raised:%s@%s" % (type(e).__name__, _where(e)), repr(e)[:300], detail)
        ctx.note(("export-raised", mode), nontrivial=False)
        return
    ctx.count(mode)
    mark_to_src = {m: r for r, m in revid_to_mark.items() if m is not None}
    snaps = {}

    def src_snap(r):
        if r not in snaps:
            snaps[r] = observe.snap_tree(repo.revision_tree(r))
        return snaps[r]

    # ---- attribution aid 1 (never a verdict by itself): per commit, do the file commands - read with git-fast-import's documented
    #      sequential semantics and applied to the source tree of the 'from' parent - yield the source tree of the revision?
    e_problem = {}  # mark -> (family key, message, detail)
    e_soft = {}
    roles_by_mark, cmds_by_mark = {}, {}
    try:
        commits, resets = sm.parse_commits(data)
    except Exception as e:
        ctx.fail("export:stream:unparseable:%s" % type(e).__name__, "python-fastimport cannot parse the exporter's stream: %r" % (e,), detail)
        ctx.note(("export-unparseable", mode), nontrivial=False)
        return
    ok = True
    with repo.lock_read():
        for mark, frm, merges, fcs, cmd in commits:
            r = mark_to_src.get(mark)
            if r is None:
                ok = False
                ctx.fail("export:stream:commit-with-unknown-mark", "commit mark %r is not in the exporter's own mark table" % mark, detail)
                continue
            rev = repo.get_revision(r)
            cmds_by_mark[mark] = [bytes(fc)[:80].decode("latin-1") for fc in fcs][:25]
            roles_by_mark[mark] = _cmd_roles(fcs)
            ctx.count("stream_commit_checked")
            base = observe.strip_ids(src_snap(mark_to_src[frm])) if frm and frm in mark_to_src else {}
            model, notes = sm.apply_commands(base, fcs)
            for what in sorted({n[0] for n in notes}):
                ctx.hist("stream-note:%s" % what)
            pa = src_snap(rev.parent_ids[0]) if rev.parent_ids else {}
            d = Delta(pa, src_snap(r))
            want = sm.prune_empty_dirs(observe.strip_ids(src_snap(r)))
            diffs = _diff_maps(want, sm.prune_empty_dirs(model))
            fatal = sorted({n[0] for n in notes if n[0] in ("delete-of-path-reoccupied-in-same-commit", "rename-of-missing-path",
                                                           "copy-of-missing-path", "unknown-file-command")})
            soft = [n[0] for n in notes if n[0] in ("delete-by-old-path-after-rename", "rename-replaces-path-occupied-in-same-commit")]
            if not fatal and soft:
                fatal = soft[:1]  # harmless for the final tree by git's rules; only names the exporter if this commit goes wrong
            if diffs:
                sym, p = diffs[0]
                cls = _cls_of(d, p)
                fam = None
                reocc = {n[1] for n in notes if n[0] == "delete-of-path-reoccupied-in-same-commit"}
                if any(p2 in reocc or any(p2.startswith(x + "/") for x in reocc) for _s, p2 in diffs):
                    fam = "path-deleted-after-being-reoccupied"
                for sym2, p2 in ([] if fam else diffs):
                    # a directory that vanished or appeared: what explains it lies below it
                    below = sorted(q for q in set(d.old_at) | set(d.new_at) if q.startswith(p2 + "/"))
                    for q in [p2] + below:
                        cand = _export_family(plain, d, _cls_of(d, q), sym2, q, roles_by_mark[mark])
                        if cand != "%s:%s" % (_cls_of(d, q), sym2):
                            fam = cand
                            break
                    if fam:
                        break
                e_problem[mark] = ("export:stream:%s" % (fam or _export_family(plain, d, cls, sym, p, roles_by_mark[mark])),
                                   "commit %s (%s): its file commands, applied in order to the parent's tree, give path(s) %r %s w.r.t. the "
                                   "revision's tree (what the revision did to the path: %s)" % (mark.decode(), r.decode(), [x[1] for x in diffs[:4]], sym, cls),
                                   {"revision": r.decode(), "mark": mark.decode(), "commands": cmds_by_mark[mark], "delta": d.classes[:30],
                                    "stream_diffs": diffs[:8]})
            elif fatal:
                missing = [n[1] for n in notes if n[0] == fatal[0]]
                if fatal[0] == "delete-of-path-reoccupied-in-same-commit":
                    key = "path-deleted-after-being-reoccupied"
                elif fatal[0] in ("delete-by-old-path-after-rename", "rename-replaces-path-occupied-in-same-commit"):
                    key = "change-below-renamed-directory:old-path-used-after-the-rename"
                elif fatal[0] == "rename-of-missing-path" and missing[0] in base:
                    # the source existed in the parent tree: an earlier command of the same commit destroyed or moved it
                    key = _export_family(plain, d, _cls_of(d, missing[0]), "rename-source-gone", missing[0], roles_by_mark[mark])
                else:
                    key = fatal[0]  # (fixed) a rename of a path that never existed
                # a command git merely ignores is only a last-resort explanation (e_soft): used when nothing else explains the commit
                (e_soft if fatal[0] in ("delete-by-old-path-after-rename", "rename-replaces-path-occupied-in-same-commit") else e_problem)[mark] = (
                    "export:stream:%s" % key,
                    "commit %s (%s): %s %r (revision did: %s)" % (mark.decode(), r.decode(), fatal[0], missing[:4], d.classes[:8]),
                    {"revision": r.decode(), "mark": mark.decode(), "commands": cmds_by_mark[mark], "delta": d.classes[:30]})
            if mark in e_problem:
                ctx.hist("stream differs from git semantics at a commit (attribution aid)")
    # ---- import
    stripped = False

    def import_failed(e, d_, what=""):
        import re

        failing = None
        m = re.search(r"processing commit b':(\d+)'", getattr(e, "stdout", "") or "")
        if m:
            failing = m.group(1).encode()
        earlier = [m_ for m_, _f, _mg, _fc, _c in commits if m_ in e_problem and failing is not None and int(m_) < int(failing)]
        if failing in e_problem or failing in e_soft:
            key, msg, det = e_problem.get(failing) or e_soft[failing]
            ctx.fail(key, "%s; the importer then raised %s@%s on that commit" % (msg, e.typename, e.where),
                     dict(detail, importer_error=e.text[:600], **det))
        elif earlier:
            key, msg, det = e_problem[earlier[0]]
            ctx.fail(key + ":late-effect", "%s; the importer carried on and raised %s@%s at the later commit %s"
                     % (msg, e.typename, e.where, failing), dict(detail, importer_error=e.text[:600], **det))
        else:
            roles = roles_by_mark.get(failing, {})
            kinds = sorted({x for v in roles.values() for x in v})
            is_merge = any(m_ == failing and mg for m_, _f, mg, _fc, _c in commits)
            key = "import:" + _import_crash_family(roles, e.typename, e.where, is_merge)
            ctx.fail(key, "%scommit %s (commands: %s): %s@%s %s" % (what, failing, kinds, e.typename, e.where, e.text[:1200]),
                     dict(detail, failing_mark=failing and failing.decode(), commands=cmds_by_mark.get(failing),
                          stream_tail=d_[-1200:].decode("latin-1")))
        ctx.note(("import-raised", mode), nontrivial=False)

    try:
        dest, marks = _import(ctx, data)
    except _ImportDidNotTerminate as e:
        ctx.fail("import:non-termination",
                 "the importer did not finish the exporter's stream within %d CPU-seconds (typical: < 1); innermost breezy frame %s"
                 % (CPU_LIMIT_S, e.where), dict(detail, trace=e.trace, stream_tail=data[-1500:].decode("latin-1")))
        ctx.note(("import-hang", mode), nontrivial=False)
        return
    except _ImportFailed as e:
        if not plain and e.typename == "ValueError" and "invalid property name" in e.text and b"\nproperty " in data:
            ctx.fail("import:rich:commit-properties-rejected:%s@%s" % (e.typename, e.where),
                     "importing the exporter's own rich stream fails on its 'property' lines: %s" % e.text.splitlines()[0], detail)
            data2, nrem = _strip_properties(data)
            try:
                dest, marks = _import(ctx, data2)
                stripped = True
                ctx.hist("rich: re-imported without property lines")
            except _ImportDidNotTerminate as e2:
                ctx.fail("import:non-termination", "after removing property lines: no termination within the CPU budget (innermost breezy frame %s)" % e2.where,
                         dict(detail, trace=e2.trace, stream_tail=data2[-1500:].decode("latin-1")))
                ctx.note(("import-hang", mode), nontrivial=False)
                return
            except _ImportFailed as e2:
                import_failed(e2, data2, "after removing property lines: ")
                return
        else:
            import_failed(e, data)
            return
    ctx.count("roundtrip")
    # ---- the imported side, as plain data snapshotted inside the import server
    imp = dest
    if imp.error:
        ctx.fail("import:no-trunk-branch", imp.error[:600], detail)
        return
    with repo.lock_read():
        new_ids = set(imp.revids)
        # ---- mapping and count
        mapping = {}
        for r in anc:
            m = revid_to_mark.get(r)
            if m is None:
                ok = False
                ctx.fail("export:revision-not-exported", "ancestor %r of the tip got no mark" % r, detail)
                continue
            nr = marks.get(m)
            if nr is None or nr not in new_ids:
                ok = False
                ctx.fail("import:revision-not-imported", "mark %r (source %r) has no imported revision" % (m, r), detail)
                continue
            mapping[r] = nr
        ctx.count("count_compared")
        if len(new_ids) != len(anc):
            ok = False
            ctx.fail("count:differs", "source ancestry has %d revisions, imported repository %d" % (len(anc), len(new_ids)),
                     dict(detail, source=len(anc), imported=len(new_ids)))
        if len(set(mapping.values())) != len(mapping):
            ok = False
            ctx.fail("mapping:not-injective", "two source revisions map to one imported revision", detail)
        # ---- tip
        if tip in mapping:
            if imp.tip != mapping[tip]:
                ok = False
                ctx.fail("tip:differs", "imported trunk tip is not the image of the source tip", detail)
            elif imp.revno != br.revno():
                ok = False
                ctx.fail("tip:revno-differs", "revno %d vs %d" % (imp.revno, br.revno()), detail)
        # ---- attribution aid 2: per commit, is the imported tree what the commands make of the imported tree of the 'from' parent?
        isnaps = {}

        def imp_snap(mark):
            if mark not in isnaps:
                isnaps[mark] = observe.strip_ids(imp.revs[marks[mark]]["tree"])
            return isnaps[mark]

        i_problem = {}
        for mark, frm, merges, fcs, cmd in commits:
            if marks.get(mark) not in imp.revs or (frm and marks.get(frm) not in imp.revs):
                continue
            ctx.count("import_commit_checked")
            model, notes = sm.apply_commands(imp_snap(frm) if frm else {}, fcs)
            diffs = _diff_maps(sm.prune_empty_dirs(model), sm.prune_empty_dirs(imp_snap(mark)))
            if diffs:
                sym, p = diffs[0]
                role = _role_of(roles_by_mark.get(mark, {}), p)
                i_problem[mark] = ("import:tree:%s" % _import_family(role, sym, roles_by_mark.get(mark, {}), p),
                                   "commit %s: imported tree has path(s) %r %s w.r.t. what the commit's file commands describe (role of the "
                                   "path in the commands: %s)" % (mark.decode(), [x[1] for x in diffs[:4]], sym, role),
                                   {"mark": mark.decode(), "commands": cmds_by_mark.get(mark), "import_diffs": diffs[:8]})
        # ---- the property itself, per revision in export (mark) order
        order = sorted(mapping, key=lambda r: int(revid_to_mark[r]))
        parents = {}
        tree_bad = set()
        classes_sig = []
        nmerge = 0
        for r in order:
            rev, nrev = repo.get_revision(r), imp.revs[mapping[r]]
            parents[r] = list(rev.parent_ids)
            if len(rev.parent_ids) > 1:
                nmerge += 1
                ctx.count("merge_revs")
            rd = dict(detail, revision=r.decode(), nparents=len(rev.parent_ids))
            # parents (ordered => same graph and same left-hand shape)
            ctx.count("rev_parents")
            want = [mapping.get(p) for p in rev.parent_ids]
            if list(nrev["parents"]) != want:
                ok = False
                got = list(nrev["parents"])
                if sorted(got) == sorted(x for x in want if x):
                    key = "parents:order-differs"
                elif len(got) < len(want):
                    key = "parents:parent-lost"
                else:
                    key = "parents:differ"
                ctx.fail(key, "revision %s: parents %r, expected images of %r" % (r.decode(), got, rev.parent_ids), rd)
            # metadata
            ctx.count("rev_meta")
            for field in ("message", "committer", "timestamp", "timezone"):
                x, y = getattr(rev, field), nrev[field]
                if x != y:
                    ok = False
                    ctx.fail("meta:%s-differs" % field, "revision %s: %s %r imported as %r" % (r.decode(), field, x, y), rd)
            if rev.get_apparent_authors() != nrev["authors"]:
                ctx.hist("authors differ (not judged)")
            # trees
            ctx.count("rev_tree")
            a = src_snap(r)
            bsn = nrev["tree"]
            pa = src_snap(rev.parent_ids[0]) if rev.parent_ids else {}
            d = Delta(pa, a)
            classes_sig.append(d.classes)
            if any(c.startswith("renamed") for c in d.classes):
                ctx.count("delta_renamed")
            if any(c.startswith("removed") for c in d.classes):
                ctx.count("delta_removed")
            if d.swap:
                ctx.count("delta_swap")
            ctx.count("symlink_entries", sum(1 for v in a.values() if v[0] == "symlink"))
            ctx.count("exec_entries", sum(1 for v in a.values() if v[2]))
            diffs = _diff_maps(observe.strip_ids(a), observe.strip_ids(bsn))
            if not diffs:
                continue
            ok = False
            tree_bad.add(r)
            if rev.parent_ids and rev.parent_ids[0] in tree_bad:
                ctx.hist("tree differs, inherited from the left parent (reported there)")
                continue
            # this revision is where the damage starts: name the side whose per-commit check disagrees
            mark = revid_to_mark[r]
            sym, p = diffs[0]
            cls = _cls_of(d, p)
            base_msg = ("revision %s (%s): path(s) %r %s after the round trip (what the revision did to the path: %s)"
                        % (r.decode(), "merge" if len(rev.parent_ids) > 1 else "commit", [x[1] for x in diffs[:4]], sym, cls))
            det = dict(rd, paths=[x[1] for x in diffs[:8]], delta=d.classes[:30], commands=cmds_by_mark.get(mark),
                       source={x[1]: _brief(a.get(x[1])) for x in diffs[:6]}, imported={x[1]: _brief(bsn.get(x[1])) for x in diffs[:6]})
            if mark in e_problem and mark not in i_problem:
                key, msg, d2 = e_problem[mark]
                ctx.fail(key, base_msg + "; exporter side: " + msg, dict(det, **d2))
            elif mark in i_problem and mark not in e_problem:
                key, msg, d2 = i_problem[mark]
                ctx.fail(key, base_msg + "; importer side: " + msg, dict(det, **d2))
            elif mark in e_problem:
                key, msg, d2 = e_problem[mark]
                ctx.fail(key, base_msg + "; exporter side: " + msg + " (the importer does not follow the commands literally either: %s)"
                         % i_problem[mark][0], dict(det, **d2))
            elif mark in e_soft:
                key, msg, d2 = e_soft[mark]
                ctx.fail(key, base_msg + "; exporter side: " + msg, dict(det, **d2))
            else:
                earlier = [m_ for m_, _f, _mg, _fc, _c in commits if m_ in e_problem and int(m_) < int(mark)]
                if earlier:
                    key, msg, d2 = e_problem[earlier[0]]
                    ctx.fail(key + ":late-effect", base_msg + "; this commit's commands look right, an earlier one does not: " + msg, dict(det, **d2))
                else:
                    ctx.fail("tree:%s:%s" % (cls, sym), base_msg + "; stream and import each look consistent for this commit", det)
        # ---- tags
        new_tags = dict(imp.tags)
        for t, r in sorted(src_tags.items()):
            if r not in mapping:
                continue
            ctx.count("tags_compared")
            valid = _valid_git_tag(t)
            if plain and not valid:
                if rewrite_tags:
                    t2 = t.replace(" ", "_")
                    if new_tags.get(t2) != mapping[r]:
                        ok = False
                        ctx.fail("tags:rewritten-tag-lost", "tag %r (rewritten %r) -> %r, expected image of %r" % (t, t2, new_tags.get(t2), r), detail)
                else:
                    ctx.hist("plain: git-invalid tag skipped (documented)")
                continue
            if t not in new_tags:
                ok = False
                ctx.fail("tags:lost", "tag %r missing after the round trip" % t, dict(detail, tags=sorted(new_tags)))
            elif new_tags[t] != mapping[r]:
                ok = False
                ctx.fail("tags:moved", "tag %r points to %r, expected the image of %r" % (t, new_tags[t], r), detail)
        extra = set(new_tags) - set(src_tags) - {t.replace(" ", "_") for t in src_tags}
        if extra:
            ok = False
            ctx.fail("tags:invented", "tags %r exist only after the round trip" % sorted(extra), detail)
    sig = (mode, rewrite_tags, _graph_sig(order, parents), hashlib.sha1(repr(classes_sig).encode()).hexdigest()[:12])
    nontrivial = len(order) >= 4 and (nmerge > 0 or any(c.startswith(("renamed", "removed")) for cs in classes_sig for c in cs))
    ctx.note(sig, nontrivial=nontrivial,
             sample={"mode": mode, "branch": bname, "revisions": len(order), "merges": nmerge, "tags": sorted(src_tags),
                     "stream_bytes": len(data), "properties_stripped": stripped, "equal": ok,
                     "delta_classes_last": classes_sig[-1][:8] if classes_sig else []} if rng.random() < 0.15 else None)


def _brief(v):
    if v is None:
        return None
    return [v[0], (v[1][:40].decode("latin-1") if isinstance(v[1], bytes) else v[1]), v[2]]


def case(ctx):
    rng = ctx.rng
    quick = ctx.tier == "quick"
    nrevs = rng.randint(6, 10) if quick else rng.randint(10, 22)
    try:
        h = _build(ctx, rng, nrevs, rng.choice([1, 2, 2, 3]))
    except Exception as e:
        ctx.discard("build:%s" % type(e).__name__)
        return
    if len(h.order) < 3:
        ctx.discard("short-history")
    ctx.info = {"log": h.log[-150:]}
    for e in h.log:
        op = e.get("op", "") if isinstance(e, dict) else ""
        if op.startswith("rm+mv-onto+"):
            ctx.count("shape_rm_mv_onto_modify")
        elif op == "dir-rename-onto-prefix-name":
            ctx.count("shape_dir_rename_onto_prefix_name")
        elif op == "swap":
            ctx.count("shape_swap")
    for bname in sorted(h.trees):
        plain = rng.random() < 0.5
        _roundtrip(ctx, rng, h, bname, plain, rewrite_tags=plain and rng.random() < 0.5)
